//! C05 — searchers are immutable snapshots; readers only ever see whole commits.
//!
//! Ties `Model/Reader.lean` to `reader/mod.rs`, `core/searcher.rs`, `segment_reader.rs`,
//! `managed_directory.rs::garbage_collect`, `segment_updater.rs::{save_metas, garbage_collect_files}`:
//!  (a) every storage trace logged from the real code (writer `Index` + separate reader `Index`
//!      instances over one instrumented directory) is translated into model events and the Lean
//!      model decides the lock discipline on it; the `j` the model assigns to every reload is
//!      compared with the commit identified from the real searcher;
//!  (b) fingerprints of held searchers (ids through a fast field, stored docs, query counts, top
//!      docs, fast-field reads, num_docs) recomputed while commits / merges / deletes / rollback /
//!      GC / writer drop run — RamDirectory and MmapDirectory;
//!  (c) forced windows: a reload paused before each of its storage operations while the writer
//!      commits + merges + GCs; the result must be exactly one commit;
//!  (d) commit generations observed by reloads (second thread, second Index, Manual and
//!      OnCommitWithDelay) never decrease unless two reloads of the same reader overlapped (S5).
use crate::dirs::{Hook, OpKind, OpRec};
use crate::rng::Rng;
use crate::Ctx;
use serde_json::{json, Value};
use std::collections::{BTreeMap, BTreeSet, HashMap};
use std::ops::Range;
use std::panic::{catch_unwind, AssertUnwindSafe};
use std::path::{Path, PathBuf};
use std::sync::atomic::{AtomicBool, Ordering};
use std::sync::{Arc, Condvar, Mutex};
use std::time::{Duration, Instant};
use tantivy::collector::{Count, TopDocs};
use tantivy::directory::error::{DeleteError, LockError, OpenReadError, OpenWriteError};
use tantivy::directory::{DirectoryLock, FileHandle, Lock, MmapDirectory, OwnedBytes, RamDirectory, WatchCallback, WatchHandle, WritePtr};
use tantivy::merge_policy::NoMergePolicy;
use tantivy::query::{BooleanQuery, Occur, PhraseQuery, Query, TermQuery};
use tantivy::schema::{Field, IndexRecordOption, Schema, Value as _, FAST, INDEXED, STORED, STRING, TEXT};
use tantivy::{Directory, HasLen, Index, IndexReader, IndexWriter, ReloadPolicy, Searcher, SearcherGeneration, TantivyDocument, Term, Warmer};

const LOCK: &str = ".tantivy-meta.lock";
const META: &str = "meta.json";
const MARK_PUB: &str = ".c05-pub";
const MARK_GCLIST: &str = ".c05-gclist";
const MARK_ATTEMPT: &str = ".c05-lock-attempt";
const MARK_WARM: &str = ".c05-warm";
/// set when an operation failed because the OS refused to create a thread (shared machine)
static ENV_TROUBLE: AtomicBool = AtomicBool::new(false);
fn env_failure(m: &str) -> bool {
    m.contains("Resource temporarily unavailable") || m.contains("Failed to spawn") || m.contains("failed to spawn thread")
}
const WORDS: [&str; 8] = ["apple", "berry", "cedar", "delta", "ember", "fjord", "grove", "heath"];

// ------------------------------------------------------------------------------------------
// GDir: VDir + a hook on every read of file bytes (the only place a reload touches storage
// after it has released META_LOCK), and a log of thread ids for lock / meta operations
// ------------------------------------------------------------------------------------------
type ReadHook = Arc<dyn Fn(&str) + Send + Sync>;

/// Like `dirs::VDir` (same record and hook types, hook called before the operation, outside any
/// lock), but the record is appended *atomically with the operation itself*, after a possible
/// pause in the hook: the log is a linearisation of what racing threads did to the directory,
/// which is what the model's traces are. (`VDir` logs before it runs the hook and the operation.)
#[derive(Default)]
struct GState {
    log: Vec<OpRec>,
    seq: u64,
    hook: Option<Hook>,
    /// called after the operation has taken effect and was logged (outside the lock): a thread
    /// parked here has e.g. already released META_LOCK but not yet returned from the guard's drop
    post: Option<Hook>,
}

#[derive(Clone)]
struct GDir {
    inner: Box<dyn Directory>,
    st: Arc<Mutex<GState>>,
    read_hook: Arc<Mutex<Option<ReadHook>>>,
}

impl std::fmt::Debug for GDir {
    fn fmt(&self, f: &mut std::fmt::Formatter<'_>) -> std::fmt::Result {
        write!(f, "GDir")
    }
}

struct GHandle {
    inner: Arc<dyn FileHandle>,
    path: String,
    hook: Arc<Mutex<Option<ReadHook>>>,
}

impl std::fmt::Debug for GHandle {
    fn fmt(&self, f: &mut std::fmt::Formatter<'_>) -> std::fmt::Result {
        write!(f, "GHandle({})", self.path)
    }
}

impl HasLen for GHandle {
    fn len(&self) -> usize {
        self.inner.len()
    }
}

impl FileHandle for GHandle {
    fn read_bytes(&self, range: Range<usize>) -> std::io::Result<OwnedBytes> {
        let h = self.hook.lock().unwrap_or_else(|e| e.into_inner()).clone();
        if let Some(h) = h {
            h(&self.path);
        }
        self.inner.read_bytes(range)
    }
}

fn thread_name() -> String {
    let t = std::thread::current();
    match t.name() {
        Some(n) => n.to_string(),
        None => format!("{:?}", t.id()),
    }
}

impl GDir {
    fn new() -> GDir {
        GDir::over(Box::new(RamDirectory::create()))
    }
    fn over(inner: Box<dyn Directory>) -> GDir {
        GDir { inner, st: Arc::new(Mutex::new(GState::default())), read_hook: Arc::new(Mutex::new(None)) }
    }
    fn pre_hook(&self, kind: OpKind, path: &str) {
        let hook = self.st.lock().unwrap_or_else(|e| e.into_inner()).hook.clone();
        if let Some(h) = hook {
            h(&OpRec { seq: 0, thread: thread_name(), kind, path: path.to_string(), len: 0, ok: true, faulted: false, data: None });
        }
    }
    fn set_read_hook(&self, h: Option<ReadHook>) {
        *self.read_hook.lock().unwrap_or_else(|e| e.into_inner()) = h;
    }
    fn set_hook(&self, h: Option<Hook>) {
        self.st.lock().unwrap_or_else(|e| e.into_inner()).hook = h;
    }
    fn set_post_hook(&self, h: Option<Hook>) {
        self.st.lock().unwrap_or_else(|e| e.into_inner()).post = h;
    }
    fn post_hook(&self, rec: &OpRec) {
        let h = self.st.lock().unwrap_or_else(|e| e.into_inner()).post.clone();
        if let Some(h) = h {
            h(rec);
        }
    }
    fn log(&self) -> Vec<OpRec> {
        self.st.lock().unwrap_or_else(|e| e.into_inner()).log.clone()
    }
    fn log_len(&self) -> usize {
        self.st.lock().unwrap_or_else(|e| e.into_inner()).log.len()
    }
    fn mark(&self, name: &str) {
        let _ = self.exists(Path::new(name));
    }
    /// hook first (may block the calling thread), then operation + log record in one step
    fn op<R>(&self, kind: OpKind, path: &Path, data: Option<&[u8]>, f: impl FnOnce() -> (R, bool)) -> R {
        let p = path.to_string_lossy().to_string();
        let thread = thread_name();
        let hook = self.st.lock().unwrap_or_else(|e| e.into_inner()).hook.clone();
        if let Some(h) = hook {
            h(&OpRec { seq: 0, thread: thread.clone(), kind, path: p.clone(), len: 0, ok: true, faulted: false, data: None });
        }
        let (res, rec) = {
            let mut g = self.st.lock().unwrap_or_else(|e| e.into_inner());
            let (res, ok) = f();
            g.seq += 1;
            let seq = g.seq;
            let rec = OpRec { seq, thread, kind, path: p, len: data.map(|d| d.len()).unwrap_or(0), ok, faulted: false, data: data.map(|d| d.to_vec()) };
            g.log.push(rec.clone());
            (res, OpRec { data: None, ..rec })
        };
        self.post_hook(&rec);
        res
    }
}

impl Directory for GDir {
    fn get_file_handle(&self, path: &Path) -> Result<Arc<dyn FileHandle>, OpenReadError> {
        let inner = self.op(OpKind::OpenRead, path, None, || {
            let r = self.inner.get_file_handle(path);
            let ok = r.is_ok();
            (r, ok)
        })?;
        Ok(Arc::new(GHandle { inner, path: path.to_string_lossy().to_string(), hook: self.read_hook.clone() }))
    }
    fn delete(&self, path: &Path) -> Result<(), DeleteError> {
        self.op(OpKind::Delete, path, None, || {
            let r = self.inner.delete(path);
            let ok = r.is_ok();
            (r, ok)
        })
    }
    fn exists(&self, path: &Path) -> Result<bool, OpenReadError> {
        self.op(OpKind::Exists, path, None, || {
            let r = self.inner.exists(path);
            let ok = r.is_ok();
            (r, ok)
        })
    }
    fn open_write(&self, path: &Path) -> Result<WritePtr, OpenWriteError> {
        self.op(OpKind::OpenWrite, path, None, || {
            let r = self.inner.open_write(path);
            let ok = r.is_ok();
            (r, ok)
        })
    }
    fn atomic_read(&self, path: &Path) -> Result<Vec<u8>, OpenReadError> {
        self.op(OpKind::AtomicRead, path, None, || {
            let r = self.inner.atomic_read(path);
            let ok = r.is_ok();
            (r, ok)
        })
    }
    fn atomic_write(&self, path: &Path, data: &[u8]) -> std::io::Result<()> {
        self.op(OpKind::AtomicWrite, path, Some(data), || {
            let r = self.inner.atomic_write(path, data);
            let ok = r.is_ok();
            (r, ok)
        })
    }
    fn sync_directory(&self) -> std::io::Result<()> {
        self.inner.sync_directory()
    }
    fn watch(&self, cb: WatchCallback) -> tantivy::Result<WatchHandle> {
        self.inner.watch(cb)
    }
}

/// `GDir` over an `MmapDirectory` in a tempdir: files are really unlinked under open searchers
/// and META_LOCK is the `flock` of `MmapDirectory::acquire_lock`; acquisition and release are
/// logged as the creation / deletion of the lock file so that traces read the same.
#[derive(Clone, Debug)]
struct MDir(GDir);

struct MGuard {
    inner: Option<DirectoryLock>,
    dir: GDir,
    path: String,
}

impl Drop for MGuard {
    fn drop(&mut self) {
        self.dir.pre_hook(OpKind::Delete, &self.path);
        let rec = {
            let mut g = self.dir.st.lock().unwrap_or_else(|e| e.into_inner());
            drop(self.inner.take());
            g.seq += 1;
            let seq = g.seq;
            let rec = OpRec { seq, thread: thread_name(), kind: OpKind::Delete, path: self.path.clone(), len: 0, ok: true, faulted: false, data: None };
            g.log.push(rec.clone());
            rec
        };
        self.dir.post_hook(&rec);
    }
}

impl Directory for MDir {
    fn get_file_handle(&self, path: &Path) -> Result<Arc<dyn FileHandle>, OpenReadError> {
        self.0.get_file_handle(path)
    }
    fn delete(&self, path: &Path) -> Result<(), DeleteError> {
        self.0.delete(path)
    }
    fn exists(&self, path: &Path) -> Result<bool, OpenReadError> {
        self.0.exists(path)
    }
    fn open_write(&self, path: &Path) -> Result<WritePtr, OpenWriteError> {
        self.0.open_write(path)
    }
    fn atomic_read(&self, path: &Path) -> Result<Vec<u8>, OpenReadError> {
        self.0.atomic_read(path)
    }
    fn atomic_write(&self, path: &Path, data: &[u8]) -> std::io::Result<()> {
        self.0.atomic_write(path, data)
    }
    fn sync_directory(&self) -> std::io::Result<()> {
        self.0.sync_directory()
    }
    fn watch(&self, cb: WatchCallback) -> tantivy::Result<WatchHandle> {
        self.0.watch(cb)
    }
    fn acquire_lock(&self, lock: &Lock) -> Result<DirectoryLock, LockError> {
        let path = lock.filepath.to_string_lossy().to_string();
        if path != LOCK {
            return self.0.inner.acquire_lock(lock);
        }
        self.0.pre_hook(OpKind::OpenWrite, &path);
        {
            // flock blocks silently: leave a trace of the attempt (ignored by the translation)
            let mut g = self.0.st.lock().unwrap_or_else(|e| e.into_inner());
            g.seq += 1;
            let seq = g.seq;
            g.log.push(OpRec { seq, thread: thread_name(), kind: OpKind::Exists, path: MARK_ATTEMPT.to_string(), len: 0, ok: true, faulted: false, data: None });
        }
        let l = self.0.inner.acquire_lock(lock)?;
        {
            let mut g = self.0.st.lock().unwrap_or_else(|e| e.into_inner());
            g.seq += 1;
            let seq = g.seq;
            g.log.push(OpRec { seq, thread: thread_name(), kind: OpKind::OpenWrite, path: path.clone(), len: 0, ok: true, faulted: false, data: None });
        }
        Ok(DirectoryLock::from(Box::new(MGuard { inner: Some(l), dir: self.0.clone(), path })))
    }
}

/// the directory a scenario runs on
struct Store {
    g: GDir,
    mmap: Option<tempfile::TempDir>,
}

impl Store {
    fn new(mmap: bool) -> Store {
        if mmap {
            let t = tempfile::tempdir().unwrap();
            let g = GDir::over(Box::new(MmapDirectory::open(t.path()).unwrap()));
            Store { g, mmap: Some(t) }
        } else {
            Store { g: GDir::new(), mmap: None }
        }
    }
    fn dir(&self) -> Box<dyn Directory> {
        if self.mmap.is_some() { Box::new(MDir(self.g.clone())) } else { Box::new(self.g.clone()) }
    }
}

fn on_thread<T: Send + 'static>(name: &str, f: impl FnOnce() -> T + Send + 'static) -> std::thread::Result<T> {
    std::thread::Builder::new().name(name.to_string()).spawn(f).expect("spawn").join()
}

// ------------------------------------------------------------------------------------------
// the harness's own model of the documents
// ------------------------------------------------------------------------------------------
#[derive(Clone, Debug, PartialEq)]
struct DocM {
    body: String,
    num: i64,
}
type Docs = BTreeMap<u64, DocM>;

#[derive(Clone, Copy)]
struct Fields {
    id: Field,
    body: Field,
    num: Field,
    tag: Field,
}

fn schema() -> (Schema, Fields) {
    let mut sb = Schema::builder();
    let id = sb.add_u64_field("id", FAST | INDEXED | STORED);
    let body = sb.add_text_field("body", TEXT | STORED);
    let num = sb.add_i64_field("num", FAST | STORED);
    let tag = sb.add_text_field("tag", STRING | FAST);
    (sb.build(), Fields { id, body, num, tag })
}

fn fields_of(index: &Index) -> Fields {
    let s = index.schema();
    Fields {
        id: s.get_field("id").unwrap(),
        body: s.get_field("body").unwrap(),
        num: s.get_field("num").unwrap(),
        tag: s.get_field("tag").unwrap(),
    }
}

struct World {
    index: Index,
    writer: Option<IndexWriter>,
    f: Fields,
    live: Docs,
    committed: Docs,
    by_opstamp: HashMap<u64, Arc<Docs>>,
    next_id: u64,
    ops: Vec<String>,
}

impl World {
    fn create(dir: Box<dyn Directory>) -> World {
        let (schema, f) = schema();
        let index = Index::create(dir, schema, Default::default()).unwrap();
        let mut by_opstamp = HashMap::new();
        by_opstamp.insert(0u64, Arc::new(Docs::new()));
        let mut w = World { index, writer: None, f, live: Docs::new(), committed: Docs::new(), by_opstamp, next_id: 1, ops: vec![] };
        w.new_writer();
        w
    }
    fn new_writer(&mut self) {
        let w: IndexWriter = self.index.writer_with_num_threads(1, 15_000_000).unwrap();
        w.set_merge_policy(Box::new(NoMergePolicy));
        self.writer = Some(w);
    }
    fn w(&mut self) -> &mut IndexWriter {
        if self.writer.is_none() {
            self.new_writer();
        }
        self.writer.as_mut().unwrap()
    }
    fn add(&mut self, rng: &mut Rng, n: usize) {
        for _ in 0..n {
            let len = 1 + rng.usize_below(6);
            let body: Vec<&str> = (0..len).map(|_| *rng.pick(&WORDS)).collect();
            let body = body.join(" ");
            let id = self.next_id;
            self.next_id += 1;
            let num = (rng.below(2001) as i64) - 1000;
            let mut d = TantivyDocument::default();
            d.add_u64(self.f.id, id);
            d.add_text(self.f.body, &body);
            d.add_i64(self.f.num, num);
            d.add_text(self.f.tag, &format!("t{}", id % 5));
            let f = self.f;
            let _ = f;
            self.w().add_document(d).unwrap();
            self.live.insert(id, DocM { body, num });
        }
        self.ops.push(format!("add{n}"));
    }
    fn delete_some(&mut self, rng: &mut Rng, n: usize) {
        // only documents of earlier commits (a delete of a document added in the same
        // transaction is C02's subject)
        let ids: Vec<u64> = self.committed.keys().filter(|k| self.live.contains_key(k)).cloned().collect();
        if ids.is_empty() {
            return;
        }
        for _ in 0..n {
            let id = *rng.pick(&ids);
            let t = Term::from_field_u64(self.f.id, id);
            self.w().delete_term(t);
            self.live.remove(&id);
        }
        self.ops.push(format!("del{n}"));
    }
    fn commit(&mut self) -> u64 {
        let op = self.w().commit().unwrap();
        self.committed = self.live.clone();
        self.by_opstamp.insert(op, Arc::new(self.committed.clone()));
        self.ops.push("commit".into());
        op
    }
    fn rollback(&mut self) {
        self.w().rollback().unwrap();
        // `rollback` replaces the writer by a fresh one with the default merge policy; the
        // scenarios rely on merges happening only where they ask for them
        self.w().set_merge_policy(Box::new(NoMergePolicy));
        self.live = self.committed.clone();
        self.ops.push("rollback".into());
    }
    fn merge_all(&mut self) {
        let ids = self.index.searchable_segment_ids().unwrap();
        if ids.len() >= 2 {
            let _ = self.w().merge(&ids).wait();
            self.ops.push(format!("merge{}", ids.len()));
        }
    }
    fn gc(&mut self) {
        let _ = self.w().garbage_collect_files().wait();
        self.ops.push("gc".into());
    }
    fn drop_writer(&mut self) {
        if let Some(w) = self.writer.take() {
            let _ = w.wait_merging_threads();
        }
        self.live = self.committed.clone();
        self.ops.push("dropwriter".into());
    }
    /// one random writer-side operation
    fn random_op(&mut self, rng: &mut Rng) -> &'static str {
        match rng.below(12) {
            0..=2 => {
                let n = [1usize, 2, 5, 17][rng.usize_below(4)];
                self.add(rng, n);
                self.commit();
                "add+commit"
            }
            3 => {
                { let n_ = 1 + rng.usize_below(3); self.delete_some(rng, n_) };
                self.commit();
                "delete+commit"
            }
            4 => {
                self.add(rng, 3);
                self.delete_some(rng, 2);
                self.commit();
                "add+delete+commit"
            }
            5..=6 => {
                self.merge_all();
                "merge"
            }
            7 => {
                self.add(rng, 4);
                self.rollback();
                "add+rollback"
            }
            8 => {
                self.gc();
                "gc"
            }
            9 => {
                self.add(rng, 2);
                self.drop_writer();
                "add+dropwriter"
            }
            10 => {
                { let n_ = 1 + rng.usize_below(4); self.add(rng, n_) };
                self.commit();
                self.merge_all();
                self.gc();
                "commit+merge+gc"
            }
            _ => {
                self.commit();
                "empty-commit"
            }
        }
    }
}

// ------------------------------------------------------------------------------------------
// observing a searcher
// ------------------------------------------------------------------------------------------
type Sig = Vec<(String, Option<u64>)>;

fn sig_of(s: &Searcher) -> Sig {
    let mut v: Sig = s.segment_readers().iter().map(|r| (r.segment_id().uuid_string(), r.delete_opstamp())).collect();
    v.sort();
    v
}

fn body_query(f: Fields, w: &str) -> TermQuery {
    TermQuery::new(Term::from_field_text(f.body, w), IndexRecordOption::WithFreqs)
}

/// everything observable we look at, as one canonical string
fn fingerprint(s: &Searcher, f: Fields) -> Result<String, String> {
    let r = catch_unwind(AssertUnwindSafe(|| -> Result<String, String> {
        let mut out = String::new();
        out.push_str(&format!("n={};", s.num_docs()));
        let mut rows: Vec<(u64, i64, String, u64)> = vec![];
        for (ord, seg) in s.segment_readers().iter().enumerate() {
            let idc = seg.fast_fields().u64("id").map_err(|e| e.to_string())?;
            let numc = seg.fast_fields().i64("num").map_err(|e| e.to_string())?;
            let tagc = seg.fast_fields().str("tag").map_err(|e| e.to_string())?.ok_or("no tag column")?;
            for doc in seg.doc_ids_alive() {
                let id = idc.first(doc).ok_or("id missing")?;
                let num = numc.first(doc).ok_or("num missing")?;
                let mut tag = String::new();
                if let Some(o) = tagc.term_ords(doc).next() {
                    tagc.ord_to_str(o, &mut tag).map_err(|e| e.to_string())?;
                }
                let d: TantivyDocument = s.doc(tantivy::DocAddress::new(ord as u32, doc)).map_err(|e| e.to_string())?;
                let sid = d.get_first(f.id).and_then(|v| v.as_u64()).ok_or("stored id missing")?;
                let body = d.get_first(f.body).and_then(|v| v.as_str()).ok_or("stored body missing")?.to_string();
                rows.push((id, num, format!("{tag}|{body}"), sid));
            }
        }
        rows.sort();
        for (id, num, tb, sid) in &rows {
            out.push_str(&format!("{id},{num},{tb},{sid};"));
        }
        for w in WORDS {
            let c = s.search(&body_query(f, w), &Count).map_err(|e| e.to_string())?;
            let df = s.doc_freq(&Term::from_field_text(f.body, w)).map_err(|e| e.to_string())?;
            out.push_str(&format!("{w}={c}/{df};"));
        }
        let pq = PhraseQuery::new(vec![Term::from_field_text(f.body, "apple"), Term::from_field_text(f.body, "berry")]);
        out.push_str(&format!("ph={};", s.search(&pq, &Count).map_err(|e| e.to_string())?));
        let bq = BooleanQuery::new(vec![
            (Occur::Should, Box::new(body_query(f, "cedar")) as Box<dyn Query>),
            (Occur::Should, Box::new(body_query(f, "delta")) as Box<dyn Query>),
        ]);
        let top = s.search(&bq, &TopDocs::with_limit(5).order_by_score()).map_err(|e| e.to_string())?;
        for (score, addr) in top {
            out.push_str(&format!("t{}:{}:{:08x};", addr.segment_ord, addr.doc_id, score.to_bits()));
        }
        Ok(out)
    }));
    match r {
        Ok(x) => x,
        Err(_) => Err("PANIC".into()),
    }
}

/// the searcher shows exactly the documents `docs` (ids, stored fields, fast fields, term and
/// phrase counts)
fn matches_docs(s: &Searcher, f: Fields, docs: &Docs) -> Result<(), String> {
    let r = catch_unwind(AssertUnwindSafe(|| -> Result<(), String> {
        if s.num_docs() as usize != docs.len() {
            return Err(format!("num_docs {} expected {}", s.num_docs(), docs.len()));
        }
        let mut seen: BTreeSet<u64> = BTreeSet::new();
        for (ord, seg) in s.segment_readers().iter().enumerate() {
            let idc = seg.fast_fields().u64("id").map_err(|e| e.to_string())?;
            let numc = seg.fast_fields().i64("num").map_err(|e| e.to_string())?;
            for doc in seg.doc_ids_alive() {
                let id = idc.first(doc).ok_or("id missing")?;
                let m = docs.get(&id).ok_or(format!("document id {id} is not in the commit"))?;
                if !seen.insert(id) {
                    return Err(format!("document id {id} twice"));
                }
                if numc.first(doc) != Some(m.num) {
                    return Err(format!("fast field num of id {id}"));
                }
                let d: TantivyDocument = s.doc(tantivy::DocAddress::new(ord as u32, doc)).map_err(|e| e.to_string())?;
                if d.get_first(f.body).and_then(|v| v.as_str()) != Some(m.body.as_str()) {
                    return Err(format!("stored body of id {id}"));
                }
                if d.get_first(f.id).and_then(|v| v.as_u64()) != Some(id) {
                    return Err(format!("stored id of id {id}"));
                }
            }
        }
        if seen.len() != docs.len() {
            return Err(format!("{} ids seen, {} expected", seen.len(), docs.len()));
        }
        for w in ["apple", "ember", "heath"] {
            let exp = docs.values().filter(|d| d.body.split(' ').any(|x| x == w)).count();
            let c = s.search(&body_query(f, w), &Count).map_err(|e| e.to_string())?;
            if c != exp {
                return Err(format!("count({w}) = {c}, expected {exp}"));
            }
        }
        let exp = docs.values().filter(|d| d.body.contains("apple berry")).count();
        let pq = PhraseQuery::new(vec![Term::from_field_text(f.body, "apple"), Term::from_field_text(f.body, "berry")]);
        let c = s.search(&pq, &Count).map_err(|e| e.to_string())?;
        if c != exp {
            return Err(format!("phrase count = {c}, expected {exp}"));
        }
        Ok(())
    }));
    match r {
        Ok(x) => x,
        Err(_) => Err("PANIC".into()),
    }
}

// ------------------------------------------------------------------------------------------
// metas written so far (from the log) and translation of a log into model events
// ------------------------------------------------------------------------------------------
#[derive(Clone, Debug)]
struct MetaRec {
    opstamp: u64,
    sig: Sig,
}

fn parse_meta(data: &[u8]) -> Option<MetaRec> {
    let v: Value = serde_json::from_slice(data).ok()?;
    let mut sig: Sig = vec![];
    for s in v["segments"].as_array()? {
        let id = s["segment_id"].as_str()?.replace('-', "");
        let del = s["deletes"]["opstamp"].as_u64();
        sig.push((id, del));
    }
    sig.sort();
    Some(MetaRec { opstamp: v["opstamp"].as_u64()?, sig })
}

fn metas_of(log: &[OpRec]) -> Vec<MetaRec> {
    log.iter()
        .filter(|r| r.kind == OpKind::AtomicWrite && r.path == META)
        .filter_map(|r| r.data.as_ref().and_then(|d| parse_meta(d)))
        .collect()
}

fn meta_files(m: &MetaRec) -> Vec<String> {
    let mut v = vec![];
    for (id, del) in &m.sig {
        for ext in ["term", "store", "idx", "pos", "fast", "fieldnorm"] {
            v.push(format!("{id}.{ext}"));
        }
        if let Some(o) = del {
            v.push(format!("{id}.{o}.del"));
        }
    }
    v
}

fn reader_of_thread(name: &str) -> Option<u64> {
    if name == "watch-callbacks" {
        return Some(900);
    }
    let rest = name.strip_prefix("c05-rd-")?;
    rest.split('-').next()?.parse().ok()
}

struct Trace {
    events: Vec<String>,
    /// (reader, call) in order of acquisition, with the thread that ran it
    sessions: Vec<(u64, u64, String)>,
    readers: BTreeSet<u64>,
}

/// `gc_livings`: living sets returned by harness-supplied GC closures, in call order;
/// `pub_marks`: publications observed from outside (no marker in the log): (log length at the
/// observation, reader, call), sorted by position
fn translate(log: &[OpRec], gc_livings: &[Vec<String>], pub_marks: &[(usize, u64, u64)]) -> Trace {
    let mut ids: HashMap<String, usize> = HashMap::new();
    let mut pid = |p: &str| -> usize {
        let n = ids.len() + 1;
        *ids.entry(p.to_string()).or_insert(n)
    };
    let mut ev: Vec<String> = vec![];
    let mut created: BTreeSet<String> = BTreeSet::new();
    let mut present: BTreeSet<String> = BTreeSet::new();
    let mut next_k: HashMap<u64, u64> = HashMap::new();
    let mut cur: HashMap<String, (u64, u64)> = HashMap::new();
    let mut sessions = vec![];
    let mut readers = BTreeSet::new();
    let mut metas_seen = 0usize;
    let mut gl_seen_in_section: HashMap<String, bool> = HashMap::new();
    let mut gc_idx = 0usize;
    let fmt_list = |v: &[usize]| -> String {
        if v.is_empty() { "-".to_string() } else { v.iter().map(|x| x.to_string()).collect::<Vec<_>>().join(",") }
    };
    let mut next_mark = 0usize;
    for (i, r) in log.iter().enumerate() {
        while next_mark < pub_marks.len() && pub_marks[next_mark].0 <= i {
            ev.push(format!("p.{}.{}", pub_marks[next_mark].1, pub_marks[next_mark].2));
            next_mark += 1;
        }
        let rd = reader_of_thread(&r.thread);
        let is_lock = r.path == LOCK;
        match (rd, r.kind) {
            (Some(rho), OpKind::OpenWrite) if is_lock => {
                if r.ok {
                    let k = next_k.entry(rho).or_insert(0);
                    cur.insert(r.thread.clone(), (rho, *k));
                    sessions.push((rho, *k, r.thread.clone()));
                    readers.insert(rho);
                    ev.push(format!("a.{rho}.{k}"));
                    *k += 1;
                }
            }
            (Some(rho), OpKind::Delete) if is_lock => {
                let (_, k) = cur.get(&r.thread).cloned().unwrap_or((rho, 9999));
                ev.push(format!("r.{rho}.{k}"));
            }
            (Some(rho), OpKind::AtomicRead) if r.path == META => {
                let (_, k) = cur.get(&r.thread).cloned().unwrap_or((rho, 9999));
                ev.push(format!("l.{rho}.{k}"));
            }
            (Some(rho), OpKind::OpenRead) => {
                let (_, k) = cur.get(&r.thread).cloned().unwrap_or((rho, 9999));
                ev.push(format!("o.{rho}.{k}.{}", pid(&r.path)));
            }
            (Some(rho), OpKind::Exists) if r.path == MARK_WARM => {
                let (_, k) = cur.get(&r.thread).cloned().unwrap_or((rho, 9999));
                ev.push(format!("w.{rho}.{k}"));
            }
            (Some(rho), OpKind::Exists) if r.path == MARK_PUB => {
                let (_, k) = cur.get(&r.thread).cloned().unwrap_or((rho, 9999));
                ev.push(format!("p.{rho}.{k}"));
            }
            (Some(_), _) => {}
            (None, OpKind::OpenWrite) if is_lock => {
                if r.ok {
                    ev.push("ga".into());
                    gl_seen_in_section.insert(r.thread.clone(), false);
                }
            }
            (None, OpKind::Exists) if r.path == MARK_GCLIST => {
                let living: Vec<usize> = gc_livings.get(gc_idx).map(|l| l.iter().map(|p| pid(p)).collect()).unwrap_or_default();
                gc_idx += 1;
                ev.push(format!("gl.{}", fmt_list(&living)));
                gl_seen_in_section.insert(r.thread.clone(), true);
            }
            (None, OpKind::Delete) if is_lock => {
                if !gl_seen_in_section.get(&r.thread).cloned().unwrap_or(false) {
                    // the living set of the real writer is computed in memory; it is reconstructed
                    // as "everything present that this GC round does not delete afterwards"
                    let mut doomed: BTreeSet<&str> = BTreeSet::new();
                    for q in &log[i + 1..] {
                        if q.thread != r.thread {
                            continue;
                        }
                        if q.kind == OpKind::OpenWrite && q.path == LOCK {
                            break;
                        }
                        if q.kind == OpKind::Delete && q.ok && q.path != LOCK {
                            doomed.insert(q.path.as_str());
                        }
                    }
                    let living: Vec<usize> = present.iter().filter(|p| !doomed.contains(&p[..])).map(|p| pid(p)).collect();
                    ev.push(format!("gl.{}", fmt_list(&living)));
                }
                ev.push("gr".into());
            }
            (None, OpKind::OpenWrite) => {
                if r.ok && !r.path.starts_with('.') {
                    let p = pid(&r.path);
                    ev.push(format!("c.{p}.{p}"));
                    created.insert(r.path.clone());
                    present.insert(r.path.clone());
                }
            }
            (None, OpKind::AtomicWrite) if r.path == META => {
                if let Some(m) = r.data.as_ref().and_then(|d| parse_meta(d)) {
                    metas_seen += 1;
                    if metas_seen > 1 {
                        let files: Vec<usize> = meta_files(&m).iter().filter(|p| created.contains(*p)).map(|p| pid(p)).collect();
                        ev.push(format!("s.{}", fmt_list(&files)));
                    }
                }
            }
            (None, OpKind::Delete) => {
                if r.ok && !r.path.starts_with('.') {
                    ev.push(format!("gd.{}", pid(&r.path)));
                    present.remove(&r.path);
                }
            }
            _ => {}
        }
    }
    while next_mark < pub_marks.len() {
        ev.push(format!("p.{}.{}", pub_marks[next_mark].1, pub_marks[next_mark].2));
        next_mark += 1;
    }
    Trace { events: ev, sessions, readers }
}

struct ModelVerdict {
    raw: String,
    ok: bool,
    /// (reader, call) -> j
    pubs: Vec<((u64, u64), u64)>,
    loads: HashMap<(u64, u64), u64>,
    badopens: usize,
}

fn ask_trace(ctx: &mut Ctx, disc: &str, tr: &Trace) -> ModelVerdict {
    let evs = if tr.events.is_empty() { "-".to_string() } else { tr.events.join(";") };
    let raw = ctx.model.ask(&format!("C05 trace {disc} {evs}"));
    let mut ok = false;
    let mut pubs = vec![];
    let mut loads = HashMap::new();
    let mut badopens = 0;
    let triple = |t: &str| -> Option<((u64, u64), u64)> {
        let p: Vec<&str> = t.split('.').collect();
        if p.len() != 3 {
            return None;
        }
        Some(((p[0].parse().ok()?, p[1].parse().ok()?), p[2].parse().ok()?))
    };
    for (i, part) in raw.split(' ').enumerate() {
        if i == 0 {
            ok = part == "ok";
        } else if let Some(x) = part.strip_prefix("pubs=") {
            if x != "-" {
                pubs = x.split(',').filter_map(triple).collect();
            }
        } else if let Some(x) = part.strip_prefix("loads=") {
            if x != "-" {
                loads = x.split(',').filter_map(triple).collect();
            }
        } else if let Some(x) = part.strip_prefix("badopens=") {
            if x != "-" {
                badopens = x.split(',').count();
            }
        }
    }
    ModelVerdict { raw, ok, pubs, loads, badopens }
}

/// (sequential?, monotone?) of reader `rho` on the trace, decided by the model
fn ask_seq(ctx: &mut Ctx, rho: u64, tr: &Trace) -> (bool, bool, String) {
    let evs = if tr.events.is_empty() { "-".to_string() } else { tr.events.join(";") };
    let raw = ctx.model.ask(&format!("C05 seq {rho} {evs}"));
    (raw.contains("seq=1"), raw.contains("mono=1"), raw)
}

/// what a reader thread reports for one reload
#[derive(Clone, Debug)]
struct Obs {
    ok: bool,
    err: String,
    sig: Sig,
    check: Option<Searcher>,
}

fn do_reload(gdir: &GDir, reader: &IndexReader) -> Obs {
    let r = catch_unwind(AssertUnwindSafe(|| reader.reload()));
    match r {
        Ok(Ok(())) => {
            gdir.mark(MARK_PUB);
            let s = reader.searcher();
            Obs { ok: true, err: String::new(), sig: sig_of(&s), check: Some(s) }
        }
        Ok(Err(e)) => {
            let err = format!("{e}");
            if env_failure(&err) {
                ENV_TROUBLE.store(true, Ordering::SeqCst);
            }
            Obs { ok: false, err, sig: vec![], check: None }
        }
        Err(_) => Obs { ok: false, err: "PANIC".into(), sig: vec![], check: None },
    }
}

fn candidates(metas: &[MetaRec], sig: &Sig) -> Vec<usize> {
    metas.iter().enumerate().filter(|(_, m)| &m.sig == sig).map(|(j, _)| j).collect()
}

/// judge one successful reload against the list of metas: exactly one commit, the right docs
fn judge_obs(ctx: &mut Ctx, what: &str, obs: &Obs, metas: &[MetaRec], by_opstamp: &HashMap<u64, Arc<Docs>>, f: Fields, jmin: usize, jmax: usize, case: &Value) -> Option<usize> {
    let cands = candidates(metas, &obs.sig);
    if cands.is_empty() {
        ctx.report.violation("oracle", "C05:reload-mixes-commits", format!("{what}: the searcher's segment set {:?} is the segment set of no meta.json ever written (mixture or uncommitted segment)", obs.sig), case.clone());
        return None;
    }
    let j = match cands.iter().cloned().filter(|j| *j >= jmin && *j <= jmax).next() {
        Some(j) => j,
        None => {
            ctx.report.violation("oracle", "C05:reload-not-a-current-commit", format!("{what}: reload produced meta {:?} but the metas current during the reload were {jmin}..={jmax}", cands), case.clone());
            return None;
        }
    };
    if let (Some(s), Some(docs)) = (obs.check.as_ref(), by_opstamp.get(&metas[j].opstamp)) {
        if let Err(e) = matches_docs(s, f, docs) {
            let key = if e == "PANIC" { "C05:panic" } else { "C05:searcher-docs-differ-from-commit" };
            ctx.report.violation("oracle", key, format!("{what}: searcher of meta {j} (opstamp {}): {e}", metas[j].opstamp), case.clone());
            return None;
        }
    }
    Some(j)
}

// ------------------------------------------------------------------------------------------
// (b) held-searcher fingerprints
// ------------------------------------------------------------------------------------------
struct Held {
    s: Searcher,
    fp: String,
    taken_at: usize,
    from: &'static str,
}

fn scenario_fingerprint(ctx: &mut Ctx, seed: u64, mmap: bool, steps: usize) {
    let mut rng = Rng::new(seed);
    let case = json!({"scenario": "fingerprint", "seed": seed, "mmap": mmap, "steps": steps});
    let tmp = if mmap { Some(tempfile::tempdir().unwrap()) } else { None };
    let gdir = GDir::new();
    let dir: Box<dyn Directory> = match &tmp {
        Some(t) => Box::new(MmapDirectory::open(t.path()).unwrap()),
        None => Box::new(gdir.clone()),
    };
    let mut w = World::create(dir);
    let f = w.f;
    for _ in 0..1 + rng.usize_below(3) {
        let n = [1usize, 3, 20, 60][rng.usize_below(4)];
        w.add(&mut rng, n);
        w.commit();
    }
    let open_second = |w: &World| -> Index {
        match &tmp {
            Some(t) => Index::open_in_dir(t.path()).unwrap(),
            None => Index::open(gdir.clone()).unwrap(),
        }
        .tap(|_| { let _ = w; })
    };
    let second = open_second(&w);
    let r1: IndexReader = w.index.reader().unwrap();
    let r2: IndexReader = second.reader_builder().reload_policy(ReloadPolicy::Manual).try_into().unwrap();
    let mut readers: Vec<Option<IndexReader>> = vec![Some(r1), Some(r2)];
    let mut held: Vec<Held> = vec![];
    let take = |held: &mut Vec<Held>, ctx: &mut Ctx, rd: &IndexReader, from: &'static str, step: usize, docs: Option<&Docs>| {
        let s = rd.searcher();
        match fingerprint(&s, f) {
            Ok(fp) => {
                if let Some(d) = docs {
                    if let Err(e) = matches_docs(&s, f, d) {
                        // the OnCommitWithDelay reader may lag; only a Manual reader just reloaded is compared
                        if from == "second-index-manual" {
                            ctx.report.violation("oracle", "C05:searcher-docs-differ-from-commit", format!("fresh searcher ({from}): {e}"), case.clone());
                        }
                    }
                }
                held.push(Held { s, fp, taken_at: step, from });
            }
            Err(e) => ctx.report.violation("oracle", if e == "PANIC" { "C05:panic" } else { "C05:held-searcher-error" }, format!("fingerprint of a fresh searcher ({from}) failed: {e}"), case.clone()),
        }
    };
    take(&mut held, ctx, readers[0].as_ref().unwrap(), "writer-index-oncommit", 0, None);
    take(&mut held, ctx, readers[1].as_ref().unwrap(), "second-index-manual", 0, Some(&w.committed));
    for step in 1..=steps {
        let op = if step == steps { w.drop_writer(); "final-dropwriter" } else { w.random_op(&mut rng) };
        ctx.report.count(&format!("fp-op:{op}"));
        // the directory after the operation: were files of held searchers deleted?
        for (hi, h) in held.iter().enumerate() {
            let again = fingerprint(&h.s, f);
            let files_gone = match &tmp {
                Some(t) => h.s.segment_readers().iter().any(|sr| !t.path().join(format!("{}.store", sr.segment_id().uuid_string())).exists()),
                None => h.s.segment_readers().iter().any(|sr| !gdir.inner.exists(Path::new(&format!("{}.store", sr.segment_id().uuid_string()))).unwrap_or(true)),
            };
            if files_gone {
                ctx.report.count("fp:recheck-after-files-deleted");
            }
            ctx.report.case(&format!("fp|{seed}|{mmap}|{hi}|{step}"), files_gone || step > h.taken_at);
            match again {
                Ok(fp) if fp == h.fp => {}
                Ok(fp) => {
                    let at = fp.bytes().zip(h.fp.bytes()).position(|(a, b)| a != b).unwrap_or(0);
                    ctx.report.violation("oracle", "C05:held-searcher-changed", format!("searcher from {} taken at step {} answers differently after step {step} ({op}); first difference at byte {at}: {:?} vs {:?}", h.from, h.taken_at, &h.fp[at.saturating_sub(20)..(at + 30).min(h.fp.len())], &fp[at.saturating_sub(20)..(at + 30).min(fp.len())]), case.clone());
                }
                Err(e) => ctx.report.violation("oracle", if e == "PANIC" { "C05:panic" } else { "C05:held-searcher-error" }, format!("searcher from {} taken at step {} fails after step {step} ({op}): {e}", h.from, h.taken_at), case.clone()),
            }
        }
        // now and then: reload and hold one more searcher; drop a reader while its searcher is held
        if rng.chance(1, 3) && held.len() < 6 {
            if let Some(rd) = readers[1].as_ref() {
                match catch_unwind(AssertUnwindSafe(|| rd.reload())) {
                    Ok(Ok(())) => take(&mut held, ctx, rd, "second-index-manual", step, Some(&w.committed)),
                    Ok(Err(e)) => ctx.report.violation("model", "C05:reload-failed-quiescent", format!("reload at a quiescent point failed: {e}"), case.clone()),
                    Err(_) => ctx.report.violation("oracle", "C05:panic", "reload panicked".into(), case.clone()),
                }
            }
        }
        if rng.chance(1, 8) {
            let i = rng.usize_below(2);
            if readers[i].take().is_some() {
                ctx.report.count("fp:reader-dropped-searcher-held");
            }
        }
    }
    if ctx.report.samples.len() < 2 {
        ctx.report.sample(json!({"scenario": "fingerprint", "mmap": mmap, "ops": w.ops, "held_searchers": held.len(), "fingerprint_prefix": held.first().map(|h| h.fp.chars().take(160).collect::<String>())}));
    }
}

trait Tap: Sized {
    fn tap(self, f: impl FnOnce(&Self)) -> Self {
        f(&self);
        self
    }
}
impl<T> Tap for T {}

// ------------------------------------------------------------------------------------------
// (a)+(d) concurrent readers and writer, trace checked by the model
// ------------------------------------------------------------------------------------------
fn check_trace(ctx: &mut Ctx, what: &str, gdir: &GDir, gc_livings: &[Vec<String>], observed: &[((u64, u64), Obs)], w: &World, pub_marks: &[(usize, u64, u64)], case: &Value) -> (Trace, Vec<MetaRec>) {
    let log = gdir.log();
    let metas = metas_of(&log);
    let tr = translate(&log, gc_livings, pub_marks);
    let v = ask_trace(ctx, "full", &tr);
    ctx.report.traces_validated_against_impl += 1;
    ctx.report.count_n("trace:events", tr.events.len() as u64);
    ctx.report.count_n("trace:reload-sessions", tr.sessions.len() as u64);
    if !v.ok {
        let idx: usize = v.raw.split(' ').next().and_then(|x| x.strip_prefix("bad:")).and_then(|x| x.parse().ok()).unwrap_or(0);
        let lo = idx.saturating_sub(6);
        if let Ok(p) = std::env::var("C05_DUMP") {
            let _ = std::fs::write(format!("{p}/trace_{}_{idx}.txt", ctx.report.traces_validated_against_impl), tr.events.join("\n"));
        }
        ctx.report.violation("model", "C05:lock-discipline-violated-on-real-trace", format!("{what}: the logged trace leaves the lock discipline at event {idx} ({}); context {:?}", tr.events.get(idx).cloned().unwrap_or_default(), &tr.events[lo..(idx + 3).min(tr.events.len())]), case.clone());
    }
    if v.badopens > 0 {
        ctx.report.violation("oracle", "C05:reload-open-hit-deleted-file", format!("{what}: {} open_read of a reload hit a deleted path ({})", v.badopens, v.raw.chars().take(200).collect::<String>()), case.clone());
    }
    // the commit the model assigns to each publication = the commit the real searcher shows
    let pubs: HashMap<(u64, u64), u64> = v.pubs.iter().cloned().collect();
    for (rk, obs) in observed {
        if !obs.ok {
            continue;
        }
        match pubs.get(rk) {
            Some(j) => {
                let c = candidates(&metas, &obs.sig);
                ctx.report.count("trace:publication-compared");
                if !c.contains(&(*j as usize)) {
                    // watcher publications are matched to sessions by generation id, which is drawn
                    // just after the lock is released: two sessions can swap there
                    let other = rk.0 == 900 && v.loads.iter().any(|((r, _), jj)| *r == 900 && c.contains(&(*jj as usize)));
                    // the searcher is read after reload() has returned: a reload of the same reader
                    // that started later may have published in between
                    let overtaken = v.pubs.iter().any(|((r, k), jj)| *r == rk.0 && *k > rk.1 && c.contains(&(*jj as usize)));
                    if other {
                        ctx.report.count("trace:watcher-generation-order-ambiguous");
                    } else if overtaken {
                        ctx.report.count("trace:observation-overtaken-by-later-reload");
                    } else {
                        ctx.report.violation("model", "C05:model-commit-differs", format!("{what}: reload {rk:?}: model says meta {j}, the searcher's segments are those of metas {c:?}"), case.clone());
                    }
                } else if let (Some(s), Some(d)) = (obs.check.as_ref(), metas.get(*j as usize).and_then(|m| w.by_opstamp.get(&m.opstamp))) {
                    if let Err(e) = matches_docs(s, w.f, d) {
                        ctx.report.violation("oracle", if e == "PANIC" { "C05:panic" } else { "C05:searcher-docs-differ-from-commit" }, format!("{what}: reload {rk:?} (meta {j}): {e}"), case.clone());
                    }
                }
            }
            None => {
                if v.ok {
                    ctx.report.violation("model", "C05:model-commit-differs", format!("{what}: reload {rk:?} returned Ok but the model has no publication for it"), case.clone());
                }
            }
        }
    }
    (tr, metas)
}

/// per reader: the sequence of commits observed must not decrease; attribution by the model's
/// `sequential` predicate on the real trace
fn check_monotone(ctx: &mut Ctx, what: &str, tr: &Trace, metas: &[MetaRec], per_reader: &BTreeMap<u64, Vec<Obs>>, case: &Value) {
    for (rho, seq) in per_reader {
        let mut last: usize = 0;
        let mut regress: Option<(usize, Vec<usize>)> = None;
        for o in seq.iter().filter(|o| o.ok) {
            let c = candidates(metas, &o.sig);
            match c.iter().cloned().find(|j| *j >= last) {
                Some(j) => last = j,
                None => {
                    if !c.is_empty() {
                        regress = Some((last, c));
                        break;
                    }
                }
            }
        }
        let (seqok, mono, raw) = ask_seq(ctx, *rho, tr);
        ctx.report.count(if seqok { "mono:reader-sequential" } else { "mono:reader-overlapping" });
        if let Some((from, to)) = regress {
            if !seqok {
                ctx.report.violation("oracle", "C05:overlapping-reloads-publish-out-of-order", format!("{what}: reader {rho} moved back from meta {from} to meta {to:?}; two of its reloads overlapped in time (model: {raw})"), case.clone());
            } else {
                ctx.report.violation("oracle", "C05:reload-regressed-sequential", format!("{what}: reader {rho} moved back from meta {from} to meta {to:?} although its reloads did not overlap (model: {raw})"), case.clone());
            }
        } else if seqok && !mono {
            ctx.report.violation("model", "C05:model-monotone-differs", format!("{what}: reader {rho}: model publications not monotone on a sequential trace: {raw}"), case.clone());
        }
    }
}

fn scenario_concurrent(ctx: &mut Ctx, seed: u64, reloads: usize, mmap: bool) {
    let mut rng = Rng::new(seed);
    let case = json!({"scenario": "concurrent", "seed": seed, "reloads": reloads, "mmap": mmap});
    let store = Store::new(mmap);
    let gdir = store.g.clone();
    let mut w = World::create(store.dir());
    w.add(&mut rng, 5);
    w.commit();
    let stop = Arc::new(AtomicBool::new(false));
    // reader 1: Manual reader of the writer's own Index, on a second thread;
    // reader 2, 3: Manual readers of separate Index instances ("other processes")
    let nreaders = 2 + rng.usize_below(2);
    let mut handles = vec![];
    for rho in 1..=nreaders as u64 {
        let g = gdir.clone();
        let idx = if rho == 1 { w.index.clone() } else { Index::open(store.dir()).unwrap() };
        let stop = stop.clone();
        let mut trng = rng.fork();
        let h = std::thread::Builder::new().name(format!("c05-rd-{rho}")).spawn(move || {
            let mut out: Vec<Obs> = vec![];
            let reader: IndexReader = match idx.reader_builder().reload_policy(ReloadPolicy::Manual).try_into() {
                Ok(r) => r,
                Err(e) => {
                    out.push(Obs { ok: false, err: format!("{e}"), sig: vec![], check: None });
                    return out;
                }
            };
            g.mark(MARK_PUB);
            let s = reader.searcher();
            out.push(Obs { ok: true, err: String::new(), sig: sig_of(&s), check: Some(s) });
            for _ in 0..reloads {
                if stop.load(Ordering::SeqCst) {
                    break;
                }
                out.push(do_reload(&g, &reader));
                if trng.chance(1, 2) {
                    std::thread::yield_now();
                } else {
                    std::thread::sleep(Duration::from_micros(trng.below(400)));
                }
            }
            out
        }).unwrap();
        handles.push((rho, h));
    }
    let nops = 6 + rng.usize_below(8);
    for _ in 0..nops {
        let op = w.random_op(&mut rng);
        ctx.report.count(&format!("conc-op:{op}"));
    }
    // a GC with a harness-supplied closure: the closure's marker must fall inside the lock section
    let mut gc_livings: Vec<Vec<String>> = vec![];
    {
        w.commit();
        if rng.chance(1, 2) {
            w.drop_writer();
        }
        // like the writer's own GC, the living set is computed inside the closure, i.e. while
        // garbage_collect holds META_LOCK (a set computed earlier could be stale)
        let shared: Arc<Mutex<Vec<Vec<String>>>> = Arc::new(Mutex::new(vec![]));
        let sh = shared.clone();
        let g = gdir.clone();
        let idx_for_list = w.index.clone();
        let mut idx = w.index.clone();
        let res = catch_unwind(AssertUnwindSafe(|| idx.directory_mut().garbage_collect(move || {
            g.mark(MARK_GCLIST);
            let mut living: Vec<String> = vec![META.to_string()];
            for m in idx_for_list.searchable_segment_metas().expect("meta.json readable inside the GC closure") {
                living.extend(m.list_files().into_iter().map(|p| p.to_string_lossy().to_string()));
            }
            sh.lock().unwrap().push(living.clone());
            living.iter().map(PathBuf::from).collect::<std::collections::HashSet<PathBuf>>()
        })));
        gc_livings.extend(shared.lock().unwrap().iter().cloned());
        if !matches!(res, Ok(Ok(_))) {
            ctx.report.violation("oracle", "C05:gc-failed", "ManagedDirectory::garbage_collect failed or panicked".into(), case.clone());
        }
        ctx.report.count("conc:gc-with-closure");
    }
    stop.store(true, Ordering::SeqCst);
    let mut per_reader: BTreeMap<u64, Vec<Obs>> = BTreeMap::new();
    let mut observed: Vec<((u64, u64), Obs)> = vec![];
    for (rho, h) in handles {
        match h.join() {
            Ok(v) => {
                for (k, o) in v.iter().enumerate() {
                    if !o.ok {
                        let key = if o.err == "PANIC" { "C05:panic" } else { "C05:reload-failed" };
                        ctx.report.violation(if o.err == "PANIC" { "oracle" } else { "model" }, key, format!("reader {rho} reload {k}: {}", o.err), case.clone());
                    }
                    observed.push(((rho, k as u64), o.clone()));
                    ctx.report.case(&format!("conc|{seed}|{rho}|{k}|{:?}", o.sig), true);
                }
                per_reader.insert(rho, v);
            }
            Err(_) => ctx.report.violation("oracle", "C05:panic", format!("reader thread {rho} panicked"), case.clone()),
        }
    }
    ctx.report.count(if mmap { "conc:mmap" } else { "conc:ram" });
    let (tr, metas) = check_trace(ctx, "concurrent", &gdir, &gc_livings, &observed, &w, &[], &case);
    check_monotone(ctx, "concurrent", &tr, &metas, &per_reader, &case);
    ctx.report.count_n("conc:metas-written", metas.len() as u64);
    if ctx.report.samples.len() < 4 {
        ctx.report.sample(json!({"scenario": "concurrent", "writer_ops": w.ops, "readers": nreaders, "metas": metas.len(), "trace_prefix": tr.events.iter().take(40).cloned().collect::<Vec<_>>().join(";")}));
    }
}

// ------------------------------------------------------------------------------------------
// (c) forced windows
// ------------------------------------------------------------------------------------------
#[derive(Default)]
struct PauseState {
    armed_at: Option<u64>,
    count: u64,
    paused: bool,
    resume: bool,
    done: bool,
    paused_before: String,
}

struct Pauser {
    st: Mutex<PauseState>,
    cv: Condvar,
}

impl Pauser {
    fn new() -> Arc<Pauser> {
        Arc::new(Pauser { st: Mutex::new(PauseState::default()), cv: Condvar::new() })
    }
    /// called on the reader thread before its n-th storage operation
    fn at_op(&self, desc: &str) {
        let mut g = self.st.lock().unwrap();
        let n = g.count;
        g.count += 1;
        if g.armed_at == Some(n) {
            g.paused = true;
            g.paused_before = desc.to_string();
            self.cv.notify_all();
            let deadline = Instant::now() + Duration::from_secs(30);
            while !g.resume {
                let (ng, to) = self.cv.wait_timeout(g, Duration::from_millis(200)).unwrap();
                g = ng;
                if to.timed_out() && Instant::now() > deadline {
                    break;
                }
            }
        }
    }
}

fn scenario_windows(ctx: &mut Ctx, seed: u64, windows: usize, mmap: bool) {
    let mut rng = Rng::new(seed);
    let store = Store::new(mmap);
    let gdir = store.g.clone();
    let mut w = World::create(store.dir());
    let f = w.f;
    for _ in 0..1 + rng.usize_below(3) {
        { let n_ = 1 + rng.usize_below(8); w.add(&mut rng, n_) };
        if rng.chance(1, 3) {
            w.delete_some(&mut rng, 1);
        }
        w.commit();
    }
    let second = Index::open(store.dir()).unwrap();
    let use_second = rng.chance(2, 3);
    ctx.report.count(if mmap { "window:mmap-world" } else { "window:ram-world" });
    let ridx = if use_second { second.clone() } else { w.index.clone() };
    let reader: IndexReader = match on_thread("c05-rd-1", { let g = gdir.clone(); move || { let r: tantivy::Result<IndexReader> = ridx.reader_builder().reload_policy(ReloadPolicy::Manual).try_into(); g.mark(MARK_PUB); r } }) {
        Ok(Ok(r)) => r,
        _ => {
            ctx.report.violation("oracle", "C05:panic", "creating the reader failed".into(), json!({"scenario": "windows", "seed": seed, "windows": windows, "mmap": mmap}));
            return;
        }
    };
    let mut observed: Vec<((u64, u64), Obs)> = vec![];
    let mut per_reader: BTreeMap<u64, Vec<Obs>> = BTreeMap::new();
    {
        let s = reader.searcher();
        let o = Obs { ok: true, err: String::new(), sig: sig_of(&s), check: Some(s) };
        observed.push(((1, 0), o.clone()));
        per_reader.entry(1).or_default().push(o);
    }
    for wi in 0..windows {
        let case = json!({"scenario": "windows", "seed": seed, "windows": windows, "failing_window": wi, "mmap": mmap});
        let nsegs = w.index.searchable_segment_ids().map(|v| v.len()).unwrap_or(1);
        let nops = 3 + 7 * nsegs as u64;
        let at = match rng.below(10) {
            0 => 0,
            1 => 1,
            2 => 2,
            _ => rng.below(nops + 1),
        };
        let pauser = Pauser::new();
        pauser.st.lock().unwrap().armed_at = Some(at);
        let held_before = reader.searcher();
        let fp_before = fingerprint(&held_before, f);
        let log_at_start = gdir.log_len();
        let jmin = metas_of(&gdir.log()).len().saturating_sub(1);
        {
            let p = pauser.clone();
            let hook: Hook = Arc::new(move |rec: &OpRec| {
                if rec.thread == "c05-rd-1" && rec.path != MARK_PUB {
                    p.at_op(&format!("{} {}", rec.kind.name(), rec.path));
                }
            });
            gdir.set_hook(Some(hook));
        }
        let burst_kind = rng.below(4);
        let mut brng = rng.fork();
        let obs = std::thread::scope(|sc| {
            let g = gdir.clone();
            let rd = reader.clone();
            let p2 = pauser.clone();
            let rh = std::thread::Builder::new().name("c05-rd-1".into()).spawn_scoped(sc, move || {
                let o = do_reload(&g, &rd);
                let mut st = p2.st.lock().unwrap();
                st.done = true;
                p2.cv.notify_all();
                o
            }).unwrap();
            // wait until the reader is paused or has finished
            let paused = {
                let mut g = pauser.st.lock().unwrap();
                let deadline = Instant::now() + Duration::from_secs(20);
                while !g.paused && !g.done && Instant::now() < deadline {
                    g = pauser.cv.wait_timeout(g, Duration::from_millis(50)).unwrap().0;
                }
                g.paused
            };
            if paused {
                let before = pauser.st.lock().unwrap().paused_before.clone();
                ctx.report.count(&format!("window:paused-before:{}", before.split(' ').next().unwrap_or("").to_string() + if before.ends_with(LOCK) { "-lock" } else if before.ends_with(META) { "-meta" } else { "" }));
                let burst_done = Arc::new(AtomicBool::new(false));
                let bd = burst_done.clone();
                let wref = &mut w;
                let bh = std::thread::Builder::new().name("c05-writer-burst".into()).spawn_scoped(sc, move || {
                    // commit + merge + GC while the reader sits in its window
                    { let n_ = 1 + brng.usize_below(5); wref.add(&mut brng, n_) };
                    if burst_kind == 1 {
                        { let n_ = 1 + brng.usize_below(2); wref.delete_some(&mut brng, n_) };
                    }
                    wref.commit();
                    if burst_kind != 3 {
                        wref.merge_all();
                    }
                    wref.gc();
                    if burst_kind == 2 {
                        wref.add(&mut brng, 2);
                        wref.commit();
                        wref.add(&mut brng, 3); // left uncommitted
                    }
                    bd.store(true, Ordering::SeqCst);
                }).unwrap();
                // resume the reader when the burst has finished, or when the writer side is
                // seen waiting for META_LOCK (GC blocked by the paused reader)
                let deadline = Instant::now() + Duration::from_secs(15);
                let mut contended = false;
                let mut waiting_since: Option<Instant> = None;
                while !burst_done.load(Ordering::SeqCst) && Instant::now() < deadline {
                    let log = gdir.log();
                    let tail = &log[log_at_start.min(log.len())..];
                    if tail.iter().any(|r| r.kind == OpKind::OpenWrite && r.path == LOCK && !r.ok && r.thread != "c05-rd-1") {
                        contended = true;
                        break;
                    }
                    // flock (MmapDirectory): an attempt by the writer side that has not been granted for 10 ms
                    let pending = tail.iter().rposition(|r| r.path == MARK_ATTEMPT && r.thread != "c05-rd-1").map(|i| {
                        let t = &tail[i].thread;
                        !tail[i..].iter().any(|r| r.kind == OpKind::OpenWrite && r.path == LOCK && r.ok && &r.thread == t)
                    }).unwrap_or(false);
                    if pending {
                        let since = *waiting_since.get_or_insert_with(Instant::now);
                        if since.elapsed() > Duration::from_millis(10) {
                            contended = true;
                            break;
                        }
                    } else {
                        waiting_since = None;
                    }
                    std::thread::sleep(Duration::from_millis(2));
                }
                ctx.report.count(if contended { "window:gc-waited-for-reader" } else { "window:burst-completed-inside-window" });
                {
                    let mut g = pauser.st.lock().unwrap();
                    g.resume = true;
                    pauser.cv.notify_all();
                }
                let o = rh.join();
                let _ = bh.join();
                o
            } else {
                ctx.report.count("window:not-reached");
                rh.join()
            }
        });
        gdir.set_hook(None);
        let log = gdir.log();
        let metas = metas_of(&log);
        let jmax = metas.len().saturating_sub(1);
        let k = (wi + 1) as u64;
        match obs {
            Err(_) => ctx.report.violation("oracle", "C05:panic", format!("reload thread panicked in window {wi}"), case.clone()),
            Ok(o) => {
                ctx.report.case(&format!("win|{seed}|{wi}|{at}|{:?}", o.sig), true);
                if o.ok {
                    if let Some(j) = judge_obs(ctx, &format!("window {wi} (paused before op {at})"), &o, &metas, &w.by_opstamp, f, jmin, jmax, &case) {
                        ctx.report.count(if j == jmin && jmax > jmin { "window:reload-saw-older-commit" } else { "window:reload-saw-newest-commit" });
                    }
                } else if o.err == "PANIC" {
                    ctx.report.violation("oracle", "C05:panic", format!("reload panicked in window {wi} (paused before op {at})"), case.clone());
                } else {
                    ctx.report.violation("model", "C05:reload-failed-in-window", format!("reload failed in window {wi} (paused before op {at}): {}", o.err), case.clone());
                    // failing cleanly: the previous searcher must still be served, intact
                    if sig_of(&reader.searcher()) != sig_of(&held_before) {
                        ctx.report.violation("oracle", "C05:failed-reload-changed-searcher", format!("after a failed reload the reader serves a different searcher (window {wi})"), case.clone());
                    }
                }
                observed.push(((1, k), o.clone()));
                per_reader.entry(1).or_default().push(o);
            }
        }
        // the searcher held across the window is unchanged
        match (fp_before, fingerprint(&held_before, f)) {
            (Ok(a), Ok(b)) if a == b => {}
            (Ok(_), Ok(_)) => ctx.report.violation("oracle", "C05:held-searcher-changed", format!("searcher held across window {wi} answers differently"), case.clone()),
            (_, Err(e)) | (Err(e), _) => ctx.report.violation("oracle", if e == "PANIC" { "C05:panic" } else { "C05:held-searcher-error" }, format!("searcher held across window {wi}: {e}"), case.clone()),
        }
        // leave no uncommitted work behind for the next window's expectations
        if w.live != w.committed {
            w.commit();
        }
    }
    let case = json!({"scenario": "windows", "seed": seed, "windows": windows, "mmap": mmap});
    let (tr, metas) = check_trace(ctx, "windows", &gdir, &[], &observed, &w, &[], &case);
    check_monotone(ctx, "windows", &tr, &metas, &per_reader, &case);
    if ctx.report.samples.len() < 5 {
        ctx.report.sample(json!({"scenario": "windows", "second_index": use_second, "writer_ops": w.ops, "windows": windows, "metas": metas.len()}));
    }
}

// ------------------------------------------------------------------------------------------
// S5: two overlapping reloads of one reader
// ------------------------------------------------------------------------------------------
/// Reload A of a reader is parked at one point of its execution; meanwhile a commit is made and a
/// second reload B of the same reader is started (on the repaired tree B waits for A: reloads of
/// one reader are serialised; it is given a short time and then A is resumed). After both have
/// returned the reader must serve a commit at least as new as the one that was complete before B
/// started. `pause`: 0 = just after A has released META_LOCK (inside the guard's drop, before
/// `open_segment_readers` returns and the generation id is drawn), 1 = at A's first read of file
/// bytes after the release (`SearcherInner::new`, before the ArcSwap store), 2 = before the n-th
/// directory operation of A (lock creation, meta.json read, every segment file open, lock removal).
fn scenario_overlap(ctx: &mut Ctx, seed: u64, mmap: bool, pause: u64) {
    let mut rng = Rng::new(seed);
    let case = json!({"scenario": "overlap", "seed": seed, "mmap": mmap, "pause": pause});
    let store = Store::new(mmap);
    let gdir = store.g.clone();
    let mut w = World::create(store.dir());
    let f = w.f;
    for _ in 0..1 + rng.usize_below(2) {
        { let n_ = 1 + rng.usize_below(6); w.add(&mut rng, n_) };
        w.commit();
    }
    let second = Index::open(store.dir()).unwrap();
    let ridx = if rng.chance(1, 2) { second } else { w.index.clone() };
    let reader: IndexReader = match on_thread("c05-rd-5-init", { let g = gdir.clone(); move || { let r: tantivy::Result<IndexReader> = ridx.reader_builder().reload_policy(ReloadPolicy::Manual).try_into(); g.mark(MARK_PUB); r } }) {
        Ok(Ok(r)) => r,
        _ => return,
    };
    { let n_ = 1 + rng.usize_below(4); w.add(&mut rng, n_) };
    w.commit(); // commit N
    let nsegs = w.index.searchable_segment_ids().map(|v| v.len()).unwrap_or(1) as u64;
    let released = Arc::new(AtomicBool::new(false));
    let pauser = Pauser::new();
    let at = if pause == 2 { rng.below(3 + 7 * nsegs) } else { 0 };
    pauser.st.lock().unwrap().armed_at = Some(at);
    {
        let rel = released.clone();
        let p = pauser.clone();
        let hook: Hook = Arc::new(move |rec: &OpRec| {
            if rec.thread != "c05-rd-5-a" || rec.path == MARK_PUB {
                return;
            }
            if pause == 2 {
                p.at_op(&format!("{} {}", rec.kind.name(), rec.path));
            } else if rec.kind == OpKind::Delete && rec.path == LOCK {
                rel.store(true, Ordering::SeqCst);
            }
        });
        gdir.set_hook(Some(hook));
        if pause == 0 {
            let p = pauser.clone();
            gdir.set_post_hook(Some(Arc::new(move |rec: &OpRec| {
                if rec.thread == "c05-rd-5-a" && rec.kind == OpKind::Delete && rec.path == LOCK {
                    p.at_op("after delete .tantivy-meta.lock");
                }
            })));
        }
        if pause == 1 {
            let rel = released.clone();
            let p = pauser.clone();
            gdir.set_read_hook(Some(Arc::new(move |path: &str| {
                if rel.load(Ordering::SeqCst) && std::thread::current().name() == Some("c05-rd-5-a") {
                    p.at_op(&format!("read {path}"));
                }
            })));
        }
    }
    let mut per: Vec<Obs> = vec![];
    {
        let s = reader.searcher();
        per.push(Obs { ok: true, err: String::new(), sig: sig_of(&s), check: Some(s) });
    }
    let merge_too = rng.chance(1, 2);
    let mut brng = rng.fork();
    let (oa, ob, b_inside, jreq) = std::thread::scope(|sc| {
        let g = gdir.clone();
        let rd = reader.clone();
        let p2 = pauser.clone();
        let ha = std::thread::Builder::new().name("c05-rd-5-a".into()).spawn_scoped(sc, move || {
            let o = do_reload(&g, &rd);
            let mut st = p2.st.lock().unwrap();
            st.done = true;
            p2.cv.notify_all();
            o
        }).unwrap();
        let paused = {
            let mut g = pauser.st.lock().unwrap();
            let deadline = Instant::now() + Duration::from_secs(20);
            while !g.paused && !g.done && Instant::now() < deadline {
                g = pauser.cv.wait_timeout(g, Duration::from_millis(50)).unwrap().0;
            }
            g.paused
        };
        if paused {
            let before = pauser.st.lock().unwrap().paused_before.clone();
            let what = if pause == 0 { "after-lock-release".to_string() } else if pause == 1 { "store-read-after-release".to_string() } else {
                format!("before-{}{}", before.split(' ').next().unwrap_or(""), if before.ends_with(LOCK) { "-lock" } else if before.ends_with(META) { "-meta" } else { "" })
            };
            ctx.report.count(&format!("overlap:A-paused:{what}"));
        } else {
            ctx.report.count("overlap:A-not-paused");
        }
        // commit N+1 (on its own thread: its GC waits for META_LOCK if A is parked inside it)
        let metas_before = metas_of(&gdir.log()).len();
        let burst_done = Arc::new(AtomicBool::new(false));
        let bd = burst_done.clone();
        let wref = &mut w;
        let hw = std::thread::Builder::new().name("c05-writer-burst".into()).spawn_scoped(sc, move || {
            { let n_ = 1 + brng.usize_below(4); wref.add(&mut brng, n_) };
            wref.commit();
            if merge_too {
                wref.merge_all();
            }
            bd.store(true, Ordering::SeqCst);
        }).unwrap();
        let deadline = Instant::now() + Duration::from_secs(12);
        while metas_of(&gdir.log()).len() <= metas_before && !burst_done.load(Ordering::SeqCst) && Instant::now() < deadline {
            std::thread::sleep(Duration::from_millis(1));
        }
        // the newest commit that is complete before reload B starts
        let jreq = metas_of(&gdir.log()).len().saturating_sub(1);
        let g2 = gdir.clone();
        let rd2 = reader.clone();
        let b_done = Arc::new(AtomicBool::new(false));
        let bd2 = b_done.clone();
        let hb = std::thread::Builder::new().name("c05-rd-5-b".into()).spawn_scoped(sc, move || {
            let o = do_reload(&g2, &rd2);
            bd2.store(true, Ordering::SeqCst);
            o
        }).unwrap();
        // serialised reloads (or A parked inside META_LOCK): B cannot finish before A is resumed
        let deadline = Instant::now() + Duration::from_millis(400);
        while !b_done.load(Ordering::SeqCst) && Instant::now() < deadline {
            std::thread::sleep(Duration::from_millis(1));
        }
        let b_inside = b_done.load(Ordering::SeqCst);
        if paused {
            ctx.report.count(if b_inside { "overlap:B-completed-while-A-in-flight" } else { "overlap:B-blocked-behind-A" });
        }
        {
            let mut g = pauser.st.lock().unwrap();
            g.resume = true;
            pauser.cv.notify_all();
        }
        let ob = hb.join().ok();
        let oa = ha.join().ok();
        let _ = hw.join();
        (oa, ob, b_inside && paused, jreq)
    });
    gdir.set_hook(None);
    gdir.set_post_hook(None);
    gdir.set_read_hook(None);
    let final_searcher = reader.searcher();
    let mut observed: Vec<((u64, u64), Obs)> = vec![((5, 0), per[0].clone())];
    for (name, o) in [("A", &oa), ("B", &ob)] {
        match o {
            Some(o) if o.ok => {}
            Some(o) => ctx.report.violation(if o.err == "PANIC" { "oracle" } else { "model" }, if o.err == "PANIC" { "C05:panic" } else { "C05:reload-failed" }, format!("overlap: reload {name} failed: {}", o.err), case.clone()),
            None => ctx.report.violation("oracle", "C05:panic", format!("overlap: reload thread {name} panicked"), case.clone()),
        }
    }
    // publication order as observed: B returned (and was visible) before A returned, unless B
    // had to wait for A
    let order: [&Option<Obs>; 2] = if b_inside { [&ob, &oa] } else { [&oa, &ob] };
    for o in order {
        if let Some(o) = o {
            per.push(o.clone());
        }
    }
    // sessions are numbered in the order in which they took META_LOCK
    let log = gdir.log();
    let mut k = 1u64;
    for r in log.iter() {
        if r.kind == OpKind::OpenWrite && r.path == LOCK && r.ok {
            if r.thread == "c05-rd-5-a" {
                if let Some(o) = &oa { observed.push(((5, k), o.clone())); }
                k += 1;
            } else if r.thread == "c05-rd-5-b" {
                if let Some(o) = &ob { observed.push(((5, k), o.clone())); }
                k += 1;
            }
        }
    }
    let metas = metas_of(&log);
    ctx.report.case(&format!("overlap|{seed}|{pause}|{at}|{b_inside}|{:?}", sig_of(&final_searcher)), true);
    let (tr, metas2) = check_trace(ctx, "overlap", &gdir, &[], &observed, &w, &[], &case);
    let _ = metas2;
    // oracle: the searcher served after both reloads have returned is at least as new as the
    // commit that was complete before the later reload started
    let fin = Obs { ok: true, err: String::new(), sig: sig_of(&final_searcher), check: Some(final_searcher.clone()) };
    let fin_j = judge_obs(ctx, "overlap: final searcher", &fin, &metas, &w.by_opstamp, f, 0, metas.len().saturating_sub(1), &case);
    let newest_cand = candidates(&metas, &fin.sig).into_iter().max();
    let mut reported = false;
    if let (Some(_), Some(jc)) = (fin_j, newest_cand) {
        if jc < jreq {
            let (seqok, _, raw) = ask_seq(ctx, 5, &tr);
            let key = if seqok { "C05:reload-regressed-sequential" } else { "C05:overlapping-reloads-publish-out-of-order" };
            ctx.report.violation("oracle", key, format!("overlap (A parked {}, op {at}): after both reloads returned the reader serves meta {jc}, but meta {jreq} was complete before the second reload started (model: {raw})", ["after releasing META_LOCK", "at its first read after releasing META_LOCK", "before a directory operation"][pause.min(2) as usize]), case.clone());
            ctx.report.count("overlap:final-meta-is-older");
            reported = true;
        } else {
            ctx.report.count("overlap:final-meta-is-new-enough");
        }
    }
    if !reported {
        let mut per_reader = BTreeMap::new();
        per_reader.insert(5u64, per);
        check_monotone(ctx, "overlap", &tr, &metas, &per_reader, &case);
    }
    // a later, non-overlapping reload must bring the reader to the newest commit
    let again = match on_thread("c05-rd-5-c", { let g = gdir.clone(); let rd = reader.clone(); move || do_reload(&g, &rd) }) {
        Ok(o) => o,
        Err(_) => return,
    };
    let metas = metas_of(&gdir.log());
    if again.ok && !candidates(&metas, &again.sig).contains(&(metas.len() - 1)) {
        ctx.report.violation("oracle", "C05:reload-regressed-sequential", "a reload after both overlapping reloads had returned does not show the newest commit".into(), case.clone());
    }
    if ctx.report.samples.len() < 6 {
        ctx.report.sample(json!({"scenario": "overlap", "pause": pause, "paused_before_op": at, "B_completed_while_A_parked": b_inside, "trace": tr.events.join(";"), "metas": metas.len(), "required_meta": jreq, "final_meta": newest_cand}));
    }
}

// ------------------------------------------------------------------------------------------
// (d) OnCommitWithDelay: the reader is reloaded by watcher threads (RamDirectory: one fresh
// thread per meta.json write), optionally raced by manual reloads
// ------------------------------------------------------------------------------------------
fn scenario_oncommit(ctx: &mut Ctx, seed: u64, free_running: bool) {
    let mut rng = Rng::new(seed);
    let case = json!({"scenario": "oncommit", "seed": seed, "free_running": free_running});
    let gdir = GDir::new();
    let mut w = World::create(Box::new(gdir.clone()));
    w.add(&mut rng, 3);
    w.commit();
    let second = rng.chance(1, 2);
    let ridx = if second { Index::open(gdir.clone()).unwrap() } else { w.index.clone() };
    let reader: IndexReader = match on_thread("c05-rd-900-init", move || { let r: tantivy::Result<IndexReader> = ridx.reader_builder().reload_policy(ReloadPolicy::OnCommitWithDelay).try_into(); r }) {
        Ok(Ok(r)) => r,
        _ => return,
    };
    let stop = Arc::new(AtomicBool::new(false));
    // poller: every distinct publication it sees, with the log length at that moment
    let poll = {
        let rd = reader.clone();
        let g = gdir.clone();
        let stop = stop.clone();
        std::thread::Builder::new().name("c05-poll".into()).spawn(move || {
            let mut out: Vec<(usize, u64, Searcher)> = vec![];
            let mut last: Option<u64> = None;
            loop {
                let s = rd.searcher();
                let pos = g.log_len();
                let gen = s.generation().generation_id();
                if last != Some(gen) {
                    last = Some(gen);
                    out.push((pos, gen, s));
                }
                if stop.load(Ordering::SeqCst) {
                    break;
                }
                std::thread::sleep(Duration::from_micros(100));
            }
            out
        }).unwrap()
    };
    // optional manual reloads racing the watcher threads
    let manual = if free_running && rng.chance(2, 3) {
        let rd = reader.clone();
        let stop = stop.clone();
        Some(std::thread::Builder::new().name("c05-rd-900-m".into()).spawn(move || {
            let mut n = 0u64;
            while !stop.load(Ordering::SeqCst) && n < 40 {
                let _ = catch_unwind(AssertUnwindSafe(|| rd.reload()));
                n += 1;
                std::thread::sleep(Duration::from_micros(700));
            }
            n
        }).unwrap())
    } else {
        None
    };
    let nops = 8 + rng.usize_below(8);
    let mut no_catchup = 0;
    for _ in 0..nops {
        let metas_before = metas_of(&gdir.log()).len();
        let gen_before = reader.searcher().generation().generation_id();
        let op = if free_running {
            w.random_op(&mut rng)
        } else {
            // one meta.json write per operation at most
            match rng.below(6) {
                0..=2 => { let n_ = 1 + rng.usize_below(4); w.add(&mut rng, n_); w.commit(); "add+commit" }
                3 => { w.delete_some(&mut rng, 1); w.commit(); "delete+commit" }
                4 => { w.merge_all(); "merge" }
                _ => { w.add(&mut rng, 2); w.rollback(); "add+rollback" }
            }
        };
        ctx.report.count(&format!("oncommit-op:{op}"));
        if !free_running {
            let m = (metas_of(&gdir.log()).len() - metas_before) as u64;
            let deadline = Instant::now() + Duration::from_secs(5);
            while reader.searcher().generation().generation_id() < gen_before + m && Instant::now() < deadline {
                std::thread::sleep(Duration::from_micros(200));
            }
            if reader.searcher().generation().generation_id() < gen_before + m {
                no_catchup += 1;
            }
            // let the poller see it before the next operation starts
            std::thread::sleep(Duration::from_micros(400));
        }
    }
    // quiesce: wait until the watcher threads have gone silent
    let mut quiet_since = Instant::now();
    let mut last_len = gdir.log_len();
    let deadline = Instant::now() + Duration::from_secs(5);
    while Instant::now() < deadline && quiet_since.elapsed() < Duration::from_millis(150) {
        std::thread::sleep(Duration::from_millis(10));
        let l = gdir.log_len();
        if l != last_len {
            last_len = l;
            quiet_since = Instant::now();
        }
    }
    stop.store(true, Ordering::SeqCst);
    let manual_reloads = manual.map(|h| h.join().unwrap_or(0)).unwrap_or(0);
    ctx.report.count_n("oncommit:manual-reloads-racing", manual_reloads);
    let seen = match poll.join() {
        Ok(v) => v,
        Err(_) => return,
    };
    if no_catchup > 0 {
        ctx.report.count_n("oncommit:no-catchup-within-5s", no_catchup);
        ctx.report.violation("oracle", "C05:oncommit-reader-did-not-follow", format!("OnCommitWithDelay reader did not publish a new searcher within 5 s after {no_catchup} meta.json writes"), case.clone());
    }
    // generation ids are drawn right after open_segment_readers returns: generation g is the
    // g-th reload session of this reader (session 0 = creation)
    let mut marks: Vec<(usize, u64, u64)> = vec![];
    let mut observed: Vec<((u64, u64), Obs)> = vec![];
    let mut per: Vec<Obs> = vec![];
    for (pos, gen, s) in &seen {
        marks.push((*pos, 900, *gen));
        let o = Obs { ok: true, err: String::new(), sig: sig_of(s), check: Some(s.clone()) };
        observed.push(((900, *gen), o.clone()));
        per.push(o);
        ctx.report.case(&format!("oncommit|{seed}|{gen}|{:?}", sig_of(s)), true);
    }
    ctx.report.count_n("oncommit:publications-observed", seen.len() as u64);
    let (tr, metas) = check_trace(ctx, if free_running { "oncommit-free" } else { "oncommit-sequential" }, &gdir, &[], &observed, &w, &marks, &case);
    let mut per_reader = BTreeMap::new();
    per_reader.insert(900u64, per);
    check_monotone(ctx, if free_running { "oncommit-free" } else { "oncommit-sequential" }, &tr, &metas, &per_reader, &case);
    // at rest the reader serves the newest commit (unless an overlap left it behind: S5)
    let fin = reader.searcher();
    if !candidates(&metas, &sig_of(&fin)).contains(&(metas.len() - 1)) {
        let (seqok, _, raw) = ask_seq(ctx, 900, &tr);
        if seqok {
            ctx.report.violation("oracle", "C05:oncommit-final-not-newest", format!("at rest the OnCommitWithDelay reader serves metas {:?}, newest is {} (model: {raw})", candidates(&metas, &sig_of(&fin)), metas.len() - 1), case.clone());
        } else {
            ctx.report.violation("oracle", "C05:overlapping-reloads-publish-out-of-order", format!("at rest the OnCommitWithDelay reader serves metas {:?}, newest is {}; its reloads overlapped (model: {raw})", candidates(&metas, &sig_of(&fin)), metas.len() - 1), case.clone());
        }
    } else {
        ctx.report.count("oncommit:final-is-newest");
    }
}

// ------------------------------------------------------------------------------------------
// warmers, searcher generations, the inventory of live generations (Model/Generations.lean)
// ------------------------------------------------------------------------------------------
/// a well-behaved warmer: one artifact per warmed generation, dropped only when
/// `garbage_collect` does not list the generation; everything it sees goes into one ordered
/// event log shared with the scenario (the model's `gens` events)
struct RecWarmer {
    g: GDir,
    log: Arc<Mutex<Vec<String>>>,
    warmed: Mutex<BTreeSet<u64>>,
    artifacts: Mutex<BTreeSet<u64>>,
    gc_calls: Mutex<Vec<Vec<u64>>>,
}

impl Warmer for RecWarmer {
    fn warm(&self, searcher: &Searcher) -> tantivy::Result<()> {
        let g = searcher.generation().generation_id();
        self.g.mark(MARK_WARM);
        let mut l = self.log.lock().unwrap();
        l.push("t".into());
        l.push(format!("w.{g}"));
        self.warmed.lock().unwrap().insert(g);
        self.artifacts.lock().unwrap().insert(g);
        Ok(())
    }
    fn garbage_collect(&self, live: &[&SearcherGeneration]) {
        let ids: Vec<u64> = live.iter().map(|x| x.generation_id()).collect();
        let mut l = self.log.lock().unwrap();
        l.push(format!("G.{}", if ids.is_empty() { "-".to_string() } else { ids.iter().map(|x| x.to_string()).collect::<Vec<_>>().join(",") }));
        self.artifacts.lock().unwrap().retain(|g| ids.contains(g));
        self.gc_calls.lock().unwrap().push(ids);
    }
}

fn scenario_generations(ctx: &mut Ctx, seed: u64) {
    let mut rng = Rng::new(seed);
    let case = json!({"scenario": "generations", "seed": seed});
    let gdir = GDir::new();
    let mut w = World::create(Box::new(gdir.clone()));
    w.add(&mut rng, 3);
    w.commit();
    let log: Arc<Mutex<Vec<String>>> = Arc::new(Mutex::new(vec![]));
    let rec = Arc::new(RecWarmer { g: gdir.clone(), log: log.clone(), warmed: Mutex::new(BTreeSet::new()), artifacts: Mutex::new(BTreeSet::new()), gc_calls: Mutex::new(vec![]) });
    let dynw: Arc<dyn Warmer> = rec.clone();
    let weak = Arc::downgrade(&dynw);
    let ridx = if rng.chance(1, 2) { Index::open(gdir.clone()).unwrap() } else { w.index.clone() };
    let reader: IndexReader = match on_thread("c05-rd-7", { let g = gdir.clone(); move || { let r: tantivy::Result<IndexReader> = ridx.reader_builder().reload_policy(ReloadPolicy::Manual).warmers(vec![weak]).try_into(); g.mark(MARK_PUB); r } }) {
        Ok(Ok(r)) => r,
        _ => {
            ctx.report.violation("oracle", "C05:index-operation-failed", "creating a reader with a warmer failed".into(), case.clone());
            return;
        }
    };
    let mut held: Vec<Searcher> = vec![];
    let mut observed: Vec<((u64, u64), Obs)> = vec![];
    let mut last_gen: Option<u64> = None;
    let mut k = 0u64;
    let mut publish = |ctx: &mut Ctx, held: &mut Vec<Searcher>, hold: bool, k: u64, observed: &mut Vec<((u64, u64), Obs)>, last_gen: &mut Option<u64>| {
        // the reload (or the creation) has returned: its searcher is in the slot
        let s = reader.searcher();
        let g = s.generation().generation_id();
        log.lock().unwrap().push(format!("s.{g}"));
        if !rec.warmed.lock().unwrap().contains(&g) {
            ctx.report.violation("oracle", "C05:published-searcher-not-warmed", format!("the searcher of generation {g} is served but Warmer::warm was never called on it"), case.clone());
        }
        if let Some(l) = *last_gen {
            if g <= l {
                ctx.report.violation("oracle", "C05:generation-id-not-increasing", format!("sequential reloads drew generation ids {l} then {g}"), case.clone());
            }
        }
        *last_gen = Some(g);
        observed.push(((7, k), Obs { ok: true, err: String::new(), sig: sig_of(&s), check: Some(s.clone()) }));
        if hold {
            log.lock().unwrap().push("k".into());
            held.push(s);
        }
    };
    let first_hold = rng.chance(1, 2);
    publish(ctx, &mut held, first_hold, k, &mut observed, &mut last_gen);
    let rounds = 2 + rng.usize_below(2);
    for round in 0..rounds {
        let steps = 3 + rng.usize_below(5);
        for _ in 0..steps {
            match rng.below(5) {
                0..=2 => {
                    if rng.chance(3, 4) {
                        let op = w.random_op(&mut rng);
                        ctx.report.count(&format!("gens-op:{op}"));
                    }
                    let o = match on_thread("c05-rd-7", { let g = gdir.clone(); let rd = reader.clone(); move || do_reload(&g, &rd) }) {
                        Ok(o) => o,
                        Err(_) => return,
                    };
                    k += 1;
                    if o.ok {
                        let hold = rng.chance(1, 2);
                        publish(ctx, &mut held, hold, k, &mut observed, &mut last_gen);
                    } else {
                        ctx.report.violation("model", "C05:reload-failed", format!("generations: reload failed: {}", o.err), case.clone());
                        return;
                    }
                }
                _ => {
                    if !held.is_empty() {
                        let i = rng.usize_below(held.len());
                        let s = held.swap_remove(i);
                        // the event is logged before the searcher is really dropped
                        log.lock().unwrap().push(format!("d.{}", s.generation().generation_id()));
                        drop(s);
                        ctx.report.count("gens:held-searcher-dropped");
                    }
                }
            }
        }
        // the observed searchers are clones too: they keep their generations alive; release them
        // so that only `held` (and the slot) count, as the model's events say
        for (_, o) in observed.iter_mut() {
            o.check = None;
        }
        // let the background GC thread of the warming state tick (GC_INTERVAL = 1 s)
        std::thread::sleep(Duration::from_millis(1150));
        // every searcher we hold still has its artifact
        let arts = rec.artifacts.lock().unwrap().clone();
        for s in &held {
            let g = s.generation().generation_id();
            ctx.report.case(&format!("gens|{seed}|{round}|{g}"), true);
            if !arts.contains(&g) {
                ctx.report.violation("oracle", "C05:warmer-artifact-of-live-generation-collected", format!("a searcher of generation {g} is still held but Warmer::garbage_collect was called without it: calls {:?}", rec.gc_calls.lock().unwrap()), case.clone());
            }
        }
        let slot_gen = reader.searcher().generation().generation_id();
        if !arts.contains(&slot_gen) {
            ctx.report.violation("oracle", "C05:warmer-artifact-of-live-generation-collected", format!("the served generation {slot_gen} lost its artifact: calls {:?}", rec.gc_calls.lock().unwrap()), case.clone());
        }
    }
    let ncalls = rec.gc_calls.lock().unwrap().len();
    ctx.report.count_n("gens:warmer-gc-calls-observed", ncalls as u64);
    // the model on the same events: every observed list contains every generation it knows live,
    // ids are the model's counter values, and its artifacts = the warmer's
    let events = log.lock().unwrap().clone();
    let line = if events.is_empty() { "-".to_string() } else { events.join(";") };
    let resp = ctx.model.ask(&format!("C05 gens {line}"));
    let arts: Vec<String> = rec.artifacts.lock().unwrap().iter().map(|x| x.to_string()).collect();
    let want = format!("artifacts={}", if arts.is_empty() { "-".to_string() } else { arts.join(",") });
    if !resp.starts_with("ok ") {
        ctx.report.violation("model", "C05:generation-model-differs", format!("generations: the model rejects the observed events ({resp}); events {line}"), case.clone());
    } else {
        let mut got: Vec<u64> = resp.split(' ').find_map(|p| p.strip_prefix("artifacts=")).map(|x| if x == "-" { vec![] } else { x.split(',').filter_map(|y| y.parse().ok()).collect() }).unwrap_or_default();
        got.sort();
        let gots = format!("artifacts={}", if got.is_empty() { "-".to_string() } else { got.iter().map(|x| x.to_string()).collect::<Vec<_>>().join(",") });
        if gots != want {
            ctx.report.violation("model", "C05:generation-model-differs", format!("generations: warmer keeps {want}, model {gots}; events {line}"), case.clone());
        }
        let drawn_model: u64 = resp.split(' ').find_map(|p| p.strip_prefix("drawn=")).and_then(|x| x.parse().ok()).unwrap_or(0);
        if Some(drawn_model) != last_gen.map(|g| g + 1) {
            ctx.report.violation("model", "C05:generation-model-differs", format!("generations: model drew {drawn_model} ids, the last real generation id is {last_gen:?}"), case.clone());
        }
    }
    // storage trace: discipline, and warming before every publication of this reader
    let (tr, _metas) = check_trace(ctx, "generations", &gdir, &[], &observed, &w, &[], &case);
    let evs = if tr.events.is_empty() { "-".to_string() } else { tr.events.join(";") };
    let wr = ctx.model.ask(&format!("C05 warm 7 {evs}"));
    if !wr.starts_with("warmed=1") {
        ctx.report.violation("model", "C05:publication-before-warming-on-real-trace", format!("generations: a publication of the reader is not preceded by its warm event ({wr})"), case.clone());
    }
    ctx.report.count("gens:scenario");
    if ctx.report.samples.len() < 7 {
        ctx.report.sample(json!({"scenario": "generations", "events": line, "model": resp, "warmer_gc_calls": ncalls}));
    }
    drop(dynw);
}

/// a scenario must not take the harness down: an unexpected failure of a writer / index call
/// (an `unwrap` in the scenario) is reported with its message and a replayable case
fn guarded(ctx: &mut Ctx, case: Value, f: impl Fn(&mut Ctx)) {
    // the machine is shared: when the OS refuses to create a thread (EAGAIN) the scenario says
    // nothing about the property; it is retried after a pause and, failing that, recorded as a
    // note (not as a violation)
    for attempt in 0..3 {
        let before = ctx.report.violations.len();
        ENV_TROUBLE.store(false, Ordering::SeqCst);
        let r = catch_unwind(AssertUnwindSafe(|| f(ctx)));
        let msg = match r {
            Ok(()) if ENV_TROUBLE.load(Ordering::SeqCst) => "Failed to spawn (reported by a reload)".to_string(),
            Ok(()) => return,
            Err(e) => e.downcast_ref::<String>().cloned().or_else(|| e.downcast_ref::<&str>().map(|s| s.to_string())).unwrap_or_else(|| "panic".into()),
        };
        if env_failure(&msg) {
            ctx.report.count("env:thread-spawn-refused-by-os");
            // drop what the aborted attempt may have reported half-way
            ctx.report.violations.truncate(before);
            if attempt == 2 {
                ctx.report.notes.push(format!("scenario {} given up after 3 attempts: the OS refused to create threads ({})", case["scenario"], msg.chars().take(120).collect::<String>()));
                return;
            }
            std::thread::sleep(Duration::from_secs(3));
            continue;
        }
        ctx.report.violation("oracle", "C05:index-operation-failed", format!("a writer / reader / index operation of the scenario failed or panicked: {}", msg.chars().take(300).collect::<String>()), case);
        return;
    }
}

pub fn replay(ctx: &mut Ctx, case: &Value) {
    let seed = case["seed"].as_u64().unwrap_or(1);
    match case["scenario"].as_str().unwrap_or("") {
        "fingerprint" => scenario_fingerprint(ctx, seed, case["mmap"].as_bool().unwrap_or(false), case["steps"].as_u64().unwrap_or(10) as usize),
        "concurrent" => scenario_concurrent(ctx, seed, case["reloads"].as_u64().unwrap_or(10) as usize, case["mmap"].as_bool().unwrap_or(false)),
        "windows" => scenario_windows(ctx, seed, case["windows"].as_u64().unwrap_or(8) as usize, case["mmap"].as_bool().unwrap_or(false)),
        "generations" => scenario_generations(ctx, seed),
        "overlap" => scenario_overlap(ctx, seed, case["mmap"].as_bool().unwrap_or(false), case["pause"].as_u64().unwrap_or(0)),
        "oncommit" => scenario_oncommit(ctx, seed, case["free_running"].as_bool().unwrap_or(false)),
        other => ctx.report.notes.push(format!("unknown replay scenario {other}")),
    }
}

pub fn run(ctx: &mut Ctx) {
    ctx.report.rule = "cases = (held searcher, writer operation) fingerprint re-checks, reloads racing a writer, forced reload windows, overlapping reloads; \
        non-trivial = the searcher was re-checked after at least one later writer operation / the reload raced or was paused against a commit+merge+GC burst".into();
    ctx.report.correspondence_obligations = vec![
        "real storage trace satisfies the model's lock discipline (valid full), decided by the Lean model".into(),
        "commit j the model assigns to each publication = commit identified from the real searcher's segments; its documents = the harness's record of that commit".into(),
        "held searcher fingerprint constant under commits, merges, deletes, rollback, GC, writer drop (RamDirectory and MmapDirectory)".into(),
        "forced windows: reload paused before each storage operation while commit+merge+GC run yields exactly one commit".into(),
        "per reader: observed commits non-decreasing whenever the model's `sequential` holds on the real trace".into(),
        "GC closure marker falls inside the META_LOCK section of the real garbage_collect".into(),
        "warmers: Warmer::warm runs on every searcher before it is served (real trace: warm event before publish, decided by the model)".into(),
        "generations: ids = the model's counter; every Warmer::garbage_collect list observed contains every generation the model knows live; a well-behaved warmer's artifacts = the model's".into(),
    ];
    let d = ctx.model.ask("C05 disc");
    if d != "readerLock=1 gcLock=1" {
        ctx.report.notes.push(format!("extractor sees a weaker discipline in the source text: {d}"));
    }
    if let Some(case) = ctx.replay.clone() {
        guarded(ctx, case.clone(), |ctx| replay(ctx, &case));
        return;
    }
    let n_fp = ctx.budget(12, 120);
    for i in 0..n_fp {
        let seed = ctx.rng.next_u64();
        let steps = 10 + (i as usize % 8);
        let mmap = i % 3 == 2;
        guarded(ctx, json!({"scenario": "fingerprint", "seed": seed, "mmap": mmap, "steps": steps}), |ctx| scenario_fingerprint(ctx, seed, mmap, steps));
    }
    let n_conc = ctx.budget(16, 150);
    for i in 0..n_conc {
        let seed = ctx.rng.next_u64();
        let mmap = i % 4 == 3;
        guarded(ctx, json!({"scenario": "concurrent", "seed": seed, "reloads": 25, "mmap": mmap}), |ctx| scenario_concurrent(ctx, seed, 25, mmap));
    }
    let n_win = ctx.budget(16, 120);
    for i in 0..n_win {
        let seed = ctx.rng.next_u64();
        let k = ctx.budget(10, 20) as usize;
        let mmap = i % 4 == 3;
        guarded(ctx, json!({"scenario": "windows", "seed": seed, "windows": k, "mmap": mmap}), |ctx| scenario_windows(ctx, seed, k, mmap));
    }
    let n_oc = ctx.budget(10, 100);
    for i in 0..n_oc {
        let seed = ctx.rng.next_u64();
        let free = i % 2 == 1;
        guarded(ctx, json!({"scenario": "oncommit", "seed": seed, "free_running": free}), |ctx| scenario_oncommit(ctx, seed, free));
    }
    let n_gen = ctx.budget(3, 8);
    for _ in 0..n_gen {
        let seed = ctx.rng.next_u64();
        guarded(ctx, json!({"scenario": "generations", "seed": seed}), |ctx| scenario_generations(ctx, seed));
    }
    let n_ov = ctx.budget(32, 180);
    for i in 0..n_ov {
        let seed = ctx.rng.next_u64();
        let mmap = i % 8 == 7 || i % 8 == 4;
        let pause = [0u64, 1, 2, 2][(i % 4) as usize];
        guarded(ctx, json!({"scenario": "overlap", "seed": seed, "mmap": mmap, "pause": pause}), |ctx| scenario_overlap(ctx, seed, mmap, pause));
    }
}
