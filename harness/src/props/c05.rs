//! C05 — stub: correspondence harness not built yet.
use crate::Ctx;

pub fn run(ctx: &mut Ctx) {
    ctx.report.notes.push("C05: harness not built yet".into());
}
