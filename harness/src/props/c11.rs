//! C11 — an I/O error never corrupts the index nor is silently swallowed.
//!
//! Fault sweep: a workload (script of API calls) is first run without fault on `VDir` to learn its
//! number `n` of storage operations; then for every `k < n` × {once, from k on} the workload is
//! re-run with the k-th operation failing — each run in a CHILD PROCESS (`tvh C11 --replay
//! <case>`) with a wall-clock limit, so that an abort or a hang is observed as such.
//!
//! The child records the `Result` of every API call and judges, on the implementation alone:
//!  (1) a commit that returned Ok is complete (content of the re-opened storage = expected);
//!  (2) the last successful commit stays readable and searchable after every step (side reader
//!      on the raw storage) and at the end (fresh `Index::open`, `validate_checksum` clean);
//!  (3) the injected fault is reported by the call it hit (or a later one), or is confined to a
//!      merge, or is an ignored GC failure (file stays managed), or fails one reload only;
//!  (4) after rollback / drop of the failed writer a new writer opens, adds and commits;
//!  (5) no panic escapes, the process neither aborts nor hangs (parent: exit status, timeout).
//! It also classifies every faulted operation into the storage phase of the call it hit and asks
//! the Lean model (`Model/Faults.lean`) for the result of every call of the script actually
//! executed (recovery calls included); disagreements are correspondence failures.
use crate::dirs::{OpKind, OpRec, VDir};
use crate::Ctx;
use serde_json::{json, Value};
use std::collections::{BTreeMap, BTreeSet, VecDeque};
use std::panic::{catch_unwind, AssertUnwindSafe};
use std::path::{Path, PathBuf};
use std::sync::{mpsc, Arc, Mutex};
use std::time::{Duration, Instant};
use tantivy::collector::DocSetCollector;
use tantivy::directory::RamDirectory;
use tantivy::indexer::{IndexWriterOptions, NoMergePolicy};
use tantivy::query::AllQuery;
use tantivy::schema::{Field, Schema, Value as _, INDEXED, STORED, TEXT};
use tantivy::{Directory, Index, IndexReader, IndexSettings, IndexWriter, ReloadPolicy, Searcher, TantivyDocument, Term};

const WLOCK: &str = ".tantivy-writer.lock";
const MLOCK: &str = ".tantivy-meta.lock";
const CHILD_TIMEOUT: Duration = Duration::from_secs(60);

// ------------------------------------------------------------------------------------------
// workloads
// ------------------------------------------------------------------------------------------

#[derive(Clone, Debug, PartialEq)]
enum Step {
    New,
    Add(u64),
    Del(u64),
    Commit,
    Rollback,
    Merge,
    Gc,
    Reload,
    Drop,
    Wait,
}

impl Step {
    fn to_json(&self) -> Value {
        match self {
            Step::New => json!("new"),
            Step::Add(n) => json!(["add", n]),
            Step::Del(i) => json!(["del", i]),
            Step::Commit => json!("commit"),
            Step::Rollback => json!("rollback"),
            Step::Merge => json!("merge"),
            Step::Gc => json!("gc"),
            Step::Reload => json!("reload"),
            Step::Drop => json!("drop"),
            Step::Wait => json!("wait"),
        }
    }
    fn from_json(v: &Value) -> Option<Step> {
        if let Some(s) = v.as_str() {
            return Some(match s {
                "new" => Step::New,
                "commit" => Step::Commit,
                "rollback" => Step::Rollback,
                "merge" => Step::Merge,
                "gc" => Step::Gc,
                "reload" => Step::Reload,
                "drop" => Step::Drop,
                "wait" => Step::Wait,
                _ => return None,
            });
        }
        let a = v.as_array()?;
        match a.first()?.as_str()? {
            "add" => Some(Step::Add(a.get(1)?.as_u64()?)),
            "del" => Some(Step::Del(a.get(1)?.as_u64()?)),
            _ => None,
        }
    }
}

#[derive(Clone, Debug)]
struct Workload {
    name: String,
    threads: usize,
    /// segment-cut hook: workers close their segment after this many documents (0 = off)
    cut: u32,
    default_merge_policy: bool,
    dedicated_compressor: bool,
    steps: Vec<Step>,
}

impl Workload {
    fn to_json(&self) -> Value {
        json!({"name": self.name, "threads": self.threads, "cut": self.cut, "default_merge_policy": self.default_merge_policy,
               "dedicated_compressor": self.dedicated_compressor, "steps": self.steps.iter().map(|s| s.to_json()).collect::<Vec<_>>()})
    }
    fn from_json(v: &Value) -> Option<Workload> {
        Some(Workload {
            name: v["name"].as_str()?.to_string(),
            threads: v["threads"].as_u64()? as usize,
            cut: v["cut"].as_u64()? as u32,
            default_merge_policy: v["default_merge_policy"].as_bool()?,
            dedicated_compressor: v["dedicated_compressor"].as_bool()?,
            steps: v["steps"].as_array()?.iter().map(Step::from_json).collect::<Option<Vec<_>>>()?,
        })
    }
    /// the Lean model has one worker, explicit merges only and no deletes
    fn model_applies(&self) -> bool {
        self.threads == 1 && !self.default_merge_policy
    }
    fn has_deletes(&self) -> bool {
        self.steps.iter().any(|s| matches!(s, Step::Del(_)))
    }
}

fn wl(name: &str, threads: usize, cut: u32, dmp: bool, comp: bool, steps: Vec<Step>) -> Workload {
    Workload { name: name.into(), threads, cut, default_merge_policy: dmp, dedicated_compressor: comp, steps }
}

fn quick_workloads() -> Vec<Workload> {
    use Step::*;
    vec![
        wl("basic", 1, 0, false, true, vec![New, Add(3), Commit, Add(2), Commit, Reload, Drop]),
        wl("deletes-merge-gc", 1, 0, false, true, vec![New, Add(3), Commit, Add(2), Del(1), Commit, Merge, Gc, Reload, Drop]),
        wl("two-threads-cut", 2, 2, false, true, vec![New, Add(6), Commit, Add(4), Commit, Merge, Reload, Drop]),
        wl("rollback", 1, 0, false, false, vec![New, Add(2), Commit, Add(2), Rollback, Add(1), Commit, Reload, Drop]),
        wl("reopen", 1, 0, false, true, vec![New, Add(2), Commit, Drop, New, Add(2), Del(0), Commit, Gc, Reload, Drop]),
        wl("background-merges", 1, 1, true, true, vec![New, Add(9), Commit, Wait, New, Add(1), Commit, Reload, Drop]),
    ]
}

fn thorough_workloads(rng: &mut crate::rng::Rng) -> Vec<Workload> {
    use Step::*;
    let mut out = quick_workloads();
    out.push(wl("merge-twice", 1, 2, false, false, vec![New, Add(4), Commit, Merge, Add(3), Commit, Merge, Gc, Reload, Drop]));
    out.push(wl("wait", 1, 0, false, true, vec![New, Add(2), Commit, Add(1), Wait, New, Add(1), Commit, Reload, Drop]));
    out.push(wl("two-threads-deletes", 2, 3, false, true, vec![New, Add(7), Del(2), Commit, Del(5), Add(2), Commit, Gc, Reload, Drop]));
    out.push(wl("reload-often", 1, 0, false, true, vec![New, Reload, Add(1), Commit, Reload, Add(1), Commit, Reload, Gc, Reload, Drop]));
    out.push(wl("empty-commits", 1, 0, false, true, vec![New, Commit, Add(1), Commit, Commit, Rollback, Commit, Drop]));
    while out.len() < 40 {
        let threads = if rng.chance(1, 4) { 2 } else { 1 };
        let cut = *rng.pick(&[0u32, 0, 1, 2, 3]);
        let dmp = rng.chance(1, 8);
        let comp = rng.chance(3, 4);
        let mut steps = vec![New];
        let mut have_writer = true;
        let mut added = 0u64;
        for _ in 0..(6 + rng.below(7)) {
            if !have_writer {
                steps.push(New);
                have_writer = true;
                continue;
            }
            let s = match rng.below(20) {
                0..=6 => { let n = 1 + rng.below(4); added += n; Add(n) }
                7..=10 => Commit,
                11 => Rollback,
                12 | 13 => Merge,
                14 => Gc,
                15 | 16 => Reload,
                17 => if added > 0 { Del(rng.below(added)) } else { Commit },
                18 => { have_writer = false; Drop }
                _ => { have_writer = false; Wait }
            };
            steps.push(s);
        }
        if have_writer {
            steps.push(Commit);
            steps.push(Drop);
        }
        let n = out.len();
        out.push(wl(&format!("gen-{n}"), threads, cut, dmp, comp, steps));
    }
    out
}

// ------------------------------------------------------------------------------------------
// child: one faulty run
// ------------------------------------------------------------------------------------------

#[derive(Clone, Debug)]
struct CallRec {
    /// model token without phases (`n`, `a7`, `c`, `r`, `d`, `w`, `m`, `g`, `l`, `x`) or `-` for calls the
    /// model does not have (delete_term)
    tok: String,
    what: String,
    res: String,
    /// first log index of this call
    from: usize,
    /// writer generation the call belongs to
    writer_gen: u64,
    tags: BTreeSet<&'static str>,
    background: bool,
}

struct Child {
    wl: Workload,
    policy_b: bool,
    vdir: VDir,
    ram: RamDirectory,
    index: Index,
    idf: Field,
    body: Field,
    writer: Option<IndexWriter>,
    writer_gen: u64,
    reader: Option<IndexReader>,
    searcher_content: Option<BTreeSet<u64>>,
    next_doc: u64,
    /// content at the last commit that returned Ok
    last_ok: BTreeSet<u64>,
    /// contents of commits attempted (returned Err) since then: "a later complete one"
    attempts: Vec<BTreeSet<u64>>,
    /// operations accepted since the last commit / rollback: (is_add, id)
    pending: Vec<(bool, u64)>,
    /// policy B: adds that returned Ok since the last call of this writer that returned Err
    acked_since_err: Vec<u64>,
    writer_errored: bool,
    /// a rollback of the current writer returned Err (it lost its lock guard)
    rollback_failed: bool,
    /// an `end_merge` of the current writer swapped the registers and then failed to save meta.json:
    /// `Index::searchable_segment_ids` (read from meta.json) names segments the writer no longer has
    registers_ahead: bool,
    /// the current writer generation has already drawn an opstamp (add / delete / commit)
    gen_stamped: bool,
    calls: Vec<CallRec>,
    violations: Vec<Value>,
    counts: BTreeMap<String, u64>,
    gave_up: bool,
}

fn schema() -> (Schema, Field, Field) {
    let mut b = Schema::builder();
    let idf = b.add_u64_field("id", INDEXED | STORED);
    let body = b.add_text_field("body", TEXT | STORED);
    (b.build(), idf, body)
}

/// The machine is shared: under load the operating system refuses threads ("Resource temporarily
/// unavailable", "Failed to spawn …"). Such a run says nothing about the property; the parent
/// discards it (counted in the evidence).
static ENV_FAILURE: std::sync::atomic::AtomicBool = std::sync::atomic::AtomicBool::new(false);

fn note_env(msg: &str) {
    if msg.contains("Resource temporarily unavailable") || msg.contains("WouldBlock") || msg.contains("Failed to spawn") || msg.contains("failed to spawn") {
        ENV_FAILURE.store(true, std::sync::atomic::Ordering::SeqCst);
    }
}

fn short_err(e: &tantivy::TantivyError) -> String {
    let s = format!("{e:?}");
    note_env(&s);
    let head: String = s.chars().take_while(|c| c.is_alphanumeric()).collect();
    format!("err:{head}")
}

fn read_content(searcher: &Searcher, idf: Field) -> Result<BTreeSet<u64>, String> {
    let docs = searcher.search(&AllQuery, &DocSetCollector).map_err(|e| format!("search: {e:?}"))?;
    let mut out = BTreeSet::new();
    for addr in docs {
        let d: TantivyDocument = searcher.doc(addr).map_err(|e| format!("doc: {e:?}"))?;
        let id = d.get_first(idf).and_then(|v| v.as_u64()).ok_or("document without id")?;
        if !out.insert(id) {
            return Err(format!("document {id} twice"));
        }
    }
    Ok(out)
}

fn content_of_storage(dir: impl Into<Box<dyn Directory>>, idf: Field) -> Result<BTreeSet<u64>, String> {
    let index = Index::open(dir).map_err(|e| format!("Index::open: {e:?}"))?;
    let reader = index.reader_builder().reload_policy(ReloadPolicy::Manual).try_into().map_err(|e| format!("reader: {e:?}"))?;
    read_content(&reader.searcher(), idf)
}

impl Child {
    fn violation(&mut self, kind: &str, key: &str, what: String) {
        *self.counts.entry(format!("violation:{key}")).or_insert(0) += 1;
        if self.violations.iter().filter(|v| v["key"] == key).count() < 2 {
            self.violations.push(json!({"kind": kind, "key": key, "what": what}));
        }
    }
    fn count(&mut self, k: &str) {
        *self.counts.entry(k.to_string()).or_insert(0) += 1;
    }
    fn expected_now(&self) -> BTreeSet<u64> {
        let mut s = self.last_ok.clone();
        for (add, id) in &self.pending {
            if *add { s.insert(*id); } else { s.remove(id); }
        }
        s
    }
    fn record(&mut self, tok: String, what: &str, res: String, from: usize) {
        self.calls.push(CallRec { tok, what: what.into(), res, from, writer_gen: self.writer_gen, tags: BTreeSet::new(), background: false });
    }

    /// is the first faulted operation since log index `from` the updater's directory sync that
    /// immediately follows its successful `atomic_write(meta.json)`?
    fn barrier_after_rename_failed(&self, from: usize) -> bool {
        let log = self.vdir.log();
        let w = &log[from.min(log.len())..];
        let Some(i) = w.iter().position(|r| r.faulted) else { return false };
        let r = &w[i];
        r.kind == OpKind::SyncDir && r.thread == "segment_updater"
            && w[..i].iter().rev().find(|x| x.thread == "segment_updater").map(|x| x.kind == OpKind::AtomicWrite && x.path == "meta.json" && x.ok).unwrap_or(false)
    }

    /// did the merge that started at log index `from` fail in `end_merge`'s `save_metas` (the updater's
    /// directory sync / atomic write of meta.json), i.e. after `segment_manager.end_merge` swapped
    /// the registers?
    fn end_merge_save_failed(&self, from: usize) -> bool {
        let log = self.vdir.log();
        let w = &log[from.min(log.len())..];
        let Some(i) = w.iter().position(|r| r.faulted) else { return false };
        let r = &w[i];
        r.thread == "segment_updater"
            && (r.kind == OpKind::SyncDir || r.path == "meta.json")
            && !w[..i].iter().any(|x| x.thread == "segment_updater" && x.kind == OpKind::AtomicWrite && x.path == "meta.json" && x.ok)
    }

    /// a lock file left behind by a failed flush / delete blocks every later acquisition; the
    /// harness records it and removes it by hand (as the documentation tells users to)
    fn clean_stale_locks(&mut self, at: &str) {
        for (path, what) in [(MLOCK, "meta"), (WLOCK, "writer")] {
            if path == WLOCK && self.writer.is_some() {
                continue;
            }
            let p = Path::new(path);
            if !self.ram.exists(p).unwrap_or(false) {
                continue;
            }
            if path == MLOCK {
                // a background merge may hold it right now
                let t0 = Instant::now();
                while self.ram.exists(p).unwrap_or(false) && t0.elapsed() < Duration::from_millis(300) {
                    std::thread::sleep(Duration::from_millis(5));
                }
                if !self.ram.exists(p).unwrap_or(false) {
                    continue;
                }
            }
            let log = self.vdir.log();
            let cause = log.iter().rev().find(|r| r.path == path && r.faulted).map(|r| r.kind);
            let key = match cause {
                Some(OpKind::Delete) => format!("C11:stale-{what}-lock-after-delete-error"),
                Some(OpKind::Flush) | Some(OpKind::Write) | Some(OpKind::Terminate) => format!("C11:stale-{what}-lock-after-flush-error"),
                _ => format!("C11:stale-{what}-lock"),
            };
            self.violation("oracle", &key, format!("{path} is left on storage and nobody holds it ({at}); every later acquisition fails or stalls; cause: {cause:?}"));
            let _ = self.ram.delete(p);
            if path == WLOCK {
                let from = self.vdir.log_len();
                self.record("x".into(), "operator removes the orphaned writer lock", "ok".into(), from);
            }
        }
    }

    /// (2) the committed state is readable and searchable from the raw storage right now
    fn check_storage(&mut self, at: &str) {
        self.clean_stale_locks(at);
        match content_of_storage(self.ram.clone(), self.idf) {
            Ok(c) => {
                if c != self.last_ok && self.attempts.iter().any(|a| *a == c) {
                    // a complete attempted commit (its commit() returned Err before meta.json was
                    // written) has been published after all — `end_merge` saves the committed
                    // register: from now on this is the state of the index
                    self.count("attempted-commit-published-later");
                    self.last_ok = c.clone();
                    self.attempts.clear();
                }
                let ok = if self.policy_b && self.writer_errored {
                    true // after an unrecovered error only the commit-time rule applies (policy B)
                } else {
                    c == self.last_ok || self.attempts.iter().any(|a| *a == c)
                };
                if !ok {
                    self.violation("oracle", "C11:committed-content-changed",
                        format!("{at}: storage holds {:?}, last successful commit {:?}, later attempts {:?}", c, self.last_ok, self.attempts));
                }
            }
            Err(e) => self.violation("oracle", "C11:last-commit-unreadable", format!("{at}: the committed index cannot be opened and read: {e}")),
        }
        let _ = self.ram.delete(Path::new(MLOCK)); // the side reader's own lock never stays, but be safe
    }

    fn new_writer(&mut self) -> bool {
        let from = self.vdir.log_len();
        let opts = IndexWriterOptions::builder().num_worker_threads(self.wl.threads).memory_budget_per_thread(15_000_000).num_merge_threads(2).build();
        let r = catch_unwind(AssertUnwindSafe(|| self.index.writer_with_options::<TantivyDocument>(opts)));
        self.writer_gen += 1;
        match r {
            Ok(Ok(w)) => {
                if !self.wl.default_merge_policy {
                    w.set_merge_policy(Box::new(NoMergePolicy));
                }
                self.writer = Some(w);
                self.rollback_failed = false;
                self.registers_ahead = false;
                self.gen_stamped = false;
                self.pending.clear();
                self.acked_since_err.clear();
                self.writer_errored = false;
                self.record("n".into(), "new", "ok".into(), from);
                true
            }
            Ok(Err(e)) => {
                self.record("n".into(), "new", short_err(&e), from);
                false
            }
            Err(_) => {
                self.record("n".into(), "new", "panic".into(), from);
                self.violation("oracle", "C11:panic-in-new-writer", "Index::writer panicked".into());
                false
            }
        }
    }

    fn drop_writer(&mut self, record: bool) {
        if let Some(w) = self.writer.take() {
            let from = self.vdir.log_len();
            let r = catch_unwind(AssertUnwindSafe(move || drop(w)));
            if r.is_err() {
                self.violation("oracle", "C11:panic-in-drop", "dropping the IndexWriter panicked".into());
            }
            if record {
                self.record("d".into(), "drop", if r.is_ok() { "ok".into() } else { "panic".into() }, from);
            }
            self.pending.clear();
        }
    }

    /// policy A after a writer call failed: rollback (retry once), else drop and reopen
    fn recover(&mut self) {
        self.count("recoveries");
        for attempt in 0..2 {
            let Some(w) = self.writer.as_mut() else { break };
            let from = self.vdir.log_len();
            let r = catch_unwind(AssertUnwindSafe(|| w.rollback()));
            match r {
                Ok(Ok(_)) => {
                    self.record("r".into(), "rollback(recovery)", "ok".into(), from);
                    self.registers_ahead = false;
                    self.gen_stamped = false;
                    self.pending.clear();
                    self.acked_since_err.clear();
                    self.writer_errored = false;
                    self.writer_gen += 1;
                    return;
                }
                Ok(Err(e)) => {
                    self.record("r".into(), "rollback(recovery)", short_err(&e), from);
                    self.rollback_failed = true;
                }
                Err(_) => {
                    self.record("r".into(), "rollback(recovery)", "panic".into(), from);
                    let _ = attempt;
                    if self.rollback_failed {
                        self.violation("oracle", "C11:rollback-after-failed-rollback-panics",
                            "rollback() retried after a rollback that failed with an I/O error panics (`_directory_lock` was already taken)".into());
                    } else {
                        self.violation("oracle", "C11:panic-in-rollback", "rollback() panicked".into());
                    }
                }
            }
        }
        self.drop_writer(true);
        self.clean_stale_locks("after dropping the failed writer");
        if !self.new_writer() {
            self.clean_stale_locks("after a failed Index::writer");
            if !self.new_writer() {
                self.gave_up = true;
            }
        }
    }

    fn after_writer_error(&mut self) {
        self.writer_errored = true;
        self.acked_since_err.clear();
        if !self.policy_b {
            self.recover();
        }
    }

    fn step(&mut self, s: &Step) {
        if self.gave_up {
            return;
        }
        match s {
            Step::New => {
                if self.writer.is_some() {
                    return;
                }
                if !self.new_writer() {
                    self.clean_stale_locks("after a failed Index::writer");
                    if !self.new_writer() {
                        self.gave_up = true;
                    }
                }
            }
            Step::Add(n) => {
                for _ in 0..*n {
                    if self.gave_up {
                        return;
                    }
                    if self.writer.is_none() && !self.new_writer() {
                        self.gave_up = true;
                        return;
                    }
                    let id = self.next_doc;
                    self.next_doc += 1;
                    let mut d = TantivyDocument::default();
                    d.add_u64(self.idf, id);
                    d.add_text(self.body, format!("document number {id} lorem ipsum"));
                    let from = self.vdir.log_len();
                    self.gen_stamped = true;
                    let w = self.writer.as_mut().unwrap();
                    let r = catch_unwind(AssertUnwindSafe(|| w.add_document(d)));
                    match r {
                        Ok(Ok(_)) => {
                            self.pending.push((true, id));
                            self.acked_since_err.push(id);
                            self.record(format!("a{id}"), "add", "ok".into(), from);
                        }
                        Ok(Err(e)) => {
                            self.record(format!("a{id}"), "add", short_err(&e), from);
                            self.after_writer_error();
                        }
                        Err(_) => {
                            self.record(format!("a{id}"), "add", "panic".into(), from);
                            self.violation("oracle", "C11:panic-in-add", "add_document panicked".into());
                            self.after_writer_error();
                        }
                    }
                }
            }
            Step::Del(id) => {
                if self.writer.is_some() && !self.gen_stamped {
                    // The first operation of a writer that was just opened or rolled back draws the
                    // opstamp of the last commit itself, so a merge (target = committed opstamp)
                    // applies and publishes this delete without any commit, and leaves a .del file
                    // that makes a retried merge fail. That is a defect of the unchanged tree with
                    // no I/O fault involved, recorded under C02 (C02:reopen-first-delete-published-
                    // by-merge); the fault sweep does not issue such a delete.
                    self.count("delete:skipped-first-operation-of-writer-generation");
                    return;
                }
                self.gen_stamped = true;
                let Some(w) = self.writer.as_mut() else { return };
                let from = self.vdir.log_len();
                let term = Term::from_field_u64(self.idf, *id);
                let r = catch_unwind(AssertUnwindSafe(|| w.delete_term(term)));
                if r.is_err() {
                    self.violation("oracle", "C11:panic-in-delete", "delete_term panicked".into());
                }
                self.pending.push((false, *id));
                self.record("-".into(), "delete", "ok".into(), from);
            }
            Step::Commit => {
                if self.writer.is_some() {
                    self.gen_stamped = true;
                }
                let Some(w) = self.writer.as_mut() else { return };
                let from = self.vdir.log_len();
                let r = catch_unwind(AssertUnwindSafe(|| w.commit()));
                let expected = self.expected_now();
                match r {
                    Ok(Ok(_)) => {
                        self.record("c".into(), "commit", "ok".into(), from);
                        self.registers_ahead = false;
                        // (1) complete: the storage now holds exactly the expected documents
                        self.clean_stale_locks("after commit");
                        match content_of_storage(self.ram.clone(), self.idf) {
                            Ok(c) => {
                                if self.writer_errored && self.policy_b {
                                    let missing: Vec<u64> = self.acked_since_err.iter().filter(|d| !c.contains(d)).cloned().collect();
                                    if !missing.is_empty() {
                                        self.violation("oracle", "C11:commit-ok-after-failed-commit-loses-documents",
                                            format!("commit returned Ok on a writer whose earlier call failed (no rollback): documents {missing:?}, whose add_document returned Ok after that failure, are not in the index"));
                                    }
                                    self.last_ok = c;
                                } else {
                                    if c != expected {
                                        self.violation("oracle", "C11:commit-ok-incomplete", format!("commit returned Ok; storage holds {c:?}, expected {expected:?}"));
                                    }
                                    self.last_ok = expected;
                                }
                            }
                            Err(e) => {
                                self.violation("oracle", "C11:commit-ok-unreadable", format!("commit returned Ok but the index cannot be read: {e}"));
                                self.last_ok = expected;
                            }
                        }
                        self.attempts.clear();
                        self.pending.clear();
                        self.acked_since_err.clear();
                    }
                    Ok(Err(e)) => {
                        self.record("c".into(), "commit", short_err(&e), from);
                        if self.barrier_after_rename_failed(from) {
                            // meta.json was already replaced when the directory sync that follows the rename
                            // failed: the attempted commit may be visible (and nothing else may be)
                            self.clean_stale_locks("after commit");
                            match content_of_storage(self.ram.clone(), self.idf) {
                                Ok(c) if c == expected => {
                                    if c != self.last_ok {
                                        self.violation("oracle", "C11:commit-err-after-meta-rename-visible",
                                            format!("commit returned Err because the directory sync after the rename of meta.json failed; the attempted commit {c:?} is nevertheless what the storage denotes (visible, durability unknown); last successful commit {:?}", self.last_ok));
                                    }
                                    self.last_ok = expected;
                                    self.attempts.clear();
                                    self.pending.clear();
                                }
                                Ok(c) if c == self.last_ok => self.attempts.push(expected),
                                Ok(c) => {
                                    self.violation("oracle", "C11:committed-content-changed", format!("after a commit that failed in the directory sync following the meta.json rename the storage holds {c:?}: neither the last successful commit {:?} nor the attempted one {expected:?}", self.last_ok));
                                    self.attempts.push(expected);
                                }
                                Err(e) => {
                                    self.violation("oracle", "C11:last-commit-unreadable", format!("after a commit that failed in the directory sync following the meta.json rename: {e}"));
                                    self.attempts.push(expected);
                                }
                            }
                        } else {
                            self.attempts.push(expected);
                        }
                        self.after_writer_error();
                    }
                    Err(_) => {
                        self.record("c".into(), "commit", "panic".into(), from);
                        self.violation("oracle", "C11:panic-in-commit", "commit panicked".into());
                        self.attempts.push(expected);
                        self.after_writer_error();
                    }
                }
            }
            Step::Rollback => {
                if self.writer.is_none() {
                    return;
                }
                let from = self.vdir.log_len();
                let w = self.writer.as_mut().unwrap();
                let r = catch_unwind(AssertUnwindSafe(|| w.rollback()));
                match r {
                    Ok(Ok(_)) => {
                        self.record("r".into(), "rollback", "ok".into(), from);
                        self.registers_ahead = false;
                        self.gen_stamped = false;
                        self.pending.clear();
                        self.acked_since_err.clear();
                        self.writer_errored = false;
                        self.writer_gen += 1;
                    }
                    Ok(Err(e)) => {
                        self.record("r".into(), "rollback", short_err(&e), from);
                        self.writer_errored = true;
                        self.rollback_failed = true;
                        if !self.policy_b {
                            self.recover();
                        }
                    }
                    Err(_) => {
                        self.record("r".into(), "rollback", "panic".into(), from);
                        if self.rollback_failed {
                            self.violation("oracle", "C11:rollback-after-failed-rollback-panics", "rollback() after a rollback that failed with an I/O error panics".into());
                        } else {
                            self.violation("oracle", "C11:panic-in-rollback", "rollback() panicked".into());
                        }
                        self.drop_writer(true);
                        self.clean_stale_locks("after dropping the failed writer");
                        if !self.new_writer() {
                            self.gave_up = true;
                        }
                    }
                }
            }
            Step::Merge => {
                if self.writer.is_none() {
                    return;
                }
                if self.registers_ahead {
                    // the only public source of segment ids is stale; a merge of those ids is refused
                    // with InvalidArgument by design — the harness has nothing valid to ask for
                    self.count("merge:skipped-registers-ahead-of-meta");
                    return;
                }
                let from0 = self.vdir.log_len();
                let ids = match catch_unwind(AssertUnwindSafe(|| self.index.searchable_segment_ids())) {
                    Ok(Ok(ids)) => {
                        self.record("-".into(), "searchable_segment_ids", "ok".into(), from0);
                        ids
                    }
                    _ => {
                        // unreadable meta.json right now: the harness has nothing to merge
                        self.record("-".into(), "searchable_segment_ids", "err".into(), from0);
                        return;
                    }
                };
                if ids.is_empty() {
                    return;
                }
                let from = self.vdir.log_len();
                let w = self.writer.as_mut().unwrap();
                let r = catch_unwind(AssertUnwindSafe(|| w.merge(&ids).wait()));
                match r {
                    Ok(Ok(_)) => {
                        self.record("m".into(), "merge", "ok".into(), from);
                        self.registers_ahead = false;
                    }
                    Ok(Err(e)) => {
                        self.record("m".into(), "merge", short_err(&e), from); // confined to the merge
                        if self.end_merge_save_failed(from) {
                            self.registers_ahead = true;
                        }
                    }
                    Err(_) => {
                        self.record("m".into(), "merge", "panic".into(), from);
                        self.violation("oracle", "C11:panic-in-merge", "merge(..).wait() panicked".into());
                    }
                }
            }
            Step::Gc => {
                let Some(w) = self.writer.as_mut() else { return };
                let from = self.vdir.log_len();
                let r = catch_unwind(AssertUnwindSafe(|| w.garbage_collect_files().wait()));
                match r {
                    Ok(Ok(res)) => {
                        // files that could not be deleted stay managed (and on storage)
                        let managed = self.index.directory().list_managed_files();
                        for f in &res.failed_to_delete_files {
                            if !managed.contains(f) || !self.ram.exists(f).unwrap_or(false) {
                                self.violation("oracle", "C11:gc-failed-delete-forgotten", format!("{f:?} could not be deleted but is no longer managed / present"));
                            }
                        }
                        self.record("g".into(), "gc", "ok".into(), from)
                    }
                    Ok(Err(e)) => self.record("g".into(), "gc", short_err(&e), from),
                    Err(_) => {
                        self.record("g".into(), "gc", "panic".into(), from);
                        self.violation("oracle", "C11:panic-in-gc", "garbage_collect_files().wait() panicked".into());
                    }
                }
            }
            Step::Reload => {
                let from = self.vdir.log_len();
                let r = catch_unwind(AssertUnwindSafe(|| -> tantivy::Result<()> {
                    match &self.reader {
                        Some(r) => r.reload(),
                        None => {
                            let r: IndexReader = self.index.reader_builder().reload_policy(ReloadPolicy::Manual).try_into()?;
                            self.reader = Some(r);
                            Ok(())
                        }
                    }
                }));
                match r {
                    Ok(Ok(())) => {
                        self.record("l".into(), "reload", "ok".into(), from);
                        let c = read_content(&self.reader.as_ref().unwrap().searcher(), self.idf);
                        match c {
                            Ok(c) => {
                                let fine = (self.policy_b && self.writer_errored) || c == self.last_ok || self.attempts.iter().any(|a| *a == c);
                                if !fine {
                                    self.violation("oracle", "C11:reader-sees-uncommitted-content", format!("after reload the searcher holds {c:?}; last successful commit {:?}", self.last_ok));
                                }
                                self.searcher_content = Some(c);
                            }
                            Err(e) => self.violation("oracle", "C11:searcher-unreadable", format!("searcher after a successful reload: {e}")),
                        }
                    }
                    Ok(Err(e)) => {
                        self.record("l".into(), "reload", short_err(&e), from);
                        // the old searcher is unaffected
                        if let (Some(r), Some(old)) = (&self.reader, &self.searcher_content) {
                            match read_content(&r.searcher(), self.idf) {
                                Ok(c) if c == *old => {}
                                other => {
                                    let old = old.clone();
                                    self.violation("oracle", "C11:failed-reload-disturbs-searcher", format!("after a failed reload the searcher holds {other:?}, before {old:?}"))
                                }
                            }
                        }
                    }
                    Err(_) => {
                        self.record("l".into(), "reload", "panic".into(), from);
                        self.violation("oracle", "C11:panic-in-reload", "reader creation / reload panicked".into());
                    }
                }
            }
            Step::Drop => self.drop_writer(true),
            Step::Wait => {
                let Some(w) = self.writer.take() else { return };
                let from = self.vdir.log_len();
                let r = catch_unwind(AssertUnwindSafe(move || w.wait_merging_threads()));
                self.pending.clear();
                match r {
                    Ok(Ok(())) => self.record("w".into(), "wait_merging_threads", "ok".into(), from),
                    Ok(Err(e)) => self.record("w".into(), "wait_merging_threads", short_err(&e), from),
                    Err(_) => {
                        self.record("w".into(), "wait_merging_threads", "panic".into(), from);
                        self.violation("oracle", "C11:panic-in-wait", "wait_merging_threads panicked".into());
                    }
                }
            }
        }
    }

    /// attribute every faulted operation to the call during which it was issued and to a phase
    fn classify(&mut self, log: &[OpRec]) {
        // who created each file (the thread that opened it for writing)
        let mut creator: BTreeMap<&str, &str> = BTreeMap::new();
        for r in log {
            if r.kind == OpKind::OpenWrite {
                creator.entry(r.path.as_str()).or_insert(r.thread.as_str());
            }
        }
        let starts: Vec<usize> = self.calls.iter().map(|c| c.from).collect();
        // log index at which each file was created (first open_write)
        let mut created_at: BTreeMap<&str, usize> = BTreeMap::new();
        for (i, r) in log.iter().enumerate() {
            if r.kind == OpKind::OpenWrite {
                created_at.entry(r.path.as_str()).or_insert(i);
            }
        }
        for (i, r) in log.iter().enumerate() {
            if !r.faulted {
                continue;
            }
            let ci = match starts.iter().rposition(|s| *s <= i) {
                Some(ci) => ci,
                None => continue,
            };
            let call_tok = self.calls[ci].tok.clone();
            let c0 = call_tok.chars().next().unwrap_or('-');
            let from = starts[ci];
            // did this call's updater already write meta.json successfully before operation i?
            let meta_written = log[from..i].iter().any(|x| x.kind == OpKind::AtomicWrite && x.path == "meta.json" && x.ok && x.thread == "segment_updater");
            let created_by = creator.get(r.path.as_str()).cloned().unwrap_or("");
            // the updater's previous operation in this call was the (successful) rename of meta.json
            let right_after_rename = r.kind == OpKind::SyncDir && r.thread == "segment_updater"
                && log[from..i].iter().rev().find(|x| x.thread == "segment_updater").map(|x| x.kind == OpKind::AtomicWrite && x.path == "meta.json" && x.ok).unwrap_or(false);
            let th = r.thread.as_str();
            let (tag, bg): (&'static str, bool) = if r.path == WLOCK {
                match r.kind {
                    OpKind::OpenWrite => ("lo", false),
                    OpKind::Delete => ("ld", false),
                    _ => ("lf", false),
                }
            } else if r.path == MLOCK && r.kind == OpKind::Delete {
                ("gx", false)
            } else if r.path == MLOCK {
                if c0 == 'l' { ("rl", false) } else if th == "segment_updater" && (c0 == 'g' || c0 == 'c' || c0 == 'm') {
                    ("gl", false)
                } else { ("bg", true) }
            } else if th.starts_with("merge_thread") || (th == "docstore-compressor-thread" && created_by.starts_with("merge_thread")) {
                if c0 == 'm' { ("mt", false) } else { ("bg", true) }
            } else if th.starts_with("thrd-tantivy-index") || th == "docstore-compressor-thread" {
                // A segment file that was created under an earlier writer generation (before the last
                // rollback / drop) belongs to discarded work: its worker was detached from the
                // pipeline, and the doc-store compressor thread of a dropped SegmentWriter finishes
                // its file on its own, possibly during a later call. Nobody can (or needs to) report
                // a failure there.
                let creation_gen = created_at.get(r.path.as_str()).and_then(|ix| starts.iter().rposition(|s| *s <= *ix)).map(|cj| self.calls[cj].writer_gen);
                if creation_gen.is_some() && creation_gen != Some(self.calls[ci].writer_gen) {
                    ("bg", true)
                } else {
                    ("wk", false)
                }
            } else if th == "segment_updater" {
                match c0 {
                    'c' => {
                        if !meta_written {
                            if r.kind == OpKind::SyncDir || r.path == "meta.json" || r.path == ".managed.json" && r.kind == OpKind::AtomicWrite && log[from..i].iter().any(|x| x.kind == OpKind::SyncDir && x.thread == "segment_updater") { ("sm", false) } else { ("pu", false) }
                        } else if right_after_rename {
                            ("s2", false)
                        } else {
                            match r.kind { OpKind::Delete => ("gd", false), _ => ("gm", false) }
                        }
                    }
                    'm' => {
                        if !meta_written {
                            if r.kind == OpKind::SyncDir || r.path == "meta.json" { ("es", false) } else { ("ep", false) }
                        } else if right_after_rename {
                            ("e2", false)
                        } else {
                            match r.kind { OpKind::Delete => ("gd", false), _ => ("gm", false) }
                        }
                    }
                    'g' => match r.kind { OpKind::Delete => ("gd", false), _ => ("gm", false) },
                    _ => ("bg", true),
                }
            } else {
                // the thread that runs the script
                match c0 {
                    'n' | 'r' => ("cr", false),
                    'l' => ("rl", false),
                    _ => ("xx", false),
                }
            };
            self.calls[ci].tags.insert(tag);
            if bg {
                self.calls[ci].background = true;
            }
        }
    }

    /// (3) implementation-only rules: a call whose own storage phases hit the fault must not return Ok
    fn oracle_reported(&mut self) {
        let calls = self.calls.clone();
        let mut worker_failed_gen: Option<u64> = None;
        // a failed merge must stay confined: the same writer's later calls, when they hit no
        // fault themselves, still succeed
        let mut merge_failed_gen: Option<u64> = None;
        let mut other_failure_gen: Option<u64> = None;
        for c in &calls {
            {
                let c0 = c.tok.chars().next().unwrap_or('-');
                let own_fault = c.tags.iter().any(|t| *t != "bg" && *t != "gx");
                if c.res != "ok" && !own_fault && matches!(c0, 'a' | 'c' | 'g' | 'm')
                    && merge_failed_gen == Some(c.writer_gen) && other_failure_gen != Some(c.writer_gen) && worker_failed_gen != Some(c.writer_gen)
                {
                    self.violation("oracle", "C11:merge-error-not-confined", format!("after a merge of this writer failed, `{}` returned {} although none of its own storage operations failed", c.what, c.res));
                }
                if c.res != "ok" {
                    if c0 == 'm' { merge_failed_gen = Some(c.writer_gen); } else if matches!(c0, 'a' | 'c' | 'r') { other_failure_gen = Some(c.writer_gen); }
                }
                if c.tags.contains("wk") {
                    other_failure_gen = Some(c.writer_gen);
                }
            }
            let c0 = c.tok.chars().next().unwrap_or('-');
            let ok = c.res == "ok";
            let has = |t: &str| c.tags.contains(t);
            if has("xx") && c.tok != "-" {
                self.violation("model", "C11:unclassified-fault", format!("a faulted operation during `{}` could not be attributed to a phase", c.what));
            }
            if has("wk") && c0 != 'c' {
                // the worker runs on while the script is in another call (add, delete, merge, gc, reload)
                worker_failed_gen = Some(c.writer_gen);
            }
            match c0 {
                'n' if ok && (has("lo") || has("lf") || has("cr")) => self.violation("oracle", "C11:error-swallowed-in-new-writer", format!("Index::writer returned Ok although {:?} failed", c.tags)),
                'c' => {
                    let updater_attributable = !self.wl.default_merge_policy;
                    if ok && (has("wk") || (updater_attributable && (has("pu") || has("sm") || has("s2")))) {
                        self.violation("oracle", "C11:error-swallowed-in-commit", format!("commit returned Ok although one of its storage operations failed (phases {:?})", c.tags));
                    }
                    if ok && worker_failed_gen == Some(c.writer_gen) {
                        self.violation("oracle", "C11:worker-error-swallowed", "an indexing worker hit the fault during an earlier add_document and the next commit of that writer returned Ok".into());
                    }
                    worker_failed_gen = None;
                }
                'a' | '-' => {}
                'r' => {
                    if ok && has("cr") {
                        self.violation("oracle", "C11:error-swallowed-in-rollback", "rollback returned Ok although reading the index failed".into());
                    }
                    if ok { worker_failed_gen = None; }
                }
                'd' | 'w' => {
                    worker_failed_gen = None;
                }
                'm' if ok && (has("mt") || has("ep") || has("es") || has("e2")) => self.violation("oracle", "C11:error-swallowed-in-merge", format!("merge returned Ok although {:?} failed", c.tags)),
                'l' if ok && has("rl") => self.violation("oracle", "C11:error-swallowed-in-reload", "reload returned Ok although one of its reads failed".into()),
                'g' if ok && (has("gl") || has("gm")) => self.violation("oracle", "C11:error-swallowed-in-gc", format!("garbage_collect_files returned Ok although {:?} failed", c.tags)),
                _ => {}
            }
        }
    }

    fn compare_with_model(&mut self, ctx: &mut Ctx) {
        // with the segment-cut hook a worker hands over several segments per transaction: the model
        // closes a segment every `cut` documents too (`Fixes.cutDocs`)
        if !self.wl.model_applies() || self.calls.iter().any(|c| c.background) {
            self.count("model:skipped");
            return;
        }
        // A worker that fails while the script is in a call that has no worker phase in the model
        // (delete_term, merge, gc, reload, the harness' own reads) is, for the model, the failure of
        // the worker that indexes the documents of the preceding add_document of that writer; if
        // there is none, of the next add / commit.
        for i in 0..self.calls.len() {
            let c0 = self.calls[i].tok.chars().next().unwrap_or('-');
            if matches!(c0, 'a' | 'c') || !self.calls[i].tags.contains("wk") {
                continue;
            }
            let gen = self.calls[i].writer_gen;
            let back = (0..i).rev().take_while(|j| self.calls[*j].writer_gen == gen && !matches!(self.calls[*j].tok.chars().next(), Some('c') | Some('r') | Some('n')))
                .find(|j| self.calls[*j].tok.starts_with('a'));
            let target = back.or_else(|| (i + 1..self.calls.len()).take_while(|j| self.calls[*j].writer_gen == gen).find(|j| matches!(self.calls[*j].tok.chars().next(), Some('a') | Some('c'))));
            self.calls[i].tags.remove("wk");
            if let Some(t) = target {
                self.calls[t].tags.insert("wk");
            }
        }
        let toks: Vec<String> = self.calls.iter().filter(|c| c.tok != "-").map(|c| {
            let tags: Vec<&str> = c.tags.iter().cloned().filter(|t| *t != "gx" && *t != "xx" && *t != "bg").collect();
            if tags.is_empty() { c.tok.clone() } else { format!("{}:{}", c.tok, tags.join("+")) }
        }).collect();
        let line = format!("C11 run cap/{} {}", self.wl.cut, if toks.is_empty() { "-".into() } else { toks.join(",") });
        let resp = ctx.model.ask(&line);
        let model_res: Vec<&str> = resp.split('|').next().unwrap_or("").split(',').collect();
        let real: Vec<CallRec> = self.calls.iter().filter(|c| c.tok != "-").cloned().collect();
        if toks.is_empty() {
            return;
        }
        let mut mismatch: Option<String> = None;
        let mut mismatch_call = String::new();
        let mut worker_fault_open = false;
        for (i, c) in real.iter().enumerate() {
            let m = model_res.get(i).cloned().unwrap_or("?");
            let r = if c.res.starts_with("err") { "err" } else { c.res.as_str() };
            let c0 = c.tok.chars().next().unwrap();
            if c.tags.contains("wk") && c0 == 'a' {
                worker_fault_open = true;
            }
            if c0 == 'c' || c0 == 'r' || c0 == 'd' || c0 == 'w' || c0 == 'n' {
                if m != r && mismatch.is_none() {
                    mismatch = Some(format!("call {i} `{}` ({:?}): implementation {r}, model {m}", c.what, c.tags));
                    mismatch_call = c.what.split('(').next().unwrap_or("call").to_string();
                }
                worker_fault_open = false;
                continue;
            }
            if m != r {
                // the bomb goes off when the failing worker has unwound: an add racing with it may still succeed
                if c0 == 'a' && worker_fault_open && m == "err" && r == "ok" {
                    self.count("model:racy-add-accepted");
                    continue;
                }
                if mismatch.is_none() {
                    mismatch = Some(format!("call {i} `{}` ({:?}): implementation {r}, model {m}", c.what, c.tags));
                    mismatch_call = c.what.split('(').next().unwrap_or("call").to_string();
                }
            }
        }
        self.count("model:compared");
        if let Some(m) = mismatch {
            self.violation("model", &format!("C11:call-results-differ-from-model:{mismatch_call}"), format!("{m}; script {}; model {}", toks.join(","), resp));
        }
    }
}

static PROBE_ADDS: std::sync::atomic::AtomicUsize = std::sync::atomic::AtomicUsize::new(0);

fn probe_filter_store(k: OpKind, p: &str) -> bool { k == OpKind::OpenWrite && p.ends_with(".store") }
fn probe_filter_fast(k: OpKind, p: &str) -> bool { k == OpKind::OpenWrite && p.ends_with(".fast") }
fn probe_filter_fieldnorm(k: OpKind, p: &str) -> bool { k == OpKind::OpenWrite && p.ends_with(".fieldnorm") }

/// Saturated pipeline: the only indexing worker is parked (by the VDir hook) in the storage
/// operation that is going to fail, until the producer has filled the bounded document channel
/// and is blocked inside `add_document`; then the operation fails and the worker dies. The death
/// of the worker must disconnect the pipeline: the blocked `add_document` returns `Err` (and so
/// does every later one); the writer can be dropped and a new writer continues.
fn saturate_probe(ctx: &mut Ctx, case: &Value) {
    use std::sync::atomic::Ordering;
    let out_path = PathBuf::from(case["out"].as_str().expect("out"));
    let cap: usize = ctx.model.ask("C11 cap").parse().expect("C11 cap");
    let variant = case["variant"].as_u64().unwrap_or(0);
    let (schema, idf, body) = schema();
    let vdir = VDir::new();
    let index = Index::create(vdir.clone(), schema, IndexSettings::default()).expect("index creation (not faulted)");
    let mut violations: Vec<Value> = vec![];
    let mut viol = |key: &str, what: String| violations.push(json!({"kind": "oracle", "key": key, "what": what}));
    let opts = IndexWriterOptions::builder().num_worker_threads(1).memory_budget_per_thread(15_000_000).num_merge_threads(1).build();
    let mut writer: IndexWriter = index.writer_with_options(opts).expect("writer (not faulted)");
    writer.set_merge_policy(Box::new(NoMergePolicy));
    let target = cap + 2; // 1 batch held by the worker + `cap` queued + 1 blocked in send
    vdir.set_hook(Some(Arc::new(move |r: &OpRec| {
        if r.faulted && r.thread.starts_with("thrd-tantivy-index") {
            let t0 = Instant::now();
            while PROBE_ADDS.load(Ordering::SeqCst) < target && t0.elapsed() < Duration::from_secs(20) {
                std::thread::sleep(Duration::from_millis(2));
            }
            // leave the producer the time to really block inside add_document
            std::thread::sleep(Duration::from_millis(300));
        }
    })));
    vdir.with_state(|s| {
        s.fault_filter = Some(match variant % 3 { 0 => probe_filter_store, 1 => probe_filter_fast, _ => probe_filter_fieldnorm });
        s.faultable_seen = 0;
        s.fail_at = Some((0, false));
    });
    let mut first_err: Option<usize> = None;
    let mut panicked = false;
    for i in 0..cap + 50 {
        PROBE_ADDS.fetch_add(1, Ordering::SeqCst);
        let mut d = TantivyDocument::default();
        d.add_u64(idf, i as u64);
        let r = catch_unwind(AssertUnwindSafe(|| writer.add_document(d)));
        match r {
            Ok(Ok(_)) => {}
            Ok(Err(_)) => {
                first_err = Some(i);
                break;
            }
            Err(_) => {
                panicked = true;
                break;
            }
        }
    }
    let injected = vdir.with_state(|s| s.faults_injected);
    if panicked {
        viol("C11:panic-in-add", "add_document panicked while the pipeline was saturated".into());
    }
    let commit_res = if first_err.is_none() && !panicked { Some(catch_unwind(AssertUnwindSafe(|| writer.commit())).map(|r| r.is_ok()).unwrap_or(false)) } else { None };
    if injected == 0 {
        viol("C11:saturation-probe-inert", "the probe did not inject its fault (no worker open_write of the chosen component)".into());
    } else if first_err.is_none() && commit_res == Some(true) {
        viol("C11:worker-error-swallowed", format!("the only worker died of an I/O error while the pipeline was full; all {} add_document calls and the commit returned Ok", cap + 50));
    }
    // a blocked add woken by the worker's death is the (cap+2)-th; an earlier Err would mean the pipeline was never full
    let saturated = first_err.map(|i| i + 1 >= target).unwrap_or(false);
    vdir.set_hook(None);
    vdir.with_state(|s| { s.fail_at = None; s.fault_filter = None; });
    let r = catch_unwind(AssertUnwindSafe(move || drop(writer)));
    if r.is_err() {
        viol("C11:panic-in-drop", "dropping the writer whose worker died panicked".into());
    }
    let rec = catch_unwind(AssertUnwindSafe(|| -> Result<(), String> {
        let mut w: IndexWriter = index.writer_with_num_threads(1, 15_000_000).map_err(|e| format!("Index::writer: {e:?}"))?;
        let mut d = TantivyDocument::default();
        d.add_u64(idf, 1_000_000);
        d.add_text(body, "after recovery");
        w.add_document(d).map_err(|e| format!("add: {e:?}"))?;
        w.commit().map_err(|e| format!("commit: {e:?}"))?;
        drop(w);
        let c = content_of_storage(vdir.inner.clone(), idf)?;
        if c.len() != 1 || !c.contains(&1_000_000) {
            return Err(format!("index holds {} documents after the new writer's commit, expected exactly the new one", c.len()));
        }
        Ok(())
    }));
    match rec {
        Ok(Ok(())) => {}
        Ok(Err(e)) => viol("C11:new-writer-cannot-continue", format!("after the saturated writer was dropped: {e}")),
        Err(_) => viol("C11:panic-after-recovery", "the new writer panicked after the saturated writer was dropped".into()),
    }
    let mut counts = BTreeMap::new();
    counts.insert(if saturated { "saturation-probe:blocked-add-returned-err" } else { "saturation-probe:err-before-saturation" }.to_string(), 1u64);
    let res = json!({
        "op_threads": [], "n_ops": 0, "n_faulted": injected, "faulted": [], "calls": [{"call": "add_document", "tok": "a", "res": format!("first Err at add #{first_err:?} of capacity {cap}"), "phases": ["wk"]}],
        "violations": violations, "counts": counts, "any_err": first_err.is_some(), "gave_up": false, "phases": ["wk"],
    });
    std::fs::write(&out_path, res.to_string()).expect("write child result");
}

fn child_main(ctx: &mut Ctx, case: &Value) {
    if case["probe"].as_str() == Some("saturate") {
        saturate_probe(ctx, case);
        return;
    }
    let out_path = PathBuf::from(case["out"].as_str().expect("out"));
    let wl = Workload::from_json(&case["workload"]).expect("workload");
    let fault: Option<(u64, bool)> = case["k"].as_u64().map(|k| (k, case["perm"].as_bool().unwrap_or(false)));
    let policy_b = case["policy"].as_str() == Some("B");
    if wl.cut > 0 {
        tantivy::verif::set_segment_cut_docs(wl.cut);
    }
    let (schema, idf, body) = schema();
    let vdir = VDir::new();
    let ram = vdir.inner.clone();
    let settings = IndexSettings { docstore_compress_dedicated_thread: wl.dedicated_compressor, ..Default::default() };
    let index = Index::create(vdir.clone(), schema, settings).expect("index creation (not faulted)");
    let mut ch = Child {
        wl: wl.clone(), policy_b, vdir: vdir.clone(), ram, index, idf, body, writer: None, writer_gen: 0, reader: None,
        searcher_content: None, next_doc: 0, last_ok: BTreeSet::new(), attempts: vec![], pending: vec![], acked_since_err: vec![],
        writer_errored: false, rollback_failed: false, registers_ahead: false, gen_stamped: false, calls: vec![], violations: vec![], counts: BTreeMap::new(), gave_up: false,
    };
    // arm the fault: operation numbering starts here
    vdir.with_state(|s| {
        s.log.clear();
        s.faultable_seen = 0;
        s.fail_at = fault;
    });
    let timing = std::env::var("C11_TIMING").is_ok();
    for (i, s) in wl.steps.iter().enumerate() {
        let t0 = Instant::now();
        ch.step(s);
        let t1 = Instant::now();
        ch.check_storage(&format!("after step {i} {s:?}"));
        if timing {
            eprintln!("step {i} {s:?}: {:?} + check {:?}", t1 - t0, t1.elapsed());
        }
    }
    let n_ops = vdir.with_state(|s| s.faultable_seen);
    // the faults are over
    vdir.with_state(|s| s.fail_at = None);
    ch.drop_writer(false);
    ch.reader = None;
    if wl.default_merge_policy {
        // Dropping a writer does not wait for its merge threads; an `end_merge` task that had
        // already started keeps running on the updater thread (it may still replace meta.json and
        // garbage-collect). `Index::validate_checksum` reads meta.json and then opens the files
        // without the meta lock, so the final inspection must not race with those threads: wait
        // until the storage has been quiet for a while.
        let t0 = Instant::now();
        let mut last = vdir.log_len();
        let mut quiet = 0;
        while quiet < 4 && t0.elapsed() < Duration::from_secs(10) {
            std::thread::sleep(Duration::from_millis(50));
            let now = vdir.log_len();
            if now == last { quiet += 1 } else { quiet = 0; last = now }
        }
    }
    let log = vdir.log();
    ch.clean_stale_locks("at the end of the script");
    ch.classify(&log);
    ch.oracle_reported();
    ch.compare_with_model(ctx);
    // (2)/(4): fresh Index on the same storage, checksums, content, a new writer continues
    let final_check = catch_unwind(AssertUnwindSafe(|| -> Result<(), (String, String)> {
        let index = Index::open(vdir.clone()).map_err(|e| ("C11:reopen-failed".to_string(), format!("Index::open after the faults are over: {e:?}")))?;
        let damaged = index.validate_checksum().map_err(|e| ("C11:reopen-failed".to_string(), format!("validate_checksum: {e:?}")))?;
        if !damaged.is_empty() {
            return Err(("C11:committed-file-damaged".into(), format!("validate_checksum reports {damaged:?}")));
        }
        let reader: IndexReader = index.reader_builder().reload_policy(ReloadPolicy::Manual).try_into().map_err(|e| ("C11:reopen-failed".to_string(), format!("reader: {e:?}")))?;
        let c = read_content(&reader.searcher(), idf).map_err(|e| ("C11:last-commit-unreadable".to_string(), e))?;
        let allowed = (policy_b && ch.writer_errored) || c == ch.last_ok || ch.attempts.iter().any(|a| *a == c);
        if !allowed {
            return Err(("C11:committed-content-changed".into(), format!("re-opened index holds {c:?}, last successful commit {:?}, later attempts {:?}", ch.last_ok, ch.attempts)));
        }
        let mut w: IndexWriter = index.writer_with_num_threads(1, 15_000_000).map_err(|e| ("C11:no-new-writer-after-failure".to_string(), format!("Index::writer after the failed writer was dropped and the faults are over: {e:?}")))?;
        let mut d = TantivyDocument::default();
        d.add_u64(idf, 1_000_000);
        d.add_text(body, "after recovery");
        w.add_document(d).map_err(|e| ("C11:new-writer-cannot-continue".to_string(), format!("add: {e:?}")))?;
        w.commit().map_err(|e| ("C11:new-writer-cannot-continue".to_string(), format!("commit: {e:?}")))?;
        drop(w);
        reader.reload().map_err(|e| ("C11:new-writer-cannot-continue".to_string(), format!("reload: {e:?}")))?;
        let c2 = read_content(&reader.searcher(), idf).map_err(|e| ("C11:new-writer-cannot-continue".to_string(), e))?;
        let mut want = c.clone();
        want.insert(1_000_000);
        if c2 != want {
            return Err(("C11:new-writer-cannot-continue".into(), format!("after the new writer's commit the index holds {c2:?}, expected {want:?}")));
        }
        Ok(())
    }));
    match final_check {
        Ok(Ok(())) => {}
        Ok(Err((key, what))) => {
            note_env(&what);
            ch.violation("oracle", &key, what)
        }
        Err(_) => ch.violation("oracle", "C11:panic-after-recovery", "re-opening the index / the new writer panicked".into()),
    }
    let faulted: Vec<String> = log.iter().filter(|r| r.faulted).take(6).map(|r| r.line()).collect();
    let n_faulted = log.iter().filter(|r| r.faulted).count();
    let calls: Vec<Value> = ch.calls.iter().map(|c| json!({"call": c.what, "tok": c.tok, "res": c.res, "phases": c.tags.iter().collect::<Vec<_>>()})).collect();
    let any_err = ch.calls.iter().any(|c| c.res != "ok");
    let op_threads: Vec<String> = if fault.is_none() { log.iter().map(|r| format!("{}|{}|{}", r.thread, r.kind.name(), r.path)).collect() } else { vec![] };
    let res = json!({
        "env_failure": ENV_FAILURE.load(std::sync::atomic::Ordering::SeqCst),
        "op_threads": op_threads,
        "n_ops": n_ops, "n_faulted": n_faulted, "faulted": faulted, "calls": calls, "violations": ch.violations,
        "counts": ch.counts, "any_err": any_err, "gave_up": ch.gave_up,
        "phases": ch.calls.iter().flat_map(|c| c.tags.iter().cloned()).collect::<BTreeSet<_>>(),
    });
    std::fs::write(&out_path, res.to_string()).expect("write child result");
}

// ------------------------------------------------------------------------------------------
// parent
// ------------------------------------------------------------------------------------------

fn model_path_arg() -> String {
    let args: Vec<String> = std::env::args().collect();
    args.iter().position(|a| a == "--model").and_then(|i| args.get(i + 1).cloned()).unwrap_or_else(|| "/verif/lean/.lake/build/bin/tvmodel".into())
}

fn scratch_dir() -> tempfile::TempDir {
    let shm = Path::new("/dev/shm");
    if shm.is_dir() {
        if let Ok(d) = tempfile::tempdir_in(shm) {
            return d;
        }
    }
    tempfile::tempdir().unwrap()
}

enum ChildOutcome {
    /// the operating system refused to start the child (resource limits); not a verdict
    NotRun,
    Done(Value),
    Timeout,
    Died(String),
}

fn run_child(case: &Value, scratch: &Path, tag: &str, model: &str) -> ChildOutcome {
    let out = scratch.join(format!("{tag}.out"));
    let case_path = scratch.join(format!("{tag}.case"));
    let mut c = case.clone();
    c["child"] = json!(true);
    c["out"] = json!(out.to_str().unwrap());
    std::fs::write(&case_path, c.to_string()).unwrap();
    // a loaded machine may refuse a fork for a moment: retry, never take that for a verdict
    let mut spawned = None;
    for attempt in 0..200 {
        match std::process::Command::new(std::env::current_exe().unwrap())
            .args(["C11", "--replay", case_path.to_str().unwrap(), "--model", model, "--out", "/dev/null"])
            .env("RUST_BACKTRACE", "0")
            .stdout(std::process::Stdio::null())
            .stderr(std::process::Stdio::null())
            .spawn()
        {
            Ok(c) => {
                spawned = Some(c);
                break;
            }
            Err(_) => std::thread::sleep(Duration::from_millis(50 + 10 * attempt)),
        }
    }
    let Some(mut child) = spawned else {
        let _ = std::fs::remove_file(&case_path);
        return ChildOutcome::NotRun;
    };
    let t0 = Instant::now();
    let status = loop {
        match child.try_wait() {
            Ok(Some(st)) => break Some(st),
            Ok(None) => {
                if t0.elapsed() > case["timeout_s"].as_u64().map(Duration::from_secs).unwrap_or(CHILD_TIMEOUT) {
                    let _ = child.kill();
                    let _ = child.wait();
                    break None;
                }
                std::thread::sleep(Duration::from_millis(3));
            }
            Err(_) => break None,
        }
    };
    let _ = std::fs::remove_file(&case_path);
    let res = match status {
        None => ChildOutcome::Timeout,
        // exit code 101 before any result was written and within a moment: the child's own start-up
        // (spawning its model driver) failed under load
        Some(st) if !st.success() && !out.exists() && t0.elapsed() < Duration::from_millis(500) && case["retried"].as_u64().unwrap_or(0) < 4 => {
            let mut c2 = case.clone();
            let n = case["retried"].as_u64().unwrap_or(0) + 1;
            c2["retried"] = json!(n);
            std::thread::sleep(Duration::from_millis(300 * n));
            return run_child(&c2, scratch, tag, model);
        }
        Some(st) => match std::fs::read_to_string(&out).ok().and_then(|s| serde_json::from_str::<Value>(&s).ok()) {
            Some(v) if st.success() => ChildOutcome::Done(v),
            _ => ChildOutcome::Died(format!("{st:?}")),
        },
    };
    let _ = std::fs::remove_file(&out);
    res
}

fn run_cases_parallel(cases: Vec<Value>, threads: usize) -> Vec<(Value, ChildOutcome)> {
    let scratch = Arc::new(scratch_dir());
    let model = model_path_arg();
    let n = cases.len();
    let queue: Arc<Mutex<VecDeque<(usize, Value)>>> = Arc::new(Mutex::new(cases.into_iter().enumerate().collect()));
    let (tx, rx) = mpsc::channel();
    let mut joins = vec![];
    for t in 0..threads {
        let queue = queue.clone();
        let tx = tx.clone();
        let scratch = scratch.clone();
        let model = model.clone();
        joins.push(std::thread::spawn(move || loop {
            let item = queue.lock().unwrap().pop_front();
            let Some((i, case)) = item else { break };
            let r = catch_unwind(AssertUnwindSafe(|| run_child(&case, scratch.path(), &format!("t{t}_{i}"), &model))).unwrap_or(ChildOutcome::NotRun);
            let _ = tx.send((i, case, r));
        }));
    }
    drop(tx);
    let mut out: Vec<Option<(Value, ChildOutcome)>> = (0..n).map(|_| None).collect();
    for (i, case, r) in rx {
        out[i] = Some((case, r));
    }
    for j in joins {
        let _ = j.join();
    }
    out.into_iter().flatten().collect::<Vec<_>>()
}

fn absorb(ctx: &mut Ctx, case: &Value, outcome: ChildOutcome) -> Option<u64> {
    let canon = format!("{} k={} perm={} policy={}", case["workload"]["name"], case["k"], case["perm"], case["policy"]);
    match outcome {
        ChildOutcome::NotRun => {
            ctx.report.count("runs:child-could-not-be-started");
            None
        }
        ChildOutcome::Timeout if case["probe"].as_str() == Some("saturate") => {
            ctx.report.case(&canon, true);
            ctx.report.count("saturation-probe:producer-stayed-blocked");
            ctx.report.violation("oracle", "C11:add-blocks-forever-after-worker-death",
                format!("the only indexing worker died of an injected I/O error while the document pipeline was full and the producer was blocked inside add_document: the call never returned (child killed after {} s) — the death of the worker did not disconnect the pipeline", case["timeout_s"]), case.clone());
            None
        }
        ChildOutcome::Timeout if case["hang_probe"].as_bool() == Some(true) => {
            ctx.report.case(&canon, true);
            ctx.report.count("hang-probe:blocked");
            ctx.report.violation("oracle", "C11:add-blocks-forever-after-failed-commit",
                format!("after a commit that failed on a worker error (no rollback), the writer has no workers: more than PIPELINE_MAX_SIZE_IN_DOCS add_document calls fill the channel and the next one never returns (child killed after {} s; k={})", case["timeout_s"], case["k"]), case.clone());
            None
        }
        ChildOutcome::Timeout => {
            ctx.report.case(&canon, true);
            ctx.report.violation("oracle", "C11:hang", format!("the run did not finish within {} s (workload {}, k={}, permanent={}, policy {})", CHILD_TIMEOUT.as_secs(), case["workload"]["name"], case["k"], case["perm"], case["policy"]), case.clone());
            None
        }
        ChildOutcome::Died(st) => {
            ctx.report.case(&canon, true);
            ctx.report.violation("oracle", "C11:process-aborted", format!("the child process died ({st}) (workload {}, k={}, permanent={}, policy {})", case["workload"]["name"], case["k"], case["perm"], case["policy"]), case.clone());
            None
        }
        ChildOutcome::Done(v) if v["env_failure"].as_bool() == Some(true) => {
            ctx.report.count("runs:discarded-operating-system-refused-threads");
            None
        }
        ChildOutcome::Done(v) => {
            let injected = v["n_faulted"].as_u64().unwrap_or(0) > 0;
            ctx.report.case(&canon, injected);
            if injected {
                ctx.report.traces_validated_against_impl += 1;
            }
            for viol in v["violations"].as_array().cloned().unwrap_or_default() {
                ctx.report.violation(viol["kind"].as_str().unwrap_or("oracle"), viol["key"].as_str().unwrap_or("C11:unknown"), viol["what"].as_str().unwrap_or("").to_string(), case.clone());
            }
            if let Some(cs) = v["counts"].as_object() {
                for (k, n) in cs {
                    if !k.starts_with("violation:") {
                        ctx.report.count_n(k, n.as_u64().unwrap_or(0));
                    }
                }
            }
            for p in v["phases"].as_array().cloned().unwrap_or_default() {
                ctx.report.count(&format!("phase:{}", p.as_str().unwrap_or("?")));
            }
            ctx.report.count(if v["any_err"].as_bool().unwrap_or(false) { "runs:some-call-failed" } else { "runs:all-calls-ok" });
            if v["gave_up"].as_bool().unwrap_or(false) {
                ctx.report.count("runs:no-writer-until-faults-over");
            }
            if injected && ctx.report.samples.len() < 5 && v["any_err"].as_bool().unwrap_or(false) {
                ctx.report.sample(json!({"workload": case["workload"]["name"], "k": case["k"], "permanent": case["perm"], "policy": case["policy"], "faulted": v["faulted"], "calls": v["calls"]}));
            }
            if let Some(t) = v["op_threads"].as_array() {
                if !t.is_empty() {
                    ctx.report.notes.push(format!("op_threads:{}:{}", case["workload"]["name"].as_str().unwrap_or(""),
                        t.iter().map(|x| x.as_str().unwrap_or("")).collect::<Vec<_>>().join(",")));
                }
            }
            v["n_ops"].as_u64()
        }
    }
}

pub fn run(ctx: &mut Ctx) {
    if let Some(case) = ctx.replay.clone() {
        if case.get("child").is_some() {
            child_main(ctx, &case);
            return;
        }
        // replay of one (workload, k, mode, policy) triple, in a child again
        let mut res = run_cases_parallel(vec![case.clone()], 1);
        if let Some((c, o)) = res.pop() {
            absorb(ctx, &c, o);
        }
        return;
    }
    ctx.report.rule = "a run is non-trivial if the fault was actually injected (the k-th storage operation exists in that run); the evidence also counts runs in which some API call failed and the storage phases hit".into();
    ctx.report.correspondence_obligations = vec![
        "Result (Ok/Err/panic) of every API call of the executed script (recovery calls included) = result computed by the Lean fault model from the phases the faulted operations were attributed to (single-worker workloads without background merges)".into(),
        "oracle (1): a commit that returned Ok is complete — re-opened storage holds exactly the expected documents".into(),
        "oracle (2): the last successful commit (or a later complete attempt) is readable and searchable after every step and after re-opening; validate_checksum clean; after a commit that returned Err the storage denotes the last successful commit — or exactly the attempted one, only when the failed operation was the directory sync right after that commit's meta.json rename (finding C11:commit-err-after-meta-rename-visible)".into(),
        "oracle (3): the fault is reported by the call whose phase it hit or by the next commit (worker), or confined to a merge, or an ignored GC failure (file stays managed), or fails one reload".into(),
        "oracle (4): after rollback / drop of the failed writer a new writer opens, adds and commits".into(),
        "oracle (5): no panic escapes an API call; the child process neither aborts nor exceeds the wall-clock limit; with the pipeline saturated (worker parked in the failing operation, producer blocked in add_document) the worker's death makes the blocked add_document return Err".into(),
    ];
    let workloads = if ctx.thorough() { let mut r = ctx.rng.fork(); thorough_workloads(&mut r) } else { quick_workloads() };
    let threads = std::thread::available_parallelism().map(|n| n.get()).unwrap_or(4).min(16);
    // baselines: learn n
    let base_cases: Vec<Value> = workloads.iter().map(|w| json!({"workload": w.to_json(), "k": Value::Null, "perm": false, "policy": "A"})).collect();
    let mut ns: Vec<u64> = vec![];
    for (case, outcome) in run_cases_parallel(base_cases, threads) {
        if let ChildOutcome::Done(v) = &outcome {
            if v["any_err"].as_bool().unwrap_or(true) {
                ctx.report.violation("oracle", "C11:baseline-fails", format!("workload {} fails without any fault: {}", case["workload"]["name"], v["calls"]), case.clone());
            }
        }
        let n = absorb(ctx, &case, outcome).unwrap_or(0);
        ns.push(n);
    }
    let mut cases: Vec<Value> = vec![];
    // quick tier: every k of the short workloads; long ones (> 220 operations) are swept with an
    // even stride of 220 positions; thorough tier: every k of every workload
    let max_positions: u64 = if ctx.thorough() { u64::MAX } else { 220 };
    for (w, n) in workloads.iter().zip(ns.iter()) {
        ctx.report.count_n(&format!("ops:{}", w.name), *n);
        // background threads make the count vary a little from run to run: sweep a margin too
        let total = *n + 3;
        let ks: Vec<u64> = if total <= max_positions { (0..total).collect() } else { (0..max_positions).map(|i| i * total / max_positions).collect() };
        for (j, k) in ks.iter().enumerate() {
            for perm in [false, true] {
                cases.push(json!({"workload": w.to_json(), "k": k, "perm": perm, "policy": "A"}));
            }
            // policy B (keep using the writer after an error, no rollback): every fourth position
            if j % 4 == w.name.len() % 4 {
                cases.push(json!({"workload": w.to_json(), "k": k, "perm": false, "policy": "B"}));
            }
        }
    }
    // saturated pipeline: worker death must wake the blocked producer (quick: one component, thorough: three)
    for v in 0..(if ctx.thorough() { 3 } else { 1 }) {
        cases.push(json!({"workload": {"name": format!("saturate-{v}")}, "probe": "saturate", "variant": v, "k": 0, "perm": false, "policy": "-", "timeout_s": 45}));
    }
    // thorough tier: the blocking add (runtime clause "does not hang") witnessed on the real code
    if ctx.thorough() {
        if std::env::var("C11_ONLY_PROBE").is_ok() {
            cases.clear(); // development aid: exercise only the probe
        }
        let probe = wl("hang-probe", 1, 0, false, true, vec![Step::New, Step::Add(1), Step::Commit, Step::Add(2), Step::Commit, Step::Add(10_050), Step::Commit, Step::Drop]);
        let base = json!({"workload": probe.to_json(), "k": Value::Null, "perm": false, "policy": "B"});
        ctx.report.notes.retain(|n| !n.starts_with("op_threads:hang-probe:"));
        for (case, outcome) in run_cases_parallel(vec![base], 1) {
            absorb(ctx, &case, outcome);
        }
        let threads_line = ctx.report.notes.iter().find(|n| n.starts_with("op_threads:hang-probe:")).cloned().unwrap_or_default();
        let ths: Vec<&str> = threads_line.trim_start_matches("op_threads:hang-probe:").split(',').collect();
        // the worker operations of the second transaction: after the first meta.json write
        let metas: Vec<usize> = ths.iter().enumerate().filter(|(_, t)| **t == "segment_updater|atomic_write|meta.json").map(|(i, _)| i).collect();
        let (lo, hi) = (metas.first().cloned().unwrap_or(usize::MAX), metas.get(1).cloned().unwrap_or(0));
        let second: Vec<usize> = ths.iter().enumerate().filter(|(i, t)| *i > lo && *i < hi && t.starts_with("thrd-tantivy-index")).map(|(i, _)| i).collect();
        for k in second.iter().step_by((second.len() / 3).max(1)).take(3) {
            cases.push(json!({"workload": probe.to_json(), "k": k, "perm": false, "policy": "B", "timeout_s": 20, "hang_probe": true}));
        }
    }
    ctx.report.notes.retain(|n| !n.starts_with("op_threads:"));
    let planned = cases.len();
    ctx.report.count_n("child-runs", planned as u64);
    let results = run_cases_parallel(cases, threads);
    if results.len() != planned {
        ctx.report.notes.push(format!("{} of {planned} planned runs produced no result (worker thread died)", planned - results.len()));
        ctx.report.count_n("runs:lost", (planned - results.len()) as u64);
    }
    for (case, outcome) in results {
        absorb(ctx, &case, outcome);
    }
}
