//! C03 — queries match exactly the documents their logical meaning prescribes.
//!
//! Ties `Model/QuerySem.lean` (spec `sem`/`answer`), `Model/BoolCompile.lean` (scorer-tree model of
//! `BooleanWeight::scorer`/`complex_scorer`) and `Model/PhraseSlop.lean` (the two slop
//! algorithms) to the real search path:
//!  * oracle (implementation alone): every way of obtaining the result — `Count`,
//!    `DocSetCollector`, `TopDocs(limit ≥ n)`, a tuple collector with scoring, `Query::count`,
//!    `Weight::scorer`/`Weight::count` with `EnableScoring::disabled_from_searcher` and
//!    `enabled_from_searcher` — gives the same id set, and that set is the brute-force answer
//!    over the analysed documents (Lean `answer` is the reference; a native Rust evaluator is a
//!    second, independent evaluation);
//!  * model: real result = `searchIds leafTree scoring` of the compile model; real phrase-slop
//!    paths = the mirrored algorithms; encodings = `Gen.OrderEnc`.
//! Analysed tokens come from the real analyzer (`Index::tokenizer_for_field`).
use crate::rng::Rng;
use crate::Ctx;
use serde::{Deserialize, Serialize};
use serde_json::json;
use std::collections::{BTreeMap, BTreeSet, HashMap};
use std::net::Ipv6Addr;
use std::ops::Bound;
use std::panic::{catch_unwind, AssertUnwindSafe};
use tantivy::collector::{Count, DocSetCollector, FilterCollector, MultiCollector, TopDocs};
use tantivy::indexer::NoMergePolicy;
use tantivy::query::{
    AllQuery, BooleanQuery, BoostQuery, ConstScoreQuery, DisjunctionMaxQuery, EmptyQuery,
    EnableScoring, ExistsQuery, FuzzyTermQuery, InvertedIndexRangeQuery, Occur, PhrasePrefixQuery,
    PhraseQuery, Query, RangeQuery, RegexQuery, TermQuery, TermSetQuery,
};
use tantivy::schema::{
    BytesOptions, DateOptions, Field, IndexRecordOption, IpAddrOptions, JsonObjectOptions, NumericOptions,
    OwnedValue, Schema, TextFieldIndexing, TextOptions,
};
use tantivy::{DateTime, DocSet, Index, IndexWriter, Searcher, TantivyDocument, Term, TERMINATED};

const F_ID: u32 = 0;
const F_BODY: u32 = 1;
const F_TITLE: u32 = 2;
const F_TAG: u32 = 3;
const F_NUM: u32 = 4;
const F_INUM: u32 = 5;
const F_SCORE: u32 = 6;
const F_WHEN: u32 = 7;
const F_IP: u32 = 8;
const F_FLAG: u32 = 9;
const F_BLOB: u32 = 10;
const F_IFAST: u32 = 11;
const F_CAT: u32 = 12;
const F_ATTRS: u32 = 13;
/// model-side fast "field" of the JSON path `attrs.<JKEYS[i]>`
const F_JSON_FAST0: u32 = 100;
const JKEYS: [&str; 6] = ["k", "n", "t", "u", "x", "m"];
/// keys the query generators draw from (`m`, mixed supplied types, only occurs in the column-type stage)
const N_QUERY_KEYS: usize = 5;
const JKEY_MIXED: usize = 5;
const FIELD_NAMES: [&str; 14] = ["id", "body", "title", "tag", "num", "inum", "score", "when", "ip", "flag", "blob", "ifast", "cat", "attrs"];

const K_F4: &str = "C03:msm-ignored-single-should-clause";
const K_F4M: &str = "C03:msm-ignored-single-must-clause";
const K_S6: &str = "C03:phrase-slop3-count-vs-score-differ";
const K_PANIC_PHRASE: &str = "C03:excluded-phrase-scorer-seek-danger-debug-assert";
const K_IP_OVERFLOW: &str = "C03:ip-range-excluded-bound-overflow";
const K_FZP: &str = "C03:fuzzy-prefix-forgets-improvable-prefix-match";
const K_RANGE_UNDERFLOW: &str = "C03:excluded-range-docset-seek-distance-underflow";
const K_BWI_JSON: &str = "C03:block-wand-intersection-json-numeric-term-panic";
const K_JSON_U64_LOWER: &str = "C03:json-range-u64-lower-bound-on-i64-column";
const K_JSON_F64_FRACT: &str = "C03:json-range-f64-fractional-bound-rounded-toward-zero";
const K_JSON_F64_BELOW: &str = "C03:json-range-f64-upper-bound-below-u64-column-min";
const K_S6B: &str = "C03:phrase-slop3-differs-from-budget-meaning";

fn fld(id: u32) -> Field {
    Field::from_field_id(id)
}

fn build_schema() -> Schema {
    let mut sb = Schema::builder();
    sb.add_u64_field("id", NumericOptions::default().set_fast().set_indexed());
    let text = |tok: &str, opt: IndexRecordOption| {
        TextOptions::default().set_indexing_options(TextFieldIndexing::default().set_tokenizer(tok).set_index_option(opt))
    };
    sb.add_text_field("body", text("default", IndexRecordOption::WithFreqsAndPositions));
    sb.add_text_field("title", text("default", IndexRecordOption::WithFreqs));
    sb.add_text_field("tag", text("raw", IndexRecordOption::Basic));
    sb.add_u64_field("num", NumericOptions::default().set_fast().set_indexed());
    sb.add_i64_field("inum", NumericOptions::default().set_indexed());
    sb.add_f64_field("score", NumericOptions::default().set_fast());
    sb.add_date_field("when", DateOptions::default().set_fast().set_indexed());
    sb.add_ip_addr_field("ip", IpAddrOptions::default().set_fast().set_indexed());
    sb.add_bool_field("flag", NumericOptions::default().set_indexed());
    sb.add_bytes_field("blob", BytesOptions::default().set_fast().set_indexed());
    sb.add_i64_field("ifast", NumericOptions::default().set_fast().set_indexed());
    sb.add_text_field("cat", text("raw", IndexRecordOption::Basic).set_fast(None));
    sb.add_json_field("attrs", JsonObjectOptions::default()
        .set_indexing_options(TextFieldIndexing::default().set_tokenizer("default").set_index_option(IndexRecordOption::WithFreqsAndPositions))
        .set_fast(None));
    sb.build()
}

// ---------------------------------------------------------------------------------------------
// corpus description (serialisable: a replay case carries it)
// ---------------------------------------------------------------------------------------------

#[derive(Clone, Debug, Default, Serialize, Deserialize)]
struct DocSpec {
    id: u64,
    body: Option<String>,
    title: Option<String>,
    tag: Option<String>,
    num: Option<u64>,
    /// further values of `num` (distinct from `num` and from each other): a multivalued column
    #[serde(default)]
    nums: Vec<u64>,
    inum: Option<i64>,
    /// f64 bit pattern
    score: Option<u64>,
    /// seconds
    when: Option<i64>,
    /// u128 as decimal string
    ip: Option<String>,
    flag: Option<bool>,
    blob: Option<Vec<u8>>,
    ifast: Option<i64>,
    #[serde(default)]
    cat: Option<String>,
    /// flat JSON object: (index into JKEYS, value)
    #[serde(default)]
    attrs: Option<Vec<(usize, JVal)>>,
}

#[derive(Clone, Debug, Serialize, Deserialize, PartialEq)]
enum JVal {
    Str(String),
    Int(i64),
    Bool(bool),
    UInt(u64),
    /// the float h / 2 (the path's column becomes f64)
    Half(i64),
}

fn json_term(key: usize) -> Term {
    Term::from_field_json_path(fld(F_ATTRS), JKEYS[key], false)
}

#[derive(Clone, Debug, Default, Serialize, Deserialize)]
struct CorpusSpec {
    docs: Vec<DocSpec>,
    /// commit after each chunk of this many documents
    chunks: Vec<usize>,
    /// `tantivy::verif::set_segment_cut_docs` value while indexing (0 = off)
    cut: u32,
    /// (after chunk index, id): deleted by term on the id field, then committed
    deletes: Vec<(usize, u64)>,
    merge: bool,
}

/// the analysed view of a document (what the model receives)
#[derive(Clone, Debug, Default)]
struct MDoc {
    id: u64,
    postings: Vec<(u32, Vec<u8>, Vec<u32>)>,
    fast: Vec<(u32, u128)>,
}

fn i64_enc(v: i64) -> u64 {
    (v as u64) ^ (1u64 << 63)
}
fn f64_enc(bits: u64) -> u64 {
    if bits >> 63 == 0 { bits ^ (1u64 << 63) } else { !bits }
}
fn date_enc(secs: i64) -> u64 {
    i64_enc(secs.wrapping_mul(1_000_000_000))
}

#[derive(Clone, Debug, Serialize, Deserialize, PartialEq)]
enum Val {
    Str(String),
    U64(u64),
    I64(i64),
    F64(u64),
    Date(i64),
    Ip(String),
    Bool(bool),
    Bytes(Vec<u8>),
    /// a token of a string value under a JSON path
    JStr(usize, String),
    /// an integer under a JSON path
    JInt(usize, i64),
}

#[derive(Clone, Debug, Serialize, Deserialize, PartialEq)]
struct TermS {
    f: u32,
    v: Val,
}

impl TermS {
    fn term(&self) -> Term {
        let f = fld(self.f);
        match &self.v {
            Val::Str(s) => Term::from_field_text(f, s),
            Val::U64(v) => Term::from_field_u64(f, *v),
            Val::I64(v) => Term::from_field_i64(f, *v),
            Val::F64(b) => Term::from_field_f64(f, f64::from_bits(*b)),
            Val::Date(s) => Term::from_field_date_for_search(f, DateTime::from_timestamp_secs(*s)),
            Val::Ip(s) => Term::from_field_ip_addr(f, Ipv6Addr::from(s.parse::<u128>().unwrap())),
            Val::Bool(b) => Term::from_field_bool(f, *b),
            Val::Bytes(b) => Term::from_field_bytes(f, b),
            Val::JStr(k, s) => { let mut t = json_term(*k); t.append_type_and_str(s); t }
            Val::JInt(k, v) => { let mut t = json_term(*k); t.append_type_and_fast_value(*v); t }
        }
    }
    fn bytes(&self) -> Vec<u8> {
        self.term().serialized_value_bytes().to_vec()
    }
    /// order-preserving encoding computed natively (not through tantivy)
    fn enc(&self) -> u128 {
        match &self.v {
            Val::U64(v) => *v as u128,
            Val::I64(v) => i64_enc(*v) as u128,
            Val::F64(b) => f64_enc(*b) as u128,
            Val::Date(s) => date_enc(*s) as u128,
            Val::Ip(s) => s.parse::<u128>().unwrap(),
            Val::Bool(b) => *b as u128,
            Val::JInt(_, v) => i64_enc(*v) as u128,
            Val::Str(_) | Val::Bytes(_) | Val::JStr(..) => 0,
        }
    }
    /// expected term bytes: big-endian of the encoding (numeric types)
    fn expected_bytes(&self) -> Option<Vec<u8>> {
        match &self.v {
            Val::Ip(_) => Some(self.enc().to_be_bytes().to_vec()),
            Val::U64(_) | Val::I64(_) | Val::F64(_) | Val::Date(_) | Val::Bool(_) => Some((self.enc() as u64).to_be_bytes().to_vec()),
            Val::Str(s) => Some(s.as_bytes().to_vec()),
            Val::Bytes(b) => Some(b.clone()),
            Val::JStr(..) | Val::JInt(..) => None,
        }
    }
}

fn analyse(index: &Index, d: &DocSpec) -> MDoc {
    let mut m = MDoc { id: d.id, ..Default::default() };
    let mut text = |f: u32, s: &Option<String>| {
        if let Some(s) = s {
            let mut an = index.tokenizer_for_field(fld(f)).unwrap();
            let mut st = an.token_stream(s);
            let mut by_term: BTreeMap<Vec<u8>, Vec<u32>> = BTreeMap::new();
            while st.advance() {
                let t = st.token();
                by_term.entry(t.text.as_bytes().to_vec()).or_default().push(t.position as u32);
            }
            for (t, ps) in by_term {
                m.postings.push((f, t, ps));
            }
        }
    };
    text(F_BODY, &d.body);
    text(F_TITLE, &d.title);
    text(F_TAG, &d.tag);
    text(F_CAT, &d.cat);
    if d.cat.is_some() {
        m.fast.push((F_CAT, 0));
    }
    let mut val = |f: u32, v: Val, indexed: bool, fast: bool| {
        let t = TermS { f, v };
        if indexed {
            m.postings.push((f, t.bytes(), vec![0]));
        }
        if fast {
            m.fast.push((f, t.enc()));
        }
    };
    val(F_ID, Val::U64(d.id), true, true);
    if let Some(v) = d.num { val(F_NUM, Val::U64(v), true, true); }
    for (i, v) in d.nums.iter().enumerate() {
        if d.num != Some(*v) && !d.nums[..i].contains(v) { val(F_NUM, Val::U64(*v), true, true); }
    }
    if let Some(v) = d.inum { val(F_INUM, Val::I64(v), true, false); }
    if let Some(v) = d.score { val(F_SCORE, Val::F64(v), false, true); }
    if let Some(v) = d.when { val(F_WHEN, Val::Date(v), true, true); }
    if let Some(v) = &d.ip { val(F_IP, Val::Ip(v.clone()), true, true); }
    if let Some(v) = d.flag { val(F_FLAG, Val::Bool(v), true, false); }
    if let Some(v) = &d.blob { val(F_BLOB, Val::Bytes(v.clone()), true, true); }
    if let Some(v) = d.ifast { val(F_IFAST, Val::I64(v), true, true); }
    if let Some(attrs) = &d.attrs {
        for (k, v) in attrs {
            match v {
                JVal::Str(sv) => {
                    let mut an = index.tokenizer_for_field(fld(F_ATTRS)).unwrap();
                    let mut st = an.token_stream(sv);
                    let mut by_term: BTreeMap<Vec<u8>, Vec<u32>> = BTreeMap::new();
                    while st.advance() {
                        let t = st.token();
                        let term = TermS { f: F_ATTRS, v: Val::JStr(*k, t.text.clone()) };
                        by_term.entry(term.bytes()).or_default().push(t.position as u32);
                    }
                    for (t, ps) in by_term {
                        m.postings.push((F_ATTRS, t, ps));
                    }
                    m.fast.push((F_JSON_FAST0 + *k as u32, 0));
                }
                JVal::Int(i) => {
                    let term = TermS { f: F_ATTRS, v: Val::JInt(*k, *i) };
                    m.postings.push((F_ATTRS, term.bytes(), vec![0]));
                    m.fast.push((F_JSON_FAST0 + *k as u32, term.enc()));
                }
                JVal::UInt(u) => {
                    // JSON numbers are indexed as i64 when they fit, as u64 otherwise
                    let mut t = json_term(*k);
                    if *u <= i64::MAX as u64 { t.append_type_and_fast_value(*u as i64); } else { t.append_type_and_fast_value(*u); }
                    m.postings.push((F_ATTRS, t.serialized_value_bytes().to_vec(), vec![0]));
                    m.fast.push((F_JSON_FAST0 + *k as u32, *u as u128));
                }
                JVal::Half(h) => {
                    // floats are normalised to an integer term when they are integral
                    let mut t = json_term(*k);
                    if *h % 2 == 0 { t.append_type_and_fast_value(*h / 2); } else { t.append_type_and_fast_value(*h as f64 / 2.0); }
                    m.postings.push((F_ATTRS, t.serialized_value_bytes().to_vec(), vec![0]));
                    m.fast.push((F_JSON_FAST0 + *k as u32, (*h as i128 + (1i128 << 60)) as u128));
                }
                JVal::Bool(bv) => {
                    let mut t = json_term(*k);
                    t.append_type_and_fast_value(*bv);
                    m.postings.push((F_ATTRS, t.serialized_value_bytes().to_vec(), vec![0]));
                    m.fast.push((F_JSON_FAST0 + *k as u32, *bv as u128));
                }
            }
        }
    }
    m
}

fn to_tantivy_doc(d: &DocSpec) -> TantivyDocument {
    let mut t = TantivyDocument::default();
    t.add_u64(fld(F_ID), d.id);
    if let Some(s) = &d.body { t.add_text(fld(F_BODY), s); }
    if let Some(s) = &d.title { t.add_text(fld(F_TITLE), s); }
    if let Some(s) = &d.tag { t.add_text(fld(F_TAG), s); }
    if let Some(v) = d.num { t.add_u64(fld(F_NUM), v); }
    for (i, v) in d.nums.iter().enumerate() {
        if d.num != Some(*v) && !d.nums[..i].contains(v) { t.add_u64(fld(F_NUM), *v); }
    }
    if let Some(v) = d.inum { t.add_i64(fld(F_INUM), v); }
    if let Some(v) = d.score { t.add_f64(fld(F_SCORE), f64::from_bits(v)); }
    if let Some(v) = d.when { t.add_date(fld(F_WHEN), DateTime::from_timestamp_secs(v)); }
    if let Some(v) = &d.ip { t.add_ip_addr(fld(F_IP), Ipv6Addr::from(v.parse::<u128>().unwrap())); }
    if let Some(v) = d.flag { t.add_bool(fld(F_FLAG), v); }
    if let Some(v) = &d.blob { t.add_bytes(fld(F_BLOB), v); }
    if let Some(v) = d.ifast { t.add_i64(fld(F_IFAST), v); }
    if let Some(s) = &d.cat { t.add_text(fld(F_CAT), s); }
    if let Some(attrs) = &d.attrs {
        let obj: std::collections::BTreeMap<String, OwnedValue> = attrs.iter().map(|(k, v)| (JKEYS[*k].to_string(), match v {
            JVal::Str(s) => OwnedValue::Str(s.clone()),
            JVal::Int(i) => OwnedValue::I64(*i),
            JVal::Bool(b) => OwnedValue::Bool(*b),
            JVal::UInt(u) => OwnedValue::U64(*u),
            JVal::Half(h) => OwnedValue::F64(*h as f64 / 2.0),
        })).collect();
        t.add_object(fld(F_ATTRS), obj);
    }
    t
}

struct Built {
    index: Index,
    searcher: Searcher,
    /// per segment (searcher order): (analysed doc, alive) by segment doc id
    segs: Vec<Vec<(MDoc, bool)>>,
    by_id: HashMap<u64, MDoc>,
    expected_live: BTreeSet<u64>,
}

fn build(spec: &CorpusSpec) -> Result<Built, String> {
    let index = Index::create_in_ram(build_schema());
    let mut w: IndexWriter = index.writer_with_num_threads(1, 20_000_000).map_err(|e| e.to_string())?;
    w.set_merge_policy(Box::new(NoMergePolicy));
    tantivy::verif::set_segment_cut_docs(spec.cut);
    let mut live: BTreeSet<u64> = BTreeSet::new();
    let mut pos = 0usize;
    let res = (|| -> tantivy::Result<()> {
        for (ci, n) in spec.chunks.iter().enumerate() {
            for d in &spec.docs[pos..(pos + n).min(spec.docs.len())] {
                w.add_document(to_tantivy_doc(d))?;
                live.insert(d.id);
            }
            pos = (pos + n).min(spec.docs.len());
            w.commit()?;
            let dels: Vec<u64> = spec.deletes.iter().filter(|(c, _)| *c == ci).map(|(_, id)| *id).collect();
            if !dels.is_empty() {
                for id in dels {
                    w.delete_term(Term::from_field_u64(fld(F_ID), id));
                    live.remove(&id);
                }
                w.commit()?;
            }
        }
        Ok(())
    })();
    tantivy::verif::set_segment_cut_docs(0);
    res.map_err(|e| e.to_string())?;
    if spec.merge {
        let ids = index.searchable_segment_ids().map_err(|e| e.to_string())?;
        if ids.len() >= 2 {
            w.merge(&ids).wait().map_err(|e| e.to_string())?;
        }
    }
    w.wait_merging_threads().map_err(|e| e.to_string())?;
    let reader = index.reader().map_err(|e| e.to_string())?;
    let searcher = reader.searcher();
    let by_id: HashMap<u64, MDoc> = spec.docs.iter().map(|d| (d.id, analyse(&index, d))).collect();
    let mut segs = vec![];
    for r in searcher.segment_readers() {
        let col = r.fast_fields().u64("id").map_err(|e| e.to_string())?;
        let mut v = vec![];
        for doc in 0..r.max_doc() {
            let id = col.first(doc).ok_or("doc without id")?;
            v.push((by_id.get(&id).ok_or("unknown id in segment")?.clone(), !r.is_deleted(doc)));
        }
        segs.push(v);
    }
    Ok(Built { index, searcher, segs, by_id, expected_live: live })
}

fn hexs(b: &[u8]) -> String {
    crate::model::hex(b)
}

fn corpus_line(b: &Built) -> String {
    if b.segs.is_empty() {
        return "-".into();
    }
    let mut s = String::new();
    for (si, seg) in b.segs.iter().enumerate() {
        if si > 0 { s.push('/'); }
        for (di, (d, alive)) in seg.iter().enumerate() {
            if di > 0 { s.push(';'); }
            s.push_str(&format!("{}|{}|", d.id, if *alive { 1 } else { 0 }));
            if d.postings.is_empty() { s.push('-'); }
            for (i, (f, t, ps)) in d.postings.iter().enumerate() {
                if i > 0 { s.push(','); }
                let p: Vec<String> = ps.iter().map(|x| x.to_string()).collect();
                s.push_str(&format!("{}:{}:{}", f, hexs(t), if p.is_empty() { "-".to_string() } else { p.join(".") }));
            }
            s.push('|');
            if d.fast.is_empty() { s.push('-'); }
            for (i, (f, v)) in d.fast.iter().enumerate() {
                if i > 0 { s.push(','); }
                s.push_str(&format!("{}:{}", f, v));
            }
        }
    }
    s
}

// ---------------------------------------------------------------------------------------------
// queries
// ---------------------------------------------------------------------------------------------

#[derive(Clone, Debug, Serialize, Deserialize, PartialEq)]
enum Re {
    Lit(char),
    Any,
    Class(Vec<char>),
    Seq(Vec<Re>),
    Alt(Vec<Re>),
    Star(Box<Re>),
    Plus(Box<Re>),
    Opt(Box<Re>),
}

impl Re {
    fn render(&self) -> String {
        match self {
            Re::Lit(c) => c.to_string(),
            Re::Any => ".".into(),
            Re::Class(cs) => format!("[{}]", cs.iter().collect::<String>()),
            Re::Seq(v) => v.iter().map(|r| r.render()).collect(),
            Re::Alt(v) => format!("({})", v.iter().map(|r| r.render()).collect::<Vec<_>>().join("|")),
            Re::Star(r) => format!("({})*", r.render()),
            Re::Plus(r) => format!("({})+", r.render()),
            Re::Opt(r) => format!("({})?", r.render()),
        }
    }
    /// own backtracking matcher (independent of the regex / fst crates): does `self` followed by
    /// continuation `k` match `s`?
    fn m(&self, s: &[char], k: &dyn Fn(&[char]) -> bool) -> bool {
        match self {
            Re::Lit(c) => !s.is_empty() && s[0] == *c && k(&s[1..]),
            Re::Any => !s.is_empty() && s[0] != '\n' && k(&s[1..]),
            Re::Class(cs) => !s.is_empty() && cs.contains(&s[0]) && k(&s[1..]),
            Re::Seq(v) => match v.split_first() {
                None => k(s),
                Some((h, t)) => h.m(s, &|r| Re::Seq(t.to_vec()).m(r, k)),
            },
            Re::Alt(v) => v.iter().any(|r| r.m(s, k)),
            Re::Opt(r) => r.m(s, k) || k(s),
            Re::Star(r) => k(s) || r.m(s, &|rest| rest.len() < s.len() && self.m(rest, k)),
            Re::Plus(r) => r.m(s, &|rest| Re::Star(r.clone()).m(rest, k)),
        }
    }
    fn full_match(&self, s: &str) -> bool {
        let cs: Vec<char> = s.chars().collect();
        self.m(&cs, &|r| r.is_empty())
    }
}

#[derive(Clone, Debug, Serialize, Deserialize, PartialEq)]
enum Bd {
    Incl(TermS),
    Excl(TermS),
    Unb,
}

#[derive(Clone, Copy, Debug, Serialize, Deserialize, PartialEq)]
enum Oc {
    Must,
    Should,
    MustNot,
}

#[derive(Clone, Debug, Serialize, Deserialize, PartialEq)]
enum Q {
    Term(TermS),
    Phrase { f: u32, terms: Vec<(usize, String)>, slop: u32 },
    /// phrase over the tokens of the string under JSON path `attrs.k`
    JPhrase { terms: Vec<(usize, String)>, slop: u32 },
    /// exists on `attrs.<key>` (None: on `attrs` with json_subpaths)
    JExists(Option<usize>),
    /// range over the integers under JSON path `attrs.n` (fast-field path)
    JRange { lo: Option<(bool, i64)>, hi: Option<(bool, i64)> },
    PhrasePrefix { f: u32, terms: Vec<(usize, String)> },
    /// `fast`: RangeQuery on a fast field (fast-field path); else the term-dictionary path
    /// (`RangeQuery` on a non-fast field, or `InvertedIndexRangeQuery` when `inverted`)
    Range { f: u32, lo: Bd, hi: Bd, fast: bool, inverted: bool },
    TermSet(Vec<TermS>),
    Exists(u32),
    All,
    Empty,
    Fuzzy { t: TermS, d: u8, transp: bool, prefix: bool },
    Regex { f: u32, re: Re },
    Boost(Box<Q>),
    Const(Box<Q>),
    DisMax(Vec<Q>),
    /// msm None = `BooleanQuery::new`
    Bool(Vec<(Oc, Q)>, Option<usize>),
}

fn derived_msm(cs: &[(Oc, Q)]) -> usize {
    // mirrors BooleanQuery::new
    let mut m = 0;
    for (o, _) in cs {
        match o {
            Oc::Should => m = 1,
            _ => { m = 0; break; }
        }
    }
    m
}

fn bound_of(b: &Bd) -> Bound<Term> {
    match b {
        Bd::Incl(t) => Bound::Included(t.term()),
        Bd::Excl(t) => Bound::Excluded(t.term()),
        Bd::Unb => Bound::Unbounded,
    }
}

impl Q {
    fn real(&self) -> Box<dyn Query> {
        match self {
            Q::Term(t) => {
                let opt = match t.f { F_BODY | F_ATTRS => IndexRecordOption::WithFreqsAndPositions, F_TITLE => IndexRecordOption::WithFreqs, _ => IndexRecordOption::Basic };
                Box::new(TermQuery::new(t.term(), opt))
            }
            Q::Phrase { f, terms, slop } => Box::new(PhraseQuery::new_with_offset_and_slop(
                terms.iter().map(|(o, s)| (*o, Term::from_field_text(fld(*f), s))).collect(), *slop)),
            Q::JPhrase { terms, slop } => Box::new(PhraseQuery::new_with_offset_and_slop(
                terms.iter().map(|(o, s)| (*o, TermS { f: F_ATTRS, v: Val::JStr(0, s.clone()) }.term())).collect(), *slop)),
            Q::JExists(k) => match k {
                Some(k) => Box::new(ExistsQuery::new(format!("attrs.{}", JKEYS[*k]), false)),
                None => Box::new(ExistsQuery::new("attrs".to_string(), true)),
            },
            Q::JRange { lo, hi } => {
                let b = |x: &Option<(bool, i64)>| match x {
                    None => Bound::Unbounded,
                    Some((true, v)) => Bound::Included(TermS { f: F_ATTRS, v: Val::JInt(1, *v) }.term()),
                    Some((false, v)) => Bound::Excluded(TermS { f: F_ATTRS, v: Val::JInt(1, *v) }.term()),
                };
                Box::new(RangeQuery::new(b(lo), b(hi)))
            }
            Q::PhrasePrefix { f, terms } => {
                let mut q = PhrasePrefixQuery::new_with_offset(terms.iter().map(|(o, s)| (*o, Term::from_field_text(fld(*f), s))).collect());
                q.set_max_expansions(100_000);
                Box::new(q)
            }
            Q::Range { lo, hi, inverted, .. } => {
                if *inverted { Box::new(InvertedIndexRangeQuery::new(bound_of(lo), bound_of(hi))) }
                else { Box::new(RangeQuery::new(bound_of(lo), bound_of(hi))) }
            }
            Q::TermSet(ts) => Box::new(TermSetQuery::new(ts.iter().map(|t| t.term()))),
            Q::Exists(f) => Box::new(ExistsQuery::new(FIELD_NAMES[*f as usize].to_string(), false)),
            Q::All => Box::new(AllQuery),
            Q::Empty => Box::new(EmptyQuery),
            Q::Fuzzy { t, d, transp, prefix } => {
                if *prefix { Box::new(FuzzyTermQuery::new_prefix(t.term(), *d, *transp)) } else { Box::new(FuzzyTermQuery::new(t.term(), *d, *transp)) }
            }
            Q::Regex { f, re } => Box::new(RegexQuery::from_pattern(&re.render(), fld(*f)).expect("generated regex must parse")),
            Q::Boost(q) => Box::new(BoostQuery::new(q.real(), 2.0)),
            Q::Const(q) => Box::new(ConstScoreQuery::new(q.real(), 3.0)),
            Q::DisMax(qs) => Box::new(DisjunctionMaxQuery::new(qs.iter().map(|q| q.real()).collect())),
            Q::Bool(cs, msm) => {
                let sub: Vec<(Occur, Box<dyn Query>)> = cs.iter().map(|(o, q)| (match o { Oc::Must => Occur::Must, Oc::Should => Occur::Should, Oc::MustNot => Occur::MustNot }, q.real())).collect();
                match msm {
                    None => Box::new(BooleanQuery::new(sub)),
                    Some(m) => Box::new(BooleanQuery::with_minimum_required_clauses(sub, *m)),
                }
            }
        }
    }

    /// model encoding (prefix form, atoms joined by ':'); `vocab` = distinct terms per field
    fn enc(&self, vocab: &HashMap<u32, BTreeSet<Vec<u8>>>, out: &mut Vec<String>) {
        let pairs = |terms: &Vec<(usize, String)>, out: &mut Vec<String>| {
            for (o, s) in terms {
                out.push(o.to_string());
                out.push(hexs(s.as_bytes()));
            }
        };
        match self {
            Q::Term(t) => out.extend(["T".into(), t.f.to_string(), hexs(&t.bytes())]),
            Q::Phrase { f, terms, slop } => {
                let mut ts = terms.clone();
                ts.sort_by_key(|x| x.0);
                out.extend(["P".into(), f.to_string(), slop.to_string(), ts.len().to_string()]);
                pairs(&ts, out);
            }
            Q::JPhrase { terms, slop } => {
                let mut ts = terms.clone();
                ts.sort_by_key(|x| x.0);
                out.extend(["P".into(), F_ATTRS.to_string(), slop.to_string(), ts.len().to_string()]);
                for (o, s) in &ts {
                    out.push(o.to_string());
                    out.push(hexs(&TermS { f: F_ATTRS, v: Val::JStr(0, s.clone()) }.bytes()));
                }
            }
            Q::JExists(k) => match k {
                Some(k) => out.extend(["E".into(), (F_JSON_FAST0 + *k as u32).to_string()]),
                None => {
                    out.extend(["D".into(), N_QUERY_KEYS.to_string()]);
                    for k in 0..N_QUERY_KEYS {
                        out.extend(["E".into(), (F_JSON_FAST0 + k as u32).to_string()]);
                    }
                }
            },
            Q::JRange { lo, hi } => {
                out.extend(["RF".into(), (F_JSON_FAST0 + 1).to_string()]);
                for b in [lo, hi] {
                    match b {
                        None => out.extend(["u".into(), "-".into()]),
                        Some((incl, v)) => out.extend([if *incl { "i".to_string() } else { "e".to_string() }, i64_enc(*v).to_string()]),
                    }
                }
            }
            Q::PhrasePrefix { f, terms } => {
                let mut ts = terms.clone();
                ts.sort_by_key(|x| x.0);
                let (po, pre) = ts.pop().unwrap();
                out.extend(["PP".into(), f.to_string(), ts.len().to_string()]);
                pairs(&ts, out);
                out.extend([po.to_string(), hexs(pre.as_bytes())]);
            }
            Q::Range { f, lo, hi, fast, .. } => {
                out.extend([if *fast { "RF".to_string() } else { "RT".to_string() }, f.to_string()]);
                for b in [lo, hi] {
                    match b {
                        Bd::Unb => out.extend(["u".into(), "-".into()]),
                        Bd::Incl(t) | Bd::Excl(t) => {
                            out.push(if matches!(b, Bd::Incl(_)) { "i".into() } else { "e".into() });
                            out.push(if *fast { t.enc().to_string() } else { hexs(&t.bytes()) });
                        }
                    }
                }
            }
            Q::TermSet(ts) => {
                out.extend(["S".into(), ts.len().to_string()]);
                for t in ts {
                    out.extend([t.f.to_string(), hexs(&t.bytes())]);
                }
            }
            Q::Exists(f) => out.extend(["E".into(), f.to_string()]),
            Q::All => out.push("A".into()),
            Q::Empty => out.push("N".into()),
            Q::Fuzzy { t, d, transp, prefix } => out.extend(["F".into(), t.f.to_string(), hexs(&t.bytes()), d.to_string(), (*transp as u8).to_string(), (*prefix as u8).to_string()]),
            Q::Regex { f, re } => {
                // the language is a parameter of the model: decided by the harness's own matcher
                let lang: Vec<&Vec<u8>> = vocab.get(f).map(|v| v.iter().filter(|t| std::str::from_utf8(t).map(|s| re.full_match(s)).unwrap_or(false)).collect()).unwrap_or_default();
                out.extend(["X".into(), f.to_string(), lang.len().to_string()]);
                for t in lang {
                    out.push(hexs(t));
                }
            }
            Q::Boost(q) => { out.push("W".into()); q.enc(vocab, out); }
            Q::Const(q) => { out.push("K".into()); q.enc(vocab, out); }
            Q::DisMax(qs) => {
                out.extend(["D".into(), qs.len().to_string()]);
                for q in qs { q.enc(vocab, out); }
            }
            Q::Bool(cs, msm) => {
                out.extend(["L".into(), msm.unwrap_or_else(|| derived_msm(cs)).to_string(), cs.len().to_string()]);
                for (o, q) in cs {
                    out.push(match o { Oc::Must => "m", Oc::Should => "s", Oc::MustNot => "n" }.into());
                    q.enc(vocab, out);
                }
            }
        }
    }
    fn model_str(&self, vocab: &HashMap<u32, BTreeSet<Vec<u8>>>) -> String {
        let mut v = vec![];
        self.enc(vocab, &mut v);
        v.join(":")
    }
    fn leaves(&self, out: &mut Vec<Q>) {
        match self {
            Q::Boost(q) | Q::Const(q) => q.leaves(out),
            Q::DisMax(qs) => qs.iter().for_each(|q| q.leaves(out)),
            Q::Bool(cs, _) => cs.iter().for_each(|(_, q)| q.leaves(out)),
            l => out.push(l.clone()),
        }
    }
    fn depth(&self) -> usize {
        match self {
            Q::Boost(q) | Q::Const(q) => 1 + q.depth(),
            Q::DisMax(qs) => 1 + qs.iter().map(|q| q.depth()).max().unwrap_or(0),
            Q::Bool(cs, _) => 1 + cs.iter().map(|(_, q)| q.depth()).max().unwrap_or(0),
            _ => 0,
        }
    }
    fn any(&self, p: &dyn Fn(&Q) -> bool) -> bool {
        if p(self) { return true; }
        match self {
            Q::Boost(q) | Q::Const(q) => q.any(p),
            Q::DisMax(qs) => qs.iter().any(|q| q.any(p)),
            Q::Bool(cs, _) => cs.iter().any(|(_, q)| q.any(p)),
            _ => false,
        }
    }
    /// F4 signature: a boolean node with exactly one clause, SHOULD, msm ≥ 2
    fn sig_f4(&self) -> bool {
        if SINGLE_GUARD.load(std::sync::atomic::Ordering::Relaxed) { return false; }
        self.any(&|q| matches!(q, Q::Bool(cs, Some(m)) if cs.len() == 1 && cs[0].0 == Oc::Should && *m >= 2))
    }
    /// same shortcut, other face: exactly one clause, MUST, msm ≥ 1
    fn sig_f4m(&self) -> bool {
        if SINGLE_GUARD.load(std::sync::atomic::Ordering::Relaxed) { return false; }
        self.any(&|q| matches!(q, Q::Bool(cs, Some(m)) if cs.len() == 1 && cs[0].0 == Oc::Must && *m >= 1))
    }
    /// a phrase (or phrase-prefix) somewhere below a MUST_NOT clause
    fn sig_excluded_phrase(&self) -> bool {
        self.any(&|q| matches!(q, Q::Bool(cs, _) if cs.iter().any(|(o, sub)| *o == Oc::MustNot && sub.any(&|x| matches!(x, Q::Phrase { .. } | Q::JPhrase { .. } | Q::PhrasePrefix { .. })))))
    }
    /// an ip fast-field range whose exclusive upper bound is :: (0) or whose exclusive lower
    /// bound is ffff:…:ffff (u128::MAX)
    fn sig_ip_overflow(&self) -> bool {
        let is = |b: &Bd, v: u128| matches!(b, Bd::Excl(TermS { v: Val::Ip(s), .. }) if s.parse::<u128>().ok() == Some(v));
        self.any(&|q| matches!(q, Q::Range { f, lo, hi, fast: true, .. } if *f == F_IP && (is(hi, 0) || is(lo, u128::MAX))))
    }
    /// a fast-field range somewhere below a MUST_NOT clause
    fn sig_excluded_fast_range(&self) -> bool {
        self.any(&|q| matches!(q, Q::Bool(cs, _) if cs.iter().any(|(o, sub)| *o == Oc::MustNot && sub.any(&|x| matches!(x, Q::Range { fast: true, .. } | Q::JRange { .. })))))
    }
    /// a boolean node with at least 2 MUST term clauses one of which is a numeric JSON term
    fn sig_must_json_int(&self) -> bool {
        self.any(&|q| matches!(q, Q::Bool(cs, _) if cs.iter().filter(|(o, sub)| *o == Oc::Must && matches!(sub, Q::Term(_))).count() >= 2
            && cs.iter().any(|(o, sub)| *o == Oc::Must && matches!(sub, Q::Term(TermS { v: Val::JInt(..), .. })))))
    }
    /// a fuzzy query in prefix mode
    fn sig_fzp(&self) -> bool {
        self.any(&|q| matches!(q, Q::Fuzzy { prefix: true, .. }))
    }
    /// S6 signature: a phrase of ≥ 3 terms with slop ≥ 1
    fn sig_s6(&self) -> bool {
        self.any(&|q| matches!(q, Q::Phrase { terms, slop, .. } | Q::JPhrase { terms, slop } if terms.len() >= 3 && *slop >= 1))
    }
    fn kinds(&self, out: &mut BTreeSet<String>) {
        let k = match self {
            Q::Term(t) => format!("term:{}{}", FIELD_NAMES[t.f as usize], match &t.v { Val::JStr(..) => ":str", Val::JInt(..) => ":int", _ => "" }),
            Q::Phrase { terms, slop, .. } => format!("phrase:{}terms:slop{}", terms.len().min(4), (*slop).min(3)),
            Q::JPhrase { terms, slop } => format!("json-phrase:{}terms:slop{}", terms.len().min(4), (*slop).min(3)),
            Q::JExists(k) => format!("json-exists:{}", if k.is_some() { "path" } else { "subpaths" }),
            Q::JRange { .. } => "json-range:fast".into(),
            Q::PhrasePrefix { terms, .. } => format!("phrase-prefix:{}", terms.len().min(3)),
            Q::Range { f, fast, inverted, .. } => format!("range:{}:{}", FIELD_NAMES[*f as usize], if *fast { "fast" } else if *inverted { "inverted" } else if *f == F_CAT { "str-fast" } else { "termdict" }),
            Q::TermSet(_) => "term-set".into(),
            Q::Exists(f) => format!("exists:{}", FIELD_NAMES[*f as usize]),
            Q::All => "all".into(),
            Q::Empty => "empty".into(),
            Q::Fuzzy { d, transp, prefix, .. } => format!("fuzzy:d{}:t{}:p{}", d, *transp as u8, *prefix as u8),
            Q::Regex { .. } => "regex".into(),
            Q::Boost(_) => "boost".into(),
            Q::Const(_) => "const-score".into(),
            Q::DisMax(_) => "dis-max".into(),
            Q::Bool(cs, msm) => {
                let only_not = !cs.is_empty() && cs.iter().all(|c| c.0 == Oc::MustNot);
                format!("bool:{}{}{}", if cs.is_empty() { "empty" } else if only_not { "only-must-not" } else { "mixed" }, if msm.is_some() { ":msm" } else { "" }, if cs.len() == 1 { ":single" } else { "" })
            }
        };
        out.insert(k);
        match self {
            Q::Boost(q) | Q::Const(q) => q.kinds(out),
            Q::DisMax(qs) => qs.iter().for_each(|q| q.kinds(out)),
            Q::Bool(cs, _) => cs.iter().for_each(|(_, q)| q.kinds(out)),
            _ => {}
        }
    }
}

// ---------------------------------------------------------------------------------------------
// native evaluator (second, independent evaluation of the spec)
// ---------------------------------------------------------------------------------------------

fn positions<'a>(d: &'a MDoc, f: u32, t: &[u8]) -> &'a [u32] {
    d.postings.iter().find(|p| p.0 == f && p.1 == t).map(|p| &p.2[..]).unwrap_or(&[])
}

fn has_term(d: &MDoc, f: u32, t: &[u8]) -> bool {
    d.postings.iter().any(|p| p.0 == f && p.1 == t)
}

fn adjusted(d: &MDoc, f: u32, terms: &[(usize, String)], mx: usize) -> Vec<Vec<u64>> {
    terms.iter().map(|(o, s)| {
        let bytes = if f == F_ATTRS { TermS { f, v: Val::JStr(0, s.clone()) }.bytes() } else { s.as_bytes().to_vec() };
        positions(d, f, &bytes).iter().map(|p| *p as u64 + (mx - o) as u64).collect()
    }).collect()
}

fn slop_chain(prev: u64, budget: u64, rest: &[Vec<u64>]) -> bool {
    match rest.split_first() {
        None => true,
        Some((a, r)) => a.iter().any(|p| {
            let d = prev.abs_diff(*p);
            d <= budget && slop_chain(*p, budget - d, r)
        }),
    }
}

fn edit_distance(c: &[char], q: &[char], transp: bool, prefix: bool) -> usize {
    // D[i][j] = distance(c[..i], q[..j])  (optimal string alignment when transp)
    let (n, m) = (c.len(), q.len());
    let mut d = vec![vec![0usize; m + 1]; n + 1];
    for j in 0..=m { d[0][j] = j; }
    for i in 1..=n {
        d[i][0] = i;
        for j in 1..=m {
            let cost = if c[i - 1] == q[j - 1] { 0 } else { 1 };
            let mut v = (d[i - 1][j - 1] + cost).min(d[i - 1][j] + 1).min(d[i][j - 1] + 1);
            if transp && i > 1 && j > 1 && c[i - 1] == q[j - 2] && c[i - 2] == q[j - 1] {
                v = v.min(d[i - 2][j - 2] + 1);
            }
            d[i][j] = v;
        }
    }
    if prefix { (0..=n).map(|i| d[i][m]).min().unwrap() } else { d[n][m] }
}

fn in_range_bytes(lo: &Bd, hi: &Bd, x: &[u8]) -> bool {
    (match lo { Bd::Incl(b) => x >= &b.bytes()[..], Bd::Excl(b) => x > &b.bytes()[..], Bd::Unb => true })
        && (match hi { Bd::Incl(b) => x <= &b.bytes()[..], Bd::Excl(b) => x < &b.bytes()[..], Bd::Unb => true })
}

fn in_range_enc(lo: &Bd, hi: &Bd, x: u128) -> bool {
    (match lo { Bd::Incl(b) => x >= b.enc(), Bd::Excl(b) => x > b.enc(), Bd::Unb => true })
        && (match hi { Bd::Incl(b) => x <= b.enc(), Bd::Excl(b) => x < b.enc(), Bd::Unb => true })
}

fn eval(q: &Q, d: &MDoc) -> bool {
    match q {
        Q::Term(t) => has_term(d, t.f, &t.bytes()),
        Q::Phrase { f, terms, slop } => {
            let mut ts = terms.clone();
            ts.sort_by_key(|x| x.0);
            let mx = ts.iter().map(|x| x.0).max().unwrap_or(0);
            let adj = adjusted(d, *f, &ts, mx);
            if *slop == 0 {
                adj[0].iter().any(|p| adj[1..].iter().all(|a| a.contains(p)))
            } else {
                adj[0].iter().any(|p| slop_chain(*p, *slop as u64, &adj[1..]))
            }
        }
        Q::JPhrase { terms, slop } => eval(&Q::Phrase { f: F_ATTRS, terms: terms.clone(), slop: *slop }, d),
        Q::JExists(k) => d.fast.iter().any(|(g, _)| match k { Some(k) => *g == F_JSON_FAST0 + *k as u32, None => *g >= F_JSON_FAST0 }),
        Q::JRange { lo, hi } => d.fast.iter().any(|(g, v)| *g == F_JSON_FAST0 + 1
            && lo.map(|(incl, b)| if incl { *v >= i64_enc(b) as u128 } else { *v > i64_enc(b) as u128 }).unwrap_or(true)
            && hi.map(|(incl, b)| if incl { *v <= i64_enc(b) as u128 } else { *v < i64_enc(b) as u128 }).unwrap_or(true)),
        Q::PhrasePrefix { f, terms } => {
            let mut ts = terms.clone();
            ts.sort_by_key(|x| x.0);
            let (po, pre) = ts.pop().unwrap();
            let mx = ts.iter().map(|x| x.0).max().unwrap_or(0).max(po);
            let adj = adjusted(d, *f, &ts, mx);
            let suffix: Vec<u64> = d.postings.iter().filter(|p| p.0 == *f && p.1.starts_with(pre.as_bytes())).flat_map(|p| p.2.iter().map(|x| *x as u64 + (mx - po) as u64)).collect();
            if adj.is_empty() { !suffix.is_empty() } else { suffix.iter().any(|p| adj.iter().all(|a| a.contains(p))) }
        }
        Q::Range { f, lo, hi, fast, .. } => {
            if *fast { d.fast.iter().any(|(g, v)| g == f && in_range_enc(lo, hi, *v)) }
            else { d.postings.iter().any(|p| p.0 == *f && in_range_bytes(lo, hi, &p.1)) }
        }
        Q::TermSet(ts) => ts.iter().any(|t| has_term(d, t.f, &t.bytes())),
        Q::Exists(f) => d.fast.iter().any(|(g, _)| g == f),
        Q::All => true,
        Q::Empty => false,
        Q::Fuzzy { t, d: dist, transp, prefix } => {
            let q: Vec<char> = match &t.v { Val::Str(s) => s.chars().collect(), _ => vec![] };
            d.postings.iter().any(|p| p.0 == t.f && std::str::from_utf8(&p.1).map(|s| edit_distance(&s.chars().collect::<Vec<_>>(), &q, *transp, *prefix) <= *dist as usize).unwrap_or(false))
        }
        Q::Regex { f, re } => d.postings.iter().any(|p| p.0 == *f && std::str::from_utf8(&p.1).map(|s| re.full_match(s)).unwrap_or(false)),
        Q::Boost(q) | Q::Const(q) => eval(q, d),
        Q::DisMax(qs) => qs.iter().any(|q| eval(q, d)),
        Q::Bool(cs, msm) => {
            let msm = msm.unwrap_or_else(|| derived_msm(cs));
            let n_must = cs.iter().filter(|c| c.0 == Oc::Must).count();
            let n_should = cs.iter().filter(|c| c.0 == Oc::Should).count();
            if n_must == 0 && n_should == 0 { return false; }
            let eff = if msm == 0 && n_must == 0 { 1 } else { msm };
            let mut hits = 0;
            for (o, sub) in cs {
                let m = eval(sub, d);
                match o {
                    Oc::Must => if !m { return false; },
                    Oc::MustNot => if m { return false; },
                    Oc::Should => if m { hits += 1; },
                }
            }
            hits >= eff
        }
    }
}

// ---------------------------------------------------------------------------------------------
// running the real code
// ---------------------------------------------------------------------------------------------

#[derive(Debug, Clone, PartialEq)]
enum Out {
    Ids(Vec<u64>),
    Count(u64),
    Err(String),
}

struct RealRun {
    /// (path name, scoring enabled, through `Weight::for_each*` (collector path), output)
    paths: Vec<(&'static str, bool, bool, Out)>,
    unsorted: Option<String>,
}

fn ids_of(searcher: &Searcher, addrs: impl Iterator<Item = tantivy::DocAddress>) -> Vec<u64> {
    let mut v: Vec<u64> = addrs
        .map(|a| searcher.segment_reader(a.segment_ord).fast_fields().u64("id").unwrap().first(a.doc_id).unwrap())
        .collect();
    v.sort();
    v
}

fn run_real(searcher: &Searcher, q: &dyn Query, limit: usize) -> RealRun {
    let mut paths: Vec<(&'static str, bool, bool, Out)> = vec![];
    let e = |r: String| Out::Err(r);
    // Count -> Weight::count -> Weight::scorer
    paths.push(("Count", false, false, match searcher.search(q, &Count) { Ok(c) => Out::Count(c as u64), Err(x) => e(x.to_string()) }));
    // DocSetCollector -> Weight::for_each_no_score
    paths.push(("DocSetCollector", false, true, match searcher.search(q, &DocSetCollector) { Ok(s) => Out::Ids(ids_of(searcher, s.into_iter())), Err(x) => e(x.to_string()) }));
    // TopDocs -> Weight::for_each_pruning
    paths.push(("TopDocs", true, true, match searcher.search(q, &TopDocs::with_limit(limit).order_by_score()) { Ok(v) => Out::Ids(ids_of(searcher, v.into_iter().map(|x| x.1))), Err(x) => e(x.to_string()) }));
    // tuple collector with scoring -> Weight::for_each
    match searcher.search(q, &(TopDocs::with_limit(limit).order_by_score(), DocSetCollector, Count)) {
        Ok((top, set, cnt)) => {
            paths.push(("(TopDocs,_,_)", true, true, Out::Ids(ids_of(searcher, top.into_iter().map(|x| x.1)))));
            paths.push(("(_,DocSet,_) scoring", true, true, Out::Ids(ids_of(searcher, set.into_iter()))));
            paths.push(("(_,_,Count) scoring", true, true, Out::Count(cnt as u64)));
        }
        Err(x) => paths.push(("(TopDocs,DocSet,Count)", true, true, e(x.to_string()))),
    }
    // MultiCollector without / with a scoring collector
    {
        let mut mc = MultiCollector::new();
        let h_set = mc.add_collector(DocSetCollector);
        let h_cnt = mc.add_collector(Count);
        match searcher.search(q, &mc) {
            Ok(mut fruits) => {
                paths.push(("MultiCollector[DocSet]", false, true, Out::Ids(ids_of(searcher, h_set.extract(&mut fruits).into_iter()))));
                paths.push(("MultiCollector[Count]", false, true, Out::Count(h_cnt.extract(&mut fruits) as u64)));
            }
            Err(x) => paths.push(("MultiCollector", false, true, e(x.to_string()))),
        }
        let mut mc = MultiCollector::new();
        let h_top = mc.add_collector(TopDocs::with_limit(limit).order_by_score());
        let h_set = mc.add_collector(DocSetCollector);
        match searcher.search(q, &mc) {
            Ok(mut fruits) => {
                paths.push(("MultiCollector[TopDocs] scoring", true, true, Out::Ids(ids_of(searcher, h_top.extract(&mut fruits).into_iter().map(|x| x.1)))));
                paths.push(("MultiCollector[DocSet] scoring", true, true, Out::Ids(ids_of(searcher, h_set.extract(&mut fruits).into_iter()))));
            }
            Err(x) => paths.push(("MultiCollector scoring", true, true, e(x.to_string()))),
        }
    }
    // FilterCollector on the fast field `num` (documents without a value are filtered out)
    paths.push((FILTERED, false, true, match searcher.search(q, &FilterCollector::new("num".to_string(), filter_pred, DocSetCollector)) { Ok(s) => Out::Ids(ids_of(searcher, s.into_iter())), Err(x) => e(x.to_string()) }));
    paths.push(("Query::count", false, false, match q.count(searcher) { Ok(c) => Out::Count(c as u64), Err(x) => e(x.to_string()) }));
    let mut unsorted = None;
    for (name, cname, scoring) in [("Weight::scorer disabled_from_searcher", "Weight::count disabled_from_searcher", false), ("Weight::scorer enabled_from_searcher", "Weight::count enabled_from_searcher", true)] {
        let es = if scoring { EnableScoring::enabled_from_searcher(searcher) } else { EnableScoring::disabled_from_searcher(searcher) };
        match q.weight(es) {
            Err(x) => paths.push((name, scoring, false, e(x.to_string()))),
            Ok(w) => {
                let mut ids = vec![];
                let mut cnt = 0u64;
                let mut err = None;
                for r in searcher.segment_readers() {
                    match w.scorer(r, 1.0) {
                        Err(x) => { err = Some(x.to_string()); break; }
                        Ok(mut sc) => {
                            let col = r.fast_fields().u64("id").unwrap();
                            let mut d = sc.doc();
                            let mut prev: Option<u32> = None;
                            while d != TERMINATED {
                                if prev.map(|p| p >= d).unwrap_or(false) || d >= r.max_doc() {
                                    unsorted = Some(format!("{name}: doc {d} after {:?} (max_doc {})", prev, r.max_doc()));
                                    break;
                                }
                                prev = Some(d);
                                if !r.is_deleted(d) {
                                    ids.push(col.first(d).unwrap());
                                }
                                d = sc.advance();
                            }
                        }
                    }
                    match w.count(r) {
                        Ok(c) => cnt += c as u64,
                        Err(x) => { err = Some(x.to_string()); break; }
                    }
                }
                ids.sort();
                match err {
                    Some(x) => paths.push((name, scoring, false, e(x))),
                    None => {
                        paths.push((name, scoring, false, Out::Ids(ids)));
                        paths.push((cname, scoring, false, Out::Count(cnt)));
                    }
                }
            }
        }
    }
    RealRun { paths, unsorted }
}

const FILTERED: &str = "FilterCollector(num)[DocSet]";

fn filter_pred(v: u64) -> bool {
    v % 3 != 1 && v < (1u64 << 63)
}

fn parse_ids(s: &str) -> Vec<u64> {
    let mut v = crate::model::parse_nat_list(s).unwrap_or_default();
    v.sort();
    v
}

fn agrees_plain(o: &Out, ids: &[u64]) -> bool {
    match o {
        Out::Ids(v) => v == ids,
        Out::Count(c) => *c as usize == ids.len(),
        Out::Err(_) => false,
    }
}

fn short(ids: &[u64]) -> String {
    if ids.len() <= 12 { format!("{:?}", ids) } else { format!("{:?}… ({} ids)", &ids[..12], ids.len()) }
}

fn vocab_of(b: &Built) -> HashMap<u32, BTreeSet<Vec<u8>>> {
    let mut v: HashMap<u32, BTreeSet<Vec<u8>>> = HashMap::new();
    for d in b.by_id.values() {
        for (f, t, _) in &d.postings {
            v.entry(*f).or_default().insert(t.clone());
        }
    }
    v
}

/// Which recorded deviation is *active* for this query on this corpus: for every sub-query that
/// falsifies a named hypothesis (single-clause msm node, ≥3-term sloppy phrase, fuzzy prefix leaf)
/// the implementation model and the specification are evaluated on the sub-query alone; the
/// hypothesis is active iff they differ there. Returns the attribution key of the first active
/// kind (None: no recorded deviation can explain a failure of this query).
fn active_deviation(ctx: &mut Ctx, cl: &str, vocab: &HashMap<u32, BTreeSet<Vec<u8>>>, q: &Q) -> Option<&'static str> {
    let mut subs: Vec<(&'static str, Q)> = vec![];
    fn walk(q: &Q, subs: &mut Vec<(&'static str, Q)>) {
        match q {
            Q::Bool(cs, Some(m)) if cs.len() == 1 && cs[0].0 == Oc::Should && *m >= 2 => subs.push((K_F4, q.clone())),
            Q::Bool(cs, Some(m)) if cs.len() == 1 && cs[0].0 == Oc::Must && *m >= 1 => subs.push((K_F4M, q.clone())),
            Q::Phrase { terms, slop, .. } | Q::JPhrase { terms, slop } if terms.len() >= 3 && *slop >= 1 => subs.push((K_S6, q.clone())),
            Q::Fuzzy { prefix: true, .. } => subs.push((K_FZP, q.clone())),
            _ => {}
        }
        match q {
            Q::Boost(x) | Q::Const(x) => walk(x, subs),
            Q::DisMax(qs) => qs.iter().for_each(|x| walk(x, subs)),
            Q::Bool(cs, _) => cs.iter().for_each(|(_, x)| walk(x, subs)),
            _ => {}
        }
    }
    walk(q, &mut subs);
    if subs.is_empty() { return None; }
    let joined = subs.iter().map(|(_, x)| x.model_str(vocab)).collect::<Vec<_>>().join(" ");
    let split = |s: String| -> Vec<String> { s.split(';').map(|x| x.to_string()).collect() };
    let ans = split(ctx.model.ask(&format!("C03 answer {cl} {joined}")));
    let on = split(ctx.model.ask(&format!("C03 search 1 0 {cl} {joined}")));
    let off = split(ctx.model.ask(&format!("C03 search 0 0 {cl} {joined}")));
    let top = split(ctx.model.ask(&format!("C03 search 0 1 {cl} {joined}")));
    if ans.len() != subs.len() || on.len() != subs.len() || off.len() != subs.len() || top.len() != subs.len() { return None; }
    let mut active: Vec<&'static str> = vec![];
    for (i, (k, _)) in subs.iter().enumerate() {
        let (a, n, f, t) = (parse_ids(&ans[i]), parse_ids(&on[i]), parse_ids(&off[i]), parse_ids(&top[i]));
        if n != a || f != a || t != a {
            active.push(if *k == K_S6 { if n != f { K_S6 } else { K_S6B } } else { k });
        }
    }
    for k in [K_F4, K_F4M, K_S6, K_S6B, K_FZP] {
        if active.contains(&k) { return Some(k); }
    }
    None
}

/// does the single-clause branch of BooleanWeight::scorer honour minimum_number_should_match?
/// (the extractor reads the guard from the source; the model reports it with `C03 guard`) —
/// when it does, the F4 hypotheses are void and single-clause booleans are checked like any other
static SINGLE_GUARD: std::sync::atomic::AtomicBool = std::sync::atomic::AtomicBool::new(false);

static LAST_PANIC: std::sync::Mutex<String> = std::sync::Mutex::new(String::new());

fn last_panic() -> String {
    LAST_PANIC.lock().map(|s| s.clone()).unwrap_or_default()
}

fn out_str(o: &Out) -> String {
    match o { Out::Ids(v) => short(v), Out::Count(c) => format!("count {c}"), Out::Err(e) => format!("error {e}") }
}

/// evaluate a batch of queries on one built corpus
fn check_queries(ctx: &mut Ctx, spec: &CorpusSpec, b: &Built, qs: &[Q]) {
    if qs.is_empty() { return; }
    let vocab = vocab_of(b);
    let cl = corpus_line(b);
    let qstrs: Vec<String> = qs.iter().map(|q| q.model_str(&vocab)).collect();
    let joined = qstrs.join(" ");
    let split = |s: String| -> Vec<String> { s.split(';').map(|x| x.to_string()).collect() };
    let ans = split(ctx.model.ask(&format!("C03 answer {cl} {joined}")));
    // implementation model, indexed [scoring][top]
    let mut m: [[Vec<String>; 2]; 2] = Default::default();
    for sc in 0..2 {
        for top in 0..2 {
            m[sc][top] = split(ctx.model.ask(&format!("C03 search {sc} {top} {cl} {joined}")));
        }
    }
    let mcount = split(ctx.model.ask(&format!("C03 count {cl} {joined}")));
    // the named hypotheses of C03_compile_sound_partial, evaluated by the model on each query
    let mok = split(ctx.model.ask(&format!("C03 ok {joined}")));
    // … and the hypotheses on the corpus (alive bitset covers the documents, positions increasing)
    if ctx.model.ask(&format!("C03 wf {cl}")) != "1" {
        ctx.report.violation("model", "C03:corpus-not-well-formed-for-the-theorems", "the analysed corpus violates Seg.wf / DocsWf (positions not increasing?)".into(), json!({"kind": "corpus", "corpus": spec}));
    }
    let n_docs: usize = b.segs.iter().map(|s| s.len()).sum();
    let n_live = b.expected_live.len();
    let multi = b.segs.len() >= 2 || b.segs.iter().any(|s| s.iter().any(|d| !d.1));
    for (i, q) in qs.iter().enumerate() {
        let case = json!({"kind": "query", "corpus": spec, "query": q});
        if ans.len() != qs.len() || m.iter().flatten().any(|v| v.len() != qs.len()) || mcount.len() != qs.len() {
            ctx.report.violation("model", "C03:model-rejected-request", format!("model answered {:?} / {:?} for {}", ans.get(0), m[0][0].get(0), qstrs[i]), case);
            return;
        }
        let spec_ids = parse_ids(&ans[i]);
        let mi: [[Vec<u64>; 2]; 2] = [[parse_ids(&m[0][0][i]), parse_ids(&m[0][1][i])], [parse_ids(&m[1][0][i]), parse_ids(&m[1][1][i])]];
        // native evaluation
        let mut native: Vec<u64> = b.segs.iter().flat_map(|s| s.iter()).filter(|(d, alive)| *alive && eval(q, d)).map(|(d, _)| d.id).collect();
        native.sort();
        let mut kinds = BTreeSet::new();
        q.kinds(&mut kinds);
        for k in &kinds { ctx.report.count(&format!("leaf:{k}")); }
        ctx.report.count(&format!("depth:{}", q.depth()));
        let nontrivial = multi && q.depth() >= 2 && !spec_ids.is_empty() && spec_ids.len() < n_live;
        ctx.report.case(&format!("{}|{}", cl.len(), qstrs[i]), nontrivial);
        if native != spec_ids {
            ctx.report.violation("model", "C03:native-evaluator-vs-lean-spec", format!("native {} vs lean answer {} for {}", short(&native), short(&spec_ids), qstrs[i]), case.clone());
            continue;
        }
        let real = match catch_unwind(AssertUnwindSafe(|| run_real(&b.searcher, q.real().as_ref(), n_docs + 1))) {
            Ok(r) => r,
            Err(_) => {
                let msg = last_panic();
                // narrow attribution: the debug assertion `target >= self.doc()` of
                // PhraseScorer::seek_danger fired on a phrase scorer used as an exclusion set
                // (Exclude::contains seeks it to a target behind its current document)
                let key = if msg.contains("phrase_scorer.rs") && msg.contains("should be greater than or equal to doc (") && q.sig_excluded_phrase() { K_PANIC_PHRASE }
                    // bound_range_inclusive_ip: `Excluded(0)` as upper / `Excluded(u128::MAX)` as lower bound
                    else if msg.contains("range_query_fastfield.rs") && msg.contains("with overflow") && q.sig_ip_overflow() { K_IP_OVERFLOW }
                    // RangeDocSet::is_last_seek_distance_large: `new_seek - last_seek_pos` when an excluded
                    // fast-field range docset is asked (seek_danger) for a target behind its last seek
                    else if msg.contains("fast_field_range_doc_set.rs") && msg.contains("subtract with overflow") && q.sig_excluded_fast_range() { K_RANGE_UNDERFLOW }
                    // block_wand_intersection slices the leader's (empty) freq array: a conjunction of term
                    // queries one of which is a numeric JSON term read with frequencies
                    else if msg.contains("block_wand_intersection.rs") && msg.contains("out of range for slice of length 0") && q.sig_must_json_int() { K_BWI_JSON }
                    else { "C03:panic" };
                ctx.report.violation("oracle", key, format!("search panicked ({}) for {}", msg, qstrs[i]), case);
                continue;
            }
        };
        if let Some(u) = &real.unsorted {
            ctx.report.violation("oracle", "C03:scorer-not-sorted", u.clone(), case.clone());
        }
        if std::env::var("C03_DEBUG").is_ok() {
            for p in &real.paths {
                if let Out::Ids(v) = &p.3 {
                    let diff: Vec<u64> = v.iter().filter(|i| !spec_ids.contains(i)).chain(spec_ids.iter().filter(|i| !v.contains(i))).cloned().collect();
                    if !diff.is_empty() && p.0 == "DocSetCollector" {
                        let docs: Vec<String> = diff.iter().map(|id| format!("{id}: {:?}", b.by_id.get(id).map(|d| d.postings.iter().map(|(f, t, ps)| format!("{f}:{}:{:?}", String::from_utf8_lossy(t), ps)).collect::<Vec<_>>()))).collect();
                        ctx.report.notes.push(format!("DEBUG {} differs on {:?} for {}", p.0, docs, qstrs[i]));
                    }
                }
            }
        }
        let (f4, f4m, s6) = (q.sig_f4(), q.sig_f4m(), q.sig_s6());
        let fzp = q.sig_fzp();
        if mok.get(i).map(|s| s == "0").unwrap_or(false) != (f4 || f4m || s6 || fzp) {
            ctx.report.violation("model", "C03:okq-vs-harness-signature", format!("model okQ = {:?} but harness signatures f4={f4} f4m={f4m} s6={s6} fuzzy-prefix={fzp} for {}", mok.get(i), qstrs[i]), case.clone());
        }
        // the FilterCollector path keeps only documents whose `num` satisfies the predicate
        let keep = |id: &u64| b.by_id.get(id).map(|d| d.fast.iter().any(|(f, v)| *f == F_NUM && filter_pred(*v as u64))).unwrap_or(false);
        let filt = |name: &str, ids: &Vec<u64>| -> Vec<u64> { if name == FILTERED { ids.iter().filter(|i| keep(i)).cloned().collect() } else { ids.clone() } };
        let agrees = |name: &str, o: &Out, ids: &Vec<u64>| -> bool { agrees_plain(o, &filt(name, ids)) };
        let off_ref = real.paths.iter().find(|p| !p.1 && matches!(p.3, Out::Ids(_))).map(|p| p.3.clone());
        let all_ok = real.paths.iter().all(|p| !matches!(p.3, Out::Err(_)));
        // does the implementation model (which mirrors exactly the recorded deviations: the
        // single-clause shortcut and the two slop algorithms) reproduce every real path?
        let impl_explains = real.paths.iter().all(|p| agrees(p.0, &p.3, &mi[p.1 as usize][p.2 as usize]));
        // a failure is attributed to a recorded deviation only if (1) the implementation model
        // reproduces every real path and (2) that deviation is active on this corpus (computed
        // lazily, only when some path fails)
        let fails = real.paths.iter().any(|p| !matches!(p.3, Out::Err(_)) && !agrees(p.0, &p.3, &spec_ids))
            || real.paths.iter().any(|p| match (&p.3, &off_ref) { (Out::Err(_), _) => false, (o, Some(Out::Ids(r))) => !agrees(p.0, o, r), _ => false });
        let attributed: Option<&'static str> = if fails && impl_explains && (f4 || f4m || s6 || fzp) { active_deviation(ctx, &cl, &vocab, q) } else { None };
        let known_key = |_differs_from_spec: bool| -> Option<&'static str> { attributed };
        for (name, scoring, top, out) in &real.paths {
            ctx.report.count(&format!("path:{name}"));
            if let Out::Err(e) = out {
                ctx.report.violation("oracle", "C03:unexpected-error", format!("{name}: {e} for {}", qstrs[i]), case.clone());
                continue;
            }
            let model_ids = &mi[*scoring as usize][*top as usize];
            if !agrees(name, out, &spec_ids) {
                let what = format!("{name} (scoring {}) gives {}, brute force gives {} for {}", if *scoring { "on" } else { "off" }, out_str(out), short(&spec_ids), qstrs[i]);
                let key = known_key(true).unwrap_or("C03:result-differs-from-brute-force");
                ctx.report.violation("oracle", key, what, case.clone());
            }
            if !agrees(name, out, model_ids) {
                ctx.report.violation("model", "C03:compile-model-vs-implementation", format!("{name}: real {} but compile model gives {} for {}", out_str(out), short(model_ids), qstrs[i]), case.clone());
            }
        }
        // consistency clause, checked as stated: all paths give the same set
        if all_ok {
            if let Some(Out::Ids(ref_ids)) = &off_ref {
                for p in &real.paths {
                    if !agrees(p.0, &p.3, ref_ids) {
                        let key = known_key(false).unwrap_or(if p.1 { "C03:scoring-on-off-differ" } else { "C03:collectors-disagree" });
                        ctx.report.violation("oracle", key, format!("{} gives {} but DocSetCollector gives {} for {}", p.0, out_str(&p.3), short(ref_ids), qstrs[i]), case.clone());
                    }
                }
            }
        }
        // Weight::count model (count shortcut incl. deletes)
        if let Some((_, _, _, Out::Count(c))) = real.paths.iter().find(|p| p.0 == "Query::count") {
            if mcount[i] != c.to_string() {
                ctx.report.violation("model", "C03:count-model-vs-implementation", format!("Query::count {c} vs model weightCount {} for {}", mcount[i], qstrs[i]), case.clone());
            }
        }
        if f4 || f4m { ctx.report.count("signature:single-clause-msm"); }
        if s6 { ctx.report.count("signature:phrase-3terms-slop"); }
        if ctx.report.samples.len() < 4 && nontrivial {
            ctx.report.sample(json!({"segments": b.segs.iter().map(|s| s.len()).collect::<Vec<_>>(), "deleted": n_docs - b.segs.iter().map(|s| s.iter().filter(|d| d.1).count()).sum::<usize>(), "query": format!("{:?}", q), "model_query": qstrs[i], "answer": spec_ids, "paths_compared": real.paths.iter().map(|p| p.0).collect::<Vec<_>>()}));
        }
    }
}

// ---------------------------------------------------------------------------------------------
// generators
// ---------------------------------------------------------------------------------------------

const WORDS: [&str; 24] = ["a", "b", "c", "d", "aa", "ab", "abc", "abd", "b1", "alpha", "alp", "alpine", "beta", "bet", "gamma", "x", "y", "zz", "naïve", "straße", "日本", "日本語", "ça", "élan"];
const CATS: [&str; 7] = ["a", "ab", "abc", "b", "B", "zz", "ünï"];
const TAGS: [&str; 8] = ["red", "green", "blue", "re", "Red Blue", "", "gr een", "ünï"];

fn boundary_u64(rng: &mut Rng) -> u64 {
    *rng.pick(&[0u64, 1, 2, 127, 128, 129, 255, 256, 4095, 4096, 4097, 65535, 65536, u32::MAX as u64, (1u64 << 63) - 1, 1u64 << 63, (1u64 << 63) + 1, u64::MAX - 1, u64::MAX, 7, 8, 9, 10, 100])
}
fn boundary_i64(rng: &mut Rng) -> i64 {
    *rng.pick(&[i64::MIN, i64::MIN + 1, -4097, -4096, -256, -129, -128, -2, -1, 0, 1, 2, 127, 128, 255, 256, 4096, i64::MAX - 1, i64::MAX, -7, 7, 10, -10])
}
fn boundary_f64(rng: &mut Rng) -> u64 {
    rng.pick(&[f64::NEG_INFINITY, f64::MIN, -1e300, -2.5, -1.0, -f64::MIN_POSITIVE, -0.0, 0.0, f64::MIN_POSITIVE, 5e-324, 0.5, 1.0, 1.5, 2.0, 1e10, f64::MAX, f64::INFINITY, 3.25, -3.25]).to_bits()
}
fn boundary_secs(rng: &mut Rng) -> i64 {
    *rng.pick(&[-9_000_000_000i64, -86_400, -1, 0, 1, 59, 60, 86_400, 1_000_000_000, 1_700_000_000, 4_000_000_000, 9_000_000_000])
}
fn boundary_ip(rng: &mut Rng) -> u128 {
    *rng.pick(&[0u128, u128::MAX, 1u128, 2, 255, 256, 0xffff_7f00_0001, 0xffff_c0a8_0001, 0xffff_ffff_ffff, 1u128 << 64, (1u128 << 64) + 1, 1u128 << 127, u128::MAX - 1, 0x2001_0db8u128 << 96])
}

fn gen_text(rng: &mut Rng, heavy: &str) -> String {
    let n = match rng.below(10) { 0 => 0, 1 => 1, 2..=6 => 2 + rng.usize_below(5), _ => 6 + rng.usize_below(10) };
    let mut ws: Vec<&str> = vec![];
    for _ in 0..n {
        // skewed vocabulary: small indices are frequent
        let k = (rng.usize_below(WORDS.len()) * rng.usize_below(WORDS.len() + 1)) / WORDS.len();
        ws.push(WORDS[k.min(WORDS.len() - 1)]);
    }
    if !heavy.is_empty() {
        ws.insert(rng.usize_below(ws.len() + 1), heavy);
    }
    let seps = [" ", "  ", ", ", " - ", ". "];
    let mut s = String::new();
    for (i, w) in ws.iter().enumerate() {
        if i > 0 { let sep: &str = seps[rng.usize_below(seps.len())]; s.push_str(sep); }
        if rng.chance(1, 9) { s.push_str(&w.to_uppercase()); } else { s.push_str(w); }
    }
    s
}

fn gen_doc(rng: &mut Rng, id: u64, profile: u64) -> DocSpec {
    let mut d = DocSpec { id, ..Default::default() };
    // profile 1: every doc carries the word "all" (term present in all docs); profile 2: sparse
    let heavy = if profile == 1 { "every" } else { "" };
    let p = |rng: &mut Rng, num: u64| rng.chance(num, 10);
    if profile == 1 || p(rng, 9) { d.body = Some(gen_text(rng, heavy)); }
    if p(rng, 6) { d.title = Some(gen_text(rng, "")); }
    if p(rng, 7) { d.tag = Some(rng.pick(&TAGS).to_string()); }
    if p(rng, if profile == 3 { 10 } else { 7 }) { d.num = Some(if rng.chance(1, 2) { boundary_u64(rng) } else { rng.below(20) }); }
    if p(rng, 7) { d.inum = Some(if rng.chance(1, 2) { boundary_i64(rng) } else { rng.below(20) as i64 - 10 }); }
    if p(rng, 6) { d.score = Some(boundary_f64(rng)); }
    if p(rng, 6) { d.when = Some(boundary_secs(rng)); }
    if p(rng, 5) { d.ip = Some(boundary_ip(rng).to_string()); }
    if p(rng, 5) { d.flag = Some(rng.chance(1, 2)); }
    if p(rng, 4) { d.blob = Some(match rng.below(4) { 0 => vec![], 1 => vec![0], 2 => vec![0xff, 0], _ => { let k = 1 + rng.usize_below(3); rng.bytes(k) } }); }
    if p(rng, 6) { d.ifast = Some(boundary_i64(rng)); }
    if p(rng, 6) { d.cat = Some(rng.pick(&CATS).to_string()); }
    if p(rng, 6) {
        // flat object with distinct keys; every key holds one type across the corpus
        let mut attrs = vec![];
        if p(rng, 7) { attrs.push((0usize, JVal::Str(gen_text(rng, "")))); }
        if p(rng, 7) { attrs.push((1usize, JVal::Int(if rng.chance(1, 2) { boundary_i64(rng) } else { rng.below(12) as i64 - 6 }))); }
        if p(rng, 4) { attrs.push((2usize, JVal::Bool(rng.chance(1, 2)))); }
        d.attrs = Some(attrs);
    }
    d
}

fn gen_corpus(rng: &mut Rng, size_class: u64) -> CorpusSpec {
    let n = match size_class {
        0 => *rng.pick(&[0usize, 1, 2, 3, 5, 8]),
        1 => 10 + rng.usize_below(50),
        2 => *rng.pick(&[127usize, 128, 129, 130, 200, 257]),
        _ => *rng.pick(&[4095usize, 4097, 4200]),
    };
    let profile = rng.below(4);
    let mut docs: Vec<DocSpec> = (0..n).map(|i| gen_doc(rng, 1000 + i as u64, profile)).collect();
    if size_class >= 3 {
        // narrow documents: keep the request lines small
        for d in docs.iter_mut() {
            d.title = None;
            if let Some(b) = &d.body {
                d.body = Some(b.split_whitespace().take(3).collect::<Vec<_>>().join(" "));
            }
        }
    }
    let nseg = 1 + rng.usize_below(6);
    let mut chunks = vec![];
    let mut left = n;
    for s in 0..nseg {
        let c = if s + 1 == nseg { left } else if left == 0 { 0 } else {
            match rng.below(4) { 0 => 1.min(left), 1 => (left / 2).max(1), _ => 1 + rng.usize_below(left) }
        };
        if c > 0 { chunks.push(c); }
        left -= c;
    }
    if chunks.is_empty() { chunks.push(0); }
    let cut = if rng.chance(1, 4) && n > 4 { (2 + rng.usize_below(n / 2)) as u32 } else { 0 };
    let mut deletes = vec![];
    if n > 0 && rng.chance(2, 3) {
        let nd = match rng.below(4) { 0 => 1, 1 => n / 2, 2 => (n / 10).max(1), _ => rng.usize_below(n) };
        for _ in 0..nd {
            let id = 1000 + rng.below(n as u64);
            // a document can only be deleted after the commit that contains it
            let mut acc = 0;
            let mut first = 0;
            for (ci, c) in chunks.iter().enumerate() {
                acc += c;
                if (id - 1000) < acc as u64 { first = ci; break; }
            }
            let at = first + rng.usize_below(chunks.len() - first);
            deletes.push((at, id));
        }
    }
    CorpusSpec { docs, chunks, cut, deletes, merge: rng.chance(1, 5) }
}

struct Pools {
    words: Vec<String>,
    tags: Vec<String>,
    /// body token sequences (by position) of a sample of documents: phrases taken from them match
    seqs: Vec<Vec<String>>,
    /// the most frequent body words (cheap drivers for conjunctions / exclusions)
    freq: Vec<String>,
}

/// consecutive tokens of some document (so that the phrase occurs at least once)
fn seq_terms(rng: &mut Rng, pools: &Pools, n: usize) -> Option<Vec<String>> {
    let cands: Vec<&Vec<String>> = pools.seqs.iter().filter(|s| s.len() >= n).collect();
    if cands.is_empty() { return None; }
    let s = cands[rng.usize_below(cands.len())];
    let at = rng.usize_below(s.len() - n + 1);
    Some(s[at..at + n].to_vec())
}

fn text_term(rng: &mut Rng, f: u32, pools: &Pools) -> TermS {
    let s = if f == F_TAG {
        if rng.chance(1, 8) { "absent".to_string() } else { rng.pick(&pools.tags).clone() }
    } else if f == F_CAT {
        if rng.chance(1, 8) { "aa".to_string() } else { rng.pick(&CATS).to_string() }
    } else if rng.chance(1, 10) { "absentword".to_string() } else { rng.pick(&pools.words).clone() };
    TermS { f, v: Val::Str(s) }
}

fn typed_val(rng: &mut Rng, f: u32) -> TermS {
    let v = match f {
        F_NUM | F_ID => Val::U64(if f == F_ID { 1000 + rng.below(70) } else if rng.chance(1, 2) { boundary_u64(rng) } else { rng.below(20) }),
        F_INUM | F_IFAST => Val::I64(if rng.chance(1, 2) { boundary_i64(rng) } else { rng.below(20) as i64 - 10 }),
        F_SCORE => Val::F64(boundary_f64(rng)),
        F_WHEN => Val::Date(boundary_secs(rng)),
        F_IP => Val::Ip(boundary_ip(rng).to_string()),
        F_FLAG => Val::Bool(rng.chance(1, 2)),
        _ => Val::Bytes(match rng.below(3) { 0 => vec![], 1 => vec![0], _ => vec![0xff, 0] }),
    };
    TermS { f, v }
}

fn gen_re(rng: &mut Rng, depth: u32, pools: &Pools) -> Re {
    let chars: Vec<char> = "abcdelpx1zïß日本".chars().collect();
    match if depth == 0 { rng.below(3) } else { rng.below(9) } {
        0 => Re::Lit(*rng.pick(&chars)),
        1 => Re::Any,
        2 => { let n = 1 + rng.usize_below(3); Re::Class((0..n).map(|_| *rng.pick(&chars)).collect()) }
        3 | 4 => {
            // a vocabulary word, possibly cut, followed by something
            let w: Vec<char> = rng.pick(&pools.words).chars().collect();
            let cut = rng.usize_below(w.len() + 1);
            let mut v: Vec<Re> = w[..cut].iter().map(|c| Re::Lit(*c)).collect();
            v.push(gen_re(rng, depth - 1, pools));
            Re::Seq(v)
        }
        5 => Re::Alt((0..2 + rng.usize_below(2)).map(|_| gen_re(rng, depth - 1, pools)).collect()),
        6 => Re::Star(Box::new(gen_re(rng, depth - 1, pools))),
        7 => Re::Plus(Box::new(gen_re(rng, depth - 1, pools))),
        _ => Re::Opt(Box::new(gen_re(rng, depth - 1, pools))),
    }
}

fn gen_bounds(rng: &mut Rng, mk: &mut dyn FnMut(&mut Rng) -> TermS) -> (Bd, Bd) {
    let mut b = |rng: &mut Rng| match rng.below(5) { 0 => Bd::Unb, 1 | 2 => Bd::Incl(mk(rng)), _ => Bd::Excl(mk(rng)) };
    let (lo, hi) = (b(rng), b(rng));
    if lo == Bd::Unb && hi == Bd::Unb { (Bd::Incl(mk(rng)), Bd::Unb) } else { (lo, hi) }
}

fn gen_leaf(rng: &mut Rng, pools: &Pools) -> Q {
    match rng.below(28) {
        0..=5 => { let f = *rng.pick(&[F_BODY, F_BODY, F_BODY, F_TITLE, F_TAG, F_CAT]); Q::Term(text_term(rng, f, pools)) }
        6 => { let f = *rng.pick(&[F_NUM, F_INUM, F_WHEN, F_IP, F_FLAG, F_BLOB, F_IFAST, F_ID]); Q::Term(typed_val(rng, f)) }
        7..=9 => {
            let wide = rng.chance(1, 4); let n = 2 + rng.usize_below(if wide { 3 } else { 1 });
            let mut off = 0usize;
            let from_doc = if rng.chance(1, 2) { seq_terms(rng, pools, n) } else { None };
            let terms = (0..n).map(|i| { let o = off; off += 1 + (rng.below(5) == 0 && from_doc.is_none()) as usize; (o, match &from_doc { Some(ws) => ws[i].clone(), None => rng.pick(&pools.words).clone() }) }).collect::<Vec<_>>();
            let slop = if rng.chance(1, 2) { 0 } else { 1 + rng.below(3) as u32 };
            Q::Phrase { f: F_BODY, terms, slop }
        }
        10 | 11 => {
            let n = 1 + rng.usize_below(3);
            let from_doc = if rng.chance(2, 3) { seq_terms(rng, pools, n) } else { None };
            let mut terms: Vec<(usize, String)> = (0..n).map(|i| (i, match &from_doc { Some(ws) => ws[i].clone(), None => rng.pick(&pools.words).clone() })).collect();
            let last = terms.last_mut().unwrap();
            let cs: Vec<char> = last.1.chars().collect();
            last.1 = cs[..1 + rng.usize_below(cs.len())].iter().collect();
            Q::PhrasePrefix { f: F_BODY, terms }
        }
        12..=16 => {
            // ranges: fast path on fast fields, term dictionary path otherwise
            let (f, fast, inverted) = *rng.pick(&[(F_NUM, true, false), (F_NUM, false, true), (F_INUM, false, false), (F_SCORE, true, false), (F_WHEN, true, false), (F_IP, true, false), (F_IFAST, true, false), (F_IFAST, false, true), (F_TAG, false, false), (F_BODY, false, false), (F_WHEN, false, true), (F_ID, true, false), (F_CAT, false, false), (F_CAT, false, true)]);
            let (lo, hi) = if f == F_TAG || f == F_BODY || f == F_CAT {
                gen_bounds(rng, &mut |r| text_term(r, f, pools))
            } else {
                gen_bounds(rng, &mut |r| typed_val(r, f))
            };
            Q::Range { f, lo, hi, fast, inverted }
        }
        17 | 18 => {
            let n = rng.usize_below(5);
            Q::TermSet((0..n).map(|_| if rng.chance(1, 3) { let f = *rng.pick(&[F_NUM, F_INUM]); typed_val(rng, f) } else { let f = *rng.pick(&[F_BODY, F_TAG, F_TITLE]); text_term(rng, f, pools) }).collect())
        }
        19 | 20 => Q::Exists(*rng.pick(&[F_NUM, F_SCORE, F_WHEN, F_IP, F_BLOB, F_IFAST, F_ID, F_CAT])),
        21 => if rng.chance(1, 2) { Q::All } else {
            // JSON leaves
            match rng.below(5) {
                0 => Q::Term(TermS { f: F_ATTRS, v: Val::JStr(0, if rng.chance(1, 8) { "absent".into() } else { rng.pick(&pools.words).clone() }) }),
                1 => Q::Term(TermS { f: F_ATTRS, v: Val::JInt(1, if rng.chance(1, 2) { boundary_i64(rng) } else { rng.below(12) as i64 - 6 }) }),
                2 => {
                    let n = 2 + rng.usize_below(2);
                    Q::JPhrase { terms: (0..n).map(|i| (i, rng.pick(&pools.words).clone())).collect(), slop: if rng.chance(2, 3) { 0 } else { 1 + rng.below(2) as u32 } }
                }
                3 => Q::JExists(if rng.chance(1, 3) { None } else { Some(rng.usize_below(N_QUERY_KEYS)) }),
                _ => {
                    let mut b = |rng: &mut Rng| match rng.below(4) { 0 => None, _ => Some((rng.chance(1, 2), if rng.chance(1, 3) { boundary_i64(rng) } else { rng.below(12) as i64 - 6 })) };
                    let (lo, hi) = (b(rng), b(rng));
                    if lo.is_none() && hi.is_none() { Q::JRange { lo: Some((true, 0)), hi: None } } else { Q::JRange { lo, hi } }
                }
            }
        },
        22 => Q::Empty,
        23..=25 => {
            let f = *rng.pick(&[F_BODY, F_BODY, F_TAG]);
            let mut t = text_term(rng, f, pools);
            if let Val::Str(s) = &mut t.v {
                // perturb the word
                let mut cs: Vec<char> = s.chars().collect();
                match rng.below(5) {
                    0 if !cs.is_empty() => { cs.remove(rng.usize_below(cs.len())); }
                    1 => { cs.insert(rng.usize_below(cs.len() + 1), *rng.pick(&['a', 'b', 'z', 'ï'])); }
                    2 if cs.len() >= 2 => { let i = rng.usize_below(cs.len() - 1); cs.swap(i, i + 1); }
                    3 if !cs.is_empty() => { let i = rng.usize_below(cs.len()); cs[i] = *rng.pick(&['a', 'c', 'q', '本']); }
                    _ => {}
                }
                *s = cs.into_iter().collect();
            }
            Q::Fuzzy { t, d: rng.below(3) as u8, transp: rng.chance(1, 2), prefix: rng.chance(1, 3) }
        }
        _ => Q::Regex { f: *rng.pick(&[F_BODY, F_TAG]), re: gen_re(rng, 2, pools) },
    }
}

/// leaves whose scorer is a bare `AllScorer` when the column / term covers the whole segment
fn all_like_leaf(rng: &mut Rng, pools: &Pools) -> Q {
    match rng.below(5) {
        0 => Q::All,
        1 => Q::Exists(F_ID),
        2 => Q::Range { f: F_ID, lo: Bd::Incl(TermS { f: F_ID, v: Val::U64(0) }), hi: Bd::Unb, fast: true, inverted: false },
        3 => Q::Exists(F_NUM),
        _ => Q::Term(TermS { f: F_BODY, v: Val::Str(if rng.chance(1, 2) { "every".into() } else { rng.pick(&pools.freq).clone() }) }),
    }
}

/// seek-driven contexts for a leaf: the leaf next to another MUST clause (Intersection,
/// go_to_first_doc, seek / seek_danger), as a MUST_NOT clause (Exclude), and next to another
/// positional leaf; drivers are frequent terms so that consecutive candidate documents occur
fn context_queries(rng: &mut Rng, pools: &Pools, leaf: &Q) -> Vec<Q> {
    let freq = |rng: &mut Rng| Q::Term(TermS { f: F_BODY, v: Val::Str(rng.pick(&pools.freq).clone()) });
    let mut out = vec![
        Q::Bool(vec![(Oc::Must, leaf.clone()), (Oc::Must, freq(rng))], None),
        Q::Bool(vec![(Oc::Must, freq(rng)), (Oc::MustNot, leaf.clone())], None),
        Q::Bool(vec![(Oc::Must, freq(rng)), (Oc::Must, leaf.clone()), (Oc::Should, freq(rng))], None),
    ];
    match rng.below(3) {
        0 => out.push(Q::Bool(vec![(Oc::Must, leaf.clone()), (Oc::Must, all_like_leaf(rng, pools))], None)),
        1 => out.push(Q::Bool(vec![(Oc::Should, leaf.clone()), (Oc::Should, freq(rng)), (Oc::Should, freq(rng))], Some(2))),
        _ => out.push(Q::Bool(vec![(Oc::Must, Q::Exists(F_NUM)), (Oc::MustNot, leaf.clone()), (Oc::MustNot, freq(rng))], None)),
    }
    out
}

/// a positional / automaton leaf that is likely to match (taken from a document)
fn positional_leaf(rng: &mut Rng, pools: &Pools) -> Q {
    match rng.below(6) {
        0 | 1 => {
            // phrase-prefix with 1 full term + prefix (SinglePrefix), 2 (MultiPrefix) or prefix only
            let n = 1 + rng.usize_below(3);
            let ws = seq_terms(rng, pools, n).unwrap_or_else(|| (0..n).map(|_| rng.pick(&pools.words).clone()).collect());
            let mut terms: Vec<(usize, String)> = ws.into_iter().enumerate().collect();
            let last = terms.last_mut().unwrap();
            let cs: Vec<char> = last.1.chars().collect();
            last.1 = cs[..1 + rng.usize_below(cs.len())].iter().collect();
            Q::PhrasePrefix { f: F_BODY, terms }
        }
        2 => {
            let ws = seq_terms(rng, pools, 2).unwrap_or_else(|| vec![rng.pick(&pools.words).clone(), rng.pick(&pools.words).clone()]);
            let mut terms: Vec<(usize, String)> = ws.into_iter().enumerate().collect();
            terms[1].1 = terms[1].1.chars().take(1).collect();
            Q::PhrasePrefix { f: F_BODY, terms }
        }
        3 => {
            let n = 2 + rng.usize_below(2);
            let ws = seq_terms(rng, pools, n).unwrap_or_else(|| (0..n).map(|_| rng.pick(&pools.words).clone()).collect());
            Q::Phrase { f: F_BODY, terms: ws.into_iter().enumerate().collect(), slop: 0 }
        }
        4 => {
            let ws = seq_terms(rng, pools, 3).unwrap_or_else(|| (0..3).map(|_| rng.pick(&pools.words).clone()).collect());
            Q::Phrase { f: F_BODY, terms: vec![(0, ws[0].clone()), (1, ws[2].clone())], slop: 1 + rng.below(2) as u32 }
        }
        _ => gen_leaf(rng, pools),
    }
}

fn gen_query(rng: &mut Rng, depth: u32, pools: &Pools) -> Q {
    if depth == 0 {
        return gen_leaf(rng, pools);
    }
    match rng.below(20) {
        0..=4 => gen_leaf(rng, pools),
        5 => Q::Boost(Box::new(gen_query(rng, depth - 1, pools))),
        6 => Q::Const(Box::new(gen_query(rng, depth - 1, pools))),
        7 | 8 => Q::DisMax((0..rng.usize_below(4)).map(|_| gen_query(rng, depth - 1, pools)).collect()),
        9 | 10 => {
            // SHOULD-heavy family: 3..6 clauses, a good share of them leaves that resolve to a
            // bare AllScorer (AllQuery, exists / full range on a full column, an all-docs term with
            // scoring off) or to EmptyScorer, minimum_should_match anywhere in 1..=n
            let n = 3 + rng.usize_below(4);
            let mut cs: Vec<(Oc, Q)> = (0..n).map(|_| {
                let q = match rng.below(8) {
                    0 | 1 => all_like_leaf(rng, pools),
                    2 => Q::Empty,
                    3 => Q::Term(TermS { f: F_BODY, v: Val::Str(rng.pick(&pools.freq).clone()) }),
                    _ => gen_query(rng, depth - 1, pools),
                };
                (Oc::Should, q)
            }).collect();
            if rng.chance(1, 4) { cs.push((Oc::Must, gen_leaf(rng, pools))); }
            if rng.chance(1, 4) { cs.push((Oc::MustNot, gen_leaf(rng, pools))); }
            rng.shuffle(&mut cs);
            Q::Bool(cs, Some(1 + rng.usize_below(n)))
        }
        _ => {
            let n = match rng.below(10) { 0 => 0, 1 | 2 => 1, 3..=5 => 2, 6 | 7 => 3, 8 => 4, _ => 5 };
            let style = rng.below(6);
            let cs: Vec<(Oc, Q)> = (0..n).map(|_| {
                let o = match style {
                    0 => Oc::MustNot,
                    1 => Oc::Should,
                    2 => Oc::Must,
                    3 => *rng.pick(&[Oc::Should, Oc::Should, Oc::MustNot]),
                    _ => *rng.pick(&[Oc::Must, Oc::Should, Oc::Should, Oc::MustNot]),
                };
                (o, gen_query(rng, depth - 1, pools))
            }).collect();
            let msm = if rng.chance(1, 2) { None } else { Some(rng.usize_below(n + 2)) };
            Q::Bool(cs, msm)
        }
    }
}

fn pools_of(b: &Built) -> Pools {
    let vocab = vocab_of(b);
    let take = |f: u32| -> Vec<String> { vocab.get(&f).map(|s| s.iter().filter_map(|t| String::from_utf8(t.clone()).ok()).collect()).unwrap_or_default() };
    let mut words = take(F_BODY);
    if words.is_empty() { words = vec!["a".into(), "b".into()]; }
    let mut tags = take(F_TAG);
    if tags.is_empty() { tags = vec!["red".into()]; }
    // token sequences and document frequencies of the body field
    let mut ids: Vec<&u64> = b.by_id.keys().collect();
    ids.sort();
    let mut seqs = vec![];
    let mut df: BTreeMap<String, usize> = BTreeMap::new();
    for id in ids {
        let d = &b.by_id[id];
        let mut toks: Vec<(u32, String)> = vec![];
        for (f, t, ps) in &d.postings {
            if *f == F_BODY {
                if let Ok(w) = String::from_utf8(t.clone()) {
                    *df.entry(w.clone()).or_default() += 1;
                    for p in ps { toks.push((*p, w.clone())); }
                }
            }
        }
        toks.sort();
        if toks.len() >= 2 && seqs.len() < 64 {
            seqs.push(toks.into_iter().map(|x| x.1).collect());
        }
    }
    let mut by_df: Vec<(usize, String)> = df.into_iter().map(|(w, n)| (n, w)).collect();
    by_df.sort_by(|a, b| b.cmp(a));
    let mut freq: Vec<String> = by_df.into_iter().take(4).map(|x| x.1).collect();
    if freq.is_empty() { freq = vec!["a".into()]; }
    Pools { words, tags, seqs, freq }
}

// ---------------------------------------------------------------------------------------------
// phrase-slop algorithms: real scoring-on / scoring-off vs the mirrored models (per document)
// ---------------------------------------------------------------------------------------------

fn check_phrase_algorithms(ctx: &mut Ctx, spec: &CorpusSpec, b: &Built, rng: &mut Rng, n_queries: usize) {
    let pools = pools_of(b);
    let small: Vec<String> = pools.words.iter().filter(|w| w.chars().count() <= 2).cloned().collect();
    let words = if small.len() >= 3 { small } else { pools.words.clone() };
    for _ in 0..n_queries {
        let n = 2 + rng.usize_below(3);
        let terms: Vec<(usize, String)> = (0..n).map(|i| (i, rng.pick(&words).clone())).collect();
        let slop_drawn = 1 + rng.below(3) as u32;
        // the same terms once with the drawn slop and once exact (slop 0: sorted-merge intersections)
        for slop in [slop_drawn, 0u32] {
        let q = Q::Phrase { f: F_BODY, terms: terms.clone(), slop };
        let case = json!({"kind": "phrase-algorithms", "corpus": spec, "query": q});
        let rq = q.real();
        for scoring in [false, true] {
            let es = if scoring { EnableScoring::enabled_from_searcher(&b.searcher) } else { EnableScoring::disabled_from_searcher(&b.searcher) };
            let w = match rq.weight(es) { Ok(w) => w, Err(e) => { ctx.report.violation("oracle", "C03:unexpected-error", e.to_string(), case.clone()); continue; } };
            for (si, r) in b.searcher.segment_readers().iter().enumerate() {
                // processing order of the scorer: stable sort by doc_freq (DocSet::cost of SegmentPostings)
                let inv = r.inverted_index(fld(F_BODY)).unwrap();
                let mut order: Vec<(usize, u32)> = vec![];
                let mut missing = false;
                for (i, (_, t)) in terms.iter().enumerate() {
                    match inv.get_term_info(&Term::from_field_text(fld(F_BODY), t)).unwrap() {
                        Some(ti) => order.push((i, ti.doc_freq)),
                        None => missing = true,
                    }
                }
                order.sort_by_key(|x| x.1);
                let mut real: BTreeSet<u32> = BTreeSet::new();
                let res = catch_unwind(AssertUnwindSafe(|| {
                    let mut sc = w.scorer(r, 1.0).unwrap();
                    let mut d = sc.doc();
                    let mut v = vec![];
                    while d != TERMINATED { v.push(d); d = sc.advance(); }
                    v
                }));
                match res {
                    Ok(v) => real.extend(v),
                    Err(_) => { ctx.report.violation("oracle", "C03:panic", format!("phrase scorer panicked ({}) for {:?}", last_panic(), q), case.clone()); continue; }
                }
                let mx = terms.iter().map(|x| x.0).max().unwrap();
                for (doc, (md, _alive)) in b.segs[si].iter().enumerate() {
                    let adj = adjusted(md, F_BODY, &terms, mx);
                    let all_present = adj.iter().all(|a| !a.is_empty());
                    let expect = if missing || !all_present { false } else {
                        let lists: Vec<String> = order.iter().map(|(i, _)| adj[*i].iter().map(|p| p.to_string()).collect::<Vec<_>>().join(".")).collect();
                        ctx.model.ask(&format!("C03 slop {} {} {}", if scoring { "on" } else { "off" }, slop, lists.join("/"))) == "1"
                    };
                    let got = real.contains(&(doc as u32));
                    ctx.report.count(&format!("phrase-alg:{}terms:{}", n, if scoring { "on" } else { "off" }));
                    ctx.report.case(&format!("pa|{}|{}|{:?}|{}|{}", si, doc, terms, slop, scoring), all_present && !missing);
                    if got != expect {
                        ctx.report.violation("model", "C03:phrase-slop-algorithm-model-vs-implementation", format!("segment {si} doc {doc} ({} terms, slop {slop}, scoring {}): real {got} model {expect}; adjusted positions in processing order {:?}", n, scoring, order.iter().map(|(i, _)| adj[*i].clone()).collect::<Vec<_>>()), case.clone());
                    }
                }
            }
        }
    }
        }
}

// ---------------------------------------------------------------------------------------------
// encodings
// ---------------------------------------------------------------------------------------------

fn check_encodings(ctx: &mut Ctx) {
    let mut rng = ctx.rng.fork();
    let mut prev_i: Option<(i64, u64)> = None;
    let mut samples: Vec<i64> = (0..200).map(|_| if rng.chance(1, 2) { boundary_i64(&mut rng) } else { rng.next_u64() as i64 }).collect();
    samples.sort();
    for v in samples {
        let real = tantivy_common::i64_to_u64(v);
        let model = ctx.model.ask(&format!("C03 i64 {}", v as u64));
        ctx.report.case(&format!("i64|{v}"), true);
        ctx.report.count("enc:i64");
        if model != real.to_string() || real != i64_enc(v) {
            ctx.report.violation("model", "C03:i64-encoding-model-vs-implementation", format!("i64_to_u64({v}) = {real}, model {model}"), json!({"kind":"enc","i64":v}));
        }
        let bytes = TermS { f: F_INUM, v: Val::I64(v) };
        if Some(bytes.bytes()) != bytes.expected_bytes() {
            ctx.report.violation("oracle", "C03:term-bytes-not-big-endian-of-encoding", format!("i64 term {v}: {:?}", bytes.bytes()), json!({"kind":"enc","i64":v}));
        }
        if let Some((pv, pe)) = prev_i {
            if (pv < v) != (pe < real) {
                ctx.report.violation("oracle", "C03:i64-encoding-not-monotone", format!("{pv} -> {pe}, {v} -> {real}"), json!({"kind":"enc","i64":v}));
            }
        }
        prev_i = Some((v, real));
    }
    let mut fs: Vec<f64> = (0..200).map(|_| f64::from_bits(if rng.chance(1, 2) { boundary_f64(&mut rng) } else { rng.next_u64() })).filter(|f| !f.is_nan()).collect();
    fs.sort_by(|a, b| a.total_cmp(b));
    let mut prev_f: Option<(f64, u64)> = None;
    for v in fs {
        let real = tantivy_common::f64_to_u64(v);
        let model = ctx.model.ask(&format!("C03 f64 {}", v.to_bits()));
        ctx.report.case(&format!("f64|{}", v.to_bits()), true);
        ctx.report.count("enc:f64");
        if model != real.to_string() || real != f64_enc(v.to_bits()) {
            ctx.report.violation("model", "C03:f64-encoding-model-vs-implementation", format!("f64_to_u64({v}) = {real}, model {model}"), json!({"kind":"enc","f64":v.to_bits()}));
        }
        if let Some((pv, pe)) = prev_f {
            if (pv.total_cmp(&v) == std::cmp::Ordering::Less) != (pe < real) {
                ctx.report.violation("oracle", "C03:f64-encoding-not-monotone", format!("{pv} -> {pe}, {v} -> {real}"), json!({"kind":"enc","f64":v.to_bits()}));
            }
        }
        prev_f = Some((v, real));
    }
}

// ---------------------------------------------------------------------------------------------
// known findings, replayed first on their minimal witnesses
// ---------------------------------------------------------------------------------------------

fn witness_corpus() -> CorpusSpec {
    let texts = ["a b c", "a c b", "a x b c", "b a", "a", "c b a", "a b x c", "a a b c c", "x y", "b c a b c"];
    let docs = texts.iter().enumerate().map(|(i, t)| DocSpec { id: 1000 + i as u64, body: Some(t.to_string()), ..Default::default() }).collect();
    CorpusSpec { docs, chunks: vec![6, 4], cut: 0, deletes: vec![(1, 1004)], merge: false }
}

fn known_witnesses(ctx: &mut Ctx) {
    let spec = witness_corpus();
    let b = match build(&spec) { Ok(b) => b, Err(e) => { ctx.report.notes.push(format!("witness corpus failed to build: {e}")); return; } };
    let a = || Q::Term(TermS { f: F_BODY, v: Val::Str("a".into()) });
    let qs = vec![
        Q::Bool(vec![(Oc::Should, a())], Some(2)),
        Q::Bool(vec![(Oc::Must, a())], Some(1)),
        Q::Bool(vec![(Oc::Should, a()), (Oc::Should, Q::Term(TermS { f: F_BODY, v: Val::Str("b".into()) }))], Some(3)),
        Q::Phrase { f: F_BODY, terms: vec![(0, "a".into()), (1, "b".into()), (2, "c".into())], slop: 1 },
        Q::Phrase { f: F_BODY, terms: vec![(0, "a".into()), (1, "b".into()), (2, "c".into())], slop: 2 },
    ];
    check_queries(ctx, &spec, &b, &qs);
}

/// Small-scope exhaustive enumeration of the boolean decision logic: every boolean query with up
/// to `max_clauses` clauses over six leaf kinds (a term, another term, a term present in every
/// document — `AllScorer` when scoring is off —, an absent term — `EmptyScorer` —, AllQuery,
/// EmptyQuery) × every occur assignment × every minimum_should_match in 0..=n+1 and the default,
/// each also nested under a MUST clause of an outer boolean, on a fixed two-segment corpus with a
/// deleted document.
fn exhaustive_bool(ctx: &mut Ctx, max_clauses: usize) {
    let mut spec = witness_corpus();
    for d in spec.docs.iter_mut() {
        d.body = Some(format!("{} z", d.body.clone().unwrap_or_default()));
    }
    let b = match build(&spec) { Ok(b) => b, Err(e) => { ctx.report.notes.push(format!("exhaustive corpus failed to build: {e}")); return; } };
    let t = |w: &str| Q::Term(TermS { f: F_BODY, v: Val::Str(w.into()) });
    let leaves = vec![t("a"), t("b"), t("z"), t("absentword"), Q::All, Q::Empty];
    let occs = [Oc::Must, Oc::Should, Oc::MustNot];
    let mut batch: Vec<Q> = vec![];
    let mut total = 0u64;
    for n in 0..=max_clauses {
        let combos = leaves.len().pow(n as u32) * occs.len().pow(n as u32);
        for code in 0..combos {
            let mut c = code;
            let mut cs: Vec<(Oc, Q)> = vec![];
            for _ in 0..n {
                let l = c % leaves.len(); c /= leaves.len();
                let o = c % occs.len(); c /= occs.len();
                cs.push((occs[o], leaves[l].clone()));
            }
            let mut msms: Vec<Option<usize>> = vec![None];
            msms.extend((0..=n + 1).map(Some));
            for msm in msms {
                let q = Q::Bool(cs.clone(), msm);
                // nested under an outer MUST next to a term: the inner weight goes through `scorer()`
                if code % 3 == 0 { batch.push(Q::Bool(vec![(Oc::Must, q.clone()), (Oc::Should, t("c"))], None)); }
                batch.push(q);
                total += 1;
                if batch.len() >= 24 {
                    check_queries(ctx, &spec, &b, &batch);
                    batch.clear();
                }
            }
        }
    }
    check_queries(ctx, &spec, &b, &batch);
    batch.clear();
    ctx.report.count_n("exhaustive-bool:queries", total);
    // SHOULD family: every multiset of up to `max_should` SHOULD clauses over term leaves and the
    // leaves that resolve to AllScorer / EmptyScorer by type, × every minimum_should_match in
    // 0..=n+1, alone, with a MUST clause and with a MUST_NOT clause (the effective-minimum
    // arithmetic of complex_scorer: raw minimum minus eliminated AllScorers)
    let fam = vec![t("a"), t("b"), t("c"), Q::All, t("z"), Q::Exists(F_ID), Q::Empty, t("absentword")];
    let max_should = if max_clauses >= 3 { 6 } else { 5 };
    let mut fam_total = 0u64;
    let mut idx: Vec<usize> = vec![];
    fn multisets(k: usize, start: usize, n: usize, cur: &mut Vec<usize>, out: &mut Vec<Vec<usize>>) {
        if cur.len() == k { out.push(cur.clone()); return; }
        for i in start..n { cur.push(i); multisets(k, i, n, cur, out); cur.pop(); }
    }
    for k in 2..=max_should {
        let mut sets = vec![];
        multisets(k, 0, fam.len(), &mut idx, &mut sets);
        for set in sets {
            // keep the sets that contain at least one All/Empty-typed leaf (the others are covered
            // by the generic enumeration above) and at most two copies of a leaf
            if !set.iter().any(|i| *i >= 3) || set.windows(3).any(|w| w[0] == w[2]) { continue; }
            let cs: Vec<(Oc, Q)> = set.iter().map(|i| (Oc::Should, fam[*i].clone())).collect();
            for msm in 0..=k + 1 {
                let variant = (fam_total % 3) as usize;
                let mut c = cs.clone();
                match variant { 1 => c.push((Oc::Must, t("a"))), 2 => c.insert(0, (Oc::MustNot, t("b"))), _ => {} }
                batch.push(Q::Bool(c, Some(msm)));
                fam_total += 1;
                if batch.len() >= 24 {
                    check_queries(ctx, &spec, &b, &batch);
                    batch.clear();
                }
            }
        }
    }
    check_queries(ctx, &spec, &b, &batch);
    ctx.report.count_n("exhaustive-should-family:queries", fam_total);
}

// ---------------------------------------------------------------------------------------------
// range over a numeric JSON path: bound type (i64 / u64 term) × column type (i64 / u64)
// ---------------------------------------------------------------------------------------------

#[derive(Clone, Debug, Serialize, Deserialize, PartialEq)]
enum JB {
    Unb,
    /// (inclusive, is_u64_term, value)
    Val(bool, bool, i128),
    /// (inclusive, h): an f64 term with the value h / 2
    F(bool, i64),
}

fn jb_bound(key: usize, b: &JB) -> Bound<Term> {
    match b {
        JB::Unb => Bound::Unbounded,
        JB::Val(incl, is_u, v) => {
            let mut t = json_term(key);
            if *is_u { t.append_type_and_fast_value(*v as u64); } else { t.append_type_and_fast_value(*v as i64); }
            if *incl { Bound::Included(t) } else { Bound::Excluded(t) }
        }
        JB::F(incl, h) => {
            let mut t = json_term(key);
            t.append_type_and_fast_value(*h as f64 / 2.0);
            if *incl { Bound::Included(t) } else { Bound::Excluded(t) }
        }
    }
}

fn jb_model(b: &JB) -> String {
    match b {
        JB::Unb => "u i 0".into(),
        JB::Val(incl, is_u, v) => format!("{} {} {}", if *incl { "i" } else { "e" }, if *is_u { "u" } else { "i" }, v),
        JB::F(incl, h) => format!("{} f {}", if *incl { "i" } else { "e" }, h),
    }
}

/// `hv` = twice the value (half-units)
fn jb_holds(lo: &JB, hi: &JB, hv: i128) -> bool {
    (match lo { JB::Unb => true, JB::Val(true, _, b) => 2 * *b <= hv, JB::Val(false, _, b) => 2 * *b < hv, JB::F(true, h) => (*h as i128) <= hv, JB::F(false, h) => (*h as i128) < hv })
        && (match hi { JB::Unb => true, JB::Val(true, _, b) => hv <= 2 * *b, JB::Val(false, _, b) => hv < 2 * *b, JB::F(true, h) => hv <= *h as i128, JB::F(false, h) => hv < *h as i128 })
}

/// values of `attrs.<key>` per source segment (commit chunk) that survives until the merge: chunks whose
/// documents are all deleted are dropped before; deleted documents of a surviving chunk still count
fn json_sources(spec: &CorpusSpec, key: usize) -> Vec<Vec<i128>> {
    let deleted: BTreeSet<u64> = spec.deletes.iter().map(|x| x.1).collect();
    let mut out = vec![];
    let mut pos = 0usize;
    for n in &spec.chunks {
        let docs = &spec.docs[pos..(pos + n).min(spec.docs.len())];
        pos = (pos + n).min(spec.docs.len());
        if docs.is_empty() || docs.iter().all(|d| deleted.contains(&d.id)) { continue; }
        let vals: Vec<i128> = docs.iter().filter_map(|d| d.attrs.as_ref().and_then(|a| a.iter().find(|(k, _)| *k == key)).map(|(_, v)| match v {
            JVal::Int(i) => *i as i128, JVal::UInt(u) => *u as i128, JVal::Half(h) => *h as i128, _ => 0 })).collect();
        out.push(vals);
    }
    out
}

/// number of source segments alive at merge time
fn surviving_chunks(spec: &CorpusSpec) -> usize {
    let deleted: BTreeSet<u64> = spec.deletes.iter().map(|x| x.1).collect();
    let mut pos = 0usize;
    let mut n_alive = 0;
    for n in &spec.chunks {
        let docs = &spec.docs[pos..(pos + n).min(spec.docs.len())];
        pos = (pos + n).min(spec.docs.len());
        if !docs.is_empty() && !docs.iter().all(|d| deleted.contains(&d.id)) { n_alive += 1; }
    }
    n_alive
}

/// write-time column type of a set of values of `attrs.<key>` (key n: supplied as i64, u: as u64, x: as f64)
fn written_col(key: usize, vals: &[i128]) -> &'static str {
    if key == 4 { "f" } else if key == 1 || vals.iter().all(|v| *v < i64::MAX as i128) { "i" } else { "u" }
}

/// predicted column type of `attrs.<key>` in final segment `si` (None: no column)
fn predicted_col(ctx: &mut Ctx, spec: &CorpusSpec, b: &Built, key: usize, si: usize) -> Option<String> {
    if spec.merge && surviving_chunks(spec) >= 2 {
        // one merged segment: the merger types the column from the (min, max) of every source column
        let srcs: Vec<String> = json_sources(spec, key).iter().filter(|v| !v.is_empty())
            .map(|v| format!("{}:{}:{}", written_col(key, v), v.iter().min().unwrap(), v.iter().max().unwrap())).collect();
        if srcs.is_empty() { return None; }
        Some(ctx.model.ask(&format!("C03 jmerge {}", srcs.join(","))))
    } else {
        let vals: Vec<i128> = b.segs[si].iter().filter_map(|(d, _)| d.fast.iter().find(|(f, _)| *f == F_JSON_FAST0 + key as u32)
            .map(|(_, v)| if key == 1 { (*v as i128) - (1i128 << 63) } else if key == 4 { (*v as i128) - (1i128 << 60) } else { *v as i128 })).collect();
        if vals.is_empty() { None } else { Some(written_col(key, &vals).to_string()) }
    }
}

/// the numeric column type of `attrs.<key>` the segment really has
fn real_col(r: &tantivy::SegmentReader, key: usize) -> Result<Option<&'static str>, String> {
    use tantivy::columnar::ColumnType;
    let hs = r.fast_fields().dynamic_column_handles(&format!("attrs.{}", JKEYS[key])).map_err(|e| e.to_string())?;
    let mut found = None;
    for h in hs {
        let t = match h.column_type() { ColumnType::I64 => Some("i"), ColumnType::U64 => Some("u"), ColumnType::F64 => Some("f"), _ => None };
        if let Some(t) = t {
            if found.is_some() { return Err("two numerical columns for one path".into()); }
            found = Some(t);
        }
    }
    Ok(found)
}

/// one (corpus, path, bounds) case; the corpus holds only the JSON field
fn check_json_range_case(ctx: &mut Ctx, spec: &CorpusSpec, b: &Built, key: usize, lo: &JB, hi: &JB) {
    let case = json!({"kind": "json-range", "corpus": spec, "key": key, "lo": lo, "hi": hi});
    let q = RangeQuery::new(jb_bound(key, lo), jb_bound(key, hi));
    // value of the path in the document; keys n / u hold integers, key x half-units (floats h / 2)
    let value_of = |d: &MDoc| -> Option<i128> {
        d.fast.iter().find(|(f, _)| *f == F_JSON_FAST0 + key as u32).map(|(_, v)| if key == 1 { (*v as i128) - (1i128 << 63) } else if key == 4 { (*v as i128) - (1i128 << 60) } else { *v as i128 })
    };
    let unit: i128 = if key == 4 { 1 } else { 2 };
    // brute force over the live documents
    let mut expect: Vec<u64> = b.segs.iter().flat_map(|s| s.iter()).filter(|(d, alive)| *alive && value_of(d).map(|v| jb_holds(lo, hi, v * unit)).unwrap_or(false)).map(|(d, _)| d.id).collect();
    expect.sort();
    // implementation model, per segment (the column type is a property of the segment)
    let mut model: Vec<u64> = vec![];
    let mut u64_lower_on_i64 = false;
    let mut f64_upper_below_min = false;
    // a fractional bound is replaced by Included(trunc): wrong for a positive lower / negative upper bound
    let f64_fract = matches!(lo, JB::F(_, h) if *h > 0 && *h % 2 != 0) || matches!(hi, JB::F(_, h) if *h < 0 && *h % 2 != 0);
    for (si, seg) in b.segs.iter().enumerate() {
        let vals: Vec<(u64, bool, i128)> = seg.iter().filter_map(|(d, alive)| value_of(d).map(|v| (d.id, *alive, v))).collect();
        if vals.is_empty() { continue; }
        let pcol = predicted_col(ctx, spec, b, key, si).unwrap_or_else(|| "i".into());
        // key "n" holds values supplied as i64, key "u" values supplied as u64: a u64-supplied value keeps
        // the column i64 only when it is strictly below i64::MAX (columnar accept_value)
        let col: &str = &pcol;
        if col == "i" { if let JB::Val(_, true, v) = lo { if *v > i64::MAX as i128 { u64_lower_on_i64 = true; } } }
        if col == "u" { if let JB::F(_, h) = hi { if *h < 0 { f64_upper_below_min = true; } } }
        let list = vals.iter().map(|x| x.2.to_string()).collect::<Vec<_>>().join(",");
        let ans = ctx.model.ask(&format!("C03 jrange {col} {} {} {} {list}", if key == 1 { "i" } else if key == 4 { "f" } else { "u" }, jb_model(lo), jb_model(hi)));
        let parts: Vec<&str> = ans.split('|').collect();
        if parts.len() != 3 || parts[0].len() != vals.len() {
            ctx.report.violation("model", "C03:model-rejected-request", format!("jrange answered {ans}"), case.clone());
            return;
        }
        if parts[2] != "1" && !(spec.merge && surviving_chunks(spec) >= 2) {
            ctx.report.violation("model", "C03:json-column-type-model-vs-harness", format!("column type {col} not predicted by colOf for {list}"), case.clone());
        }
        for (i, x) in vals.iter().enumerate() {
            if x.1 && parts[0].as_bytes()[i] == b'1' { model.push(x.0); }
        }
    }
    model.sort();
    let n_docs: usize = b.segs.iter().map(|s| s.len()).sum();
    let real = match catch_unwind(AssertUnwindSafe(|| {
        let s = &b.searcher;
        let a = s.search(&q, &DocSetCollector).map(|x| ids_of(s, x.into_iter()));
        let c = s.search(&q, &Count).map(|c| c as u64);
        let t = s.search(&q, &TopDocs::with_limit(n_docs + 1).order_by_score()).map(|v| ids_of(s, v.into_iter().map(|x| x.1)));
        (a, c, t)
    })) {
        Ok(r) => r,
        Err(_) => { ctx.report.violation("oracle", "C03:panic", format!("json range panicked ({})", last_panic()), case); return; }
    };
    ctx.report.count(&format!("json-range:key-{}:{}", JKEYS[key], match lo { JB::Val(_, true, _) => "u64-term", JB::Val(_, false, _) => "i64-term", JB::F(..) => "f64-term", JB::Unb => match hi { JB::Val(_, true, _) => "u64-term", JB::F(..) => "f64-term", _ => "i64-term" } }));
    ctx.report.case(&format!("jr|{}|{:?}|{:?}|{}", key, lo, hi, n_docs), !expect.is_empty() && expect.len() < b.expected_live.len());
    let outs: Vec<(&str, Result<Vec<u64>, String>)> = vec![
        ("DocSetCollector", real.0.map_err(|e| e.to_string())),
        ("TopDocs", real.2.map_err(|e| e.to_string())),
    ];
    for (name, out) in outs {
        match out {
            Err(e) => ctx.report.violation("oracle", "C03:unexpected-error", format!("{name}: {e} for json range {:?}..{:?} on attrs.{}", lo, hi, JKEYS[key]), case.clone()),
            Ok(ids) => {
                if ids != expect {
                    let key_v = if ids == model && u64_lower_on_i64 { K_JSON_U64_LOWER }
                        else if ids == model && f64_upper_below_min { K_JSON_F64_BELOW }
                        else if ids == model && f64_fract { K_JSON_F64_FRACT }
                        else { "C03:json-range-differs-from-numeric-meaning" };
                    ctx.report.violation("oracle", key_v, format!("{name} gives {} but the numeric meaning gives {} for attrs.{}: {:?} .. {:?}", short(&ids), short(&expect), JKEYS[key], lo, hi), case.clone());
                }
                if ids != model {
                    ctx.report.violation("model", "C03:json-range-coercion-model-vs-implementation", format!("{name} gives {} but the coercion model gives {} for attrs.{}: {:?} .. {:?}", short(&ids), short(&model), JKEYS[key], lo, hi), case.clone());
                }
            }
        }
    }
    match real.1 {
        Ok(c) if c as usize == model.len() => {}
        other => ctx.report.violation("model", "C03:json-range-coercion-model-vs-implementation", format!("Count gives {:?} but the coercion model gives {} ids", other.map_err(|e| e.to_string()), model.len()), case.clone()),
    }
}

fn check_json_ranges(ctx: &mut Ctx, n_corpora: u64, n_queries: usize) {
    let ivals: [i128; 9] = [i64::MIN as i128, -4097, -5, -1, 0, 1, 5, 4096, i64::MAX as i128];
    let uvals: [i128; 9] = [0, 1, 5, 4096, i64::MAX as i128, i64::MAX as i128 + 1, i64::MAX as i128 + 6, u64::MAX as i128 - 1, u64::MAX as i128];
    for _ in 0..n_corpora {
        let mut rng = ctx.rng.fork();
        let n = 6 + rng.usize_below(40);
        let big = rng.chance(2, 3);
        let docs: Vec<DocSpec> = (0..n).map(|i| {
            let mut attrs = vec![];
            if rng.chance(3, 4) { attrs.push((1usize, JVal::Int(if rng.chance(1, 2) { *rng.pick(&ivals) as i64 } else { rng.below(12) as i64 - 6 }))); }
            if rng.chance(3, 4) {
                let v = if big && rng.chance(1, 3) { *rng.pick(&uvals[5..]) as u64 } else if rng.chance(1, 2) { *rng.pick(&uvals[..5]) as u64 } else { rng.below(12) };
                attrs.push((3usize, JVal::UInt(v)));
            }
            if rng.chance(1, 2) { attrs.push((4usize, JVal::Half(*rng.pick(&[-13i64, -10, -3, -2, -1, 0, 1, 2, 3, 10, 8193, 16386])))); }
            DocSpec { id: 1000 + i as u64, attrs: Some(attrs), ..Default::default() }
        }).collect();
        let nseg = 1 + rng.usize_below(3);
        let mut chunks = vec![];
        let mut left = n;
        for sidx in 0..nseg { let c = if sidx + 1 == nseg { left } else { 1 + rng.usize_below(left.max(2) - 1) }; chunks.push(c.min(left)); left -= c.min(left); }
        let deletes = if rng.chance(1, 2) { vec![(chunks.len() - 1, 1000 + rng.below(n as u64))] } else { vec![] };
        let merge = rng.chance(1, 4);
        let spec = CorpusSpec { docs, chunks, cut: 0, deletes, merge };
        let b = match build(&spec) { Ok(b) => b, Err(e) => { ctx.report.violation("oracle", "C03:index-build-failed", e, json!({"kind":"corpus","corpus":spec})); continue; } };
        // the column type of every numeric path in every final segment: written (colOf) or merged (mergedCol)
        for (si, r) in b.searcher.segment_readers().iter().enumerate() {
            for key in [1usize, 3, 4] {
                let pred = predicted_col(ctx, &spec, &b, key, si);
                let real = real_col(r, key);
                ctx.report.count(&format!("json-column-type:{}{}", real.clone().ok().flatten().unwrap_or("none"), if spec.merge && surviving_chunks(&spec) >= 2 { ":merged" } else { "" }));
                if real != Ok(pred.as_deref().map(|x| match x { "i" => "i", "u" => "u", _ => "f" })) {
                    ctx.report.violation("model", "C03:json-column-type-model-vs-implementation", format!("segment {si} attrs.{}: real column type {:?}, model {:?}", JKEYS[key], real, pred), json!({"kind":"corpus","corpus":spec}));
                }
            }
        }
        for _ in 0..n_queries {
            let key = *rng.pick(&[1usize, 3, 4]);
            let is_u = rng.chance(1, 2);
            let mut bound = |rng: &mut Rng| -> JB {
                if rng.chance(1, 5) { return JB::Unb; }
                let v = if is_u { *rng.pick(&uvals) } else { *rng.pick(&ivals) };
                JB::Val(rng.chance(1, 2), is_u, v)
            };
            let (mut lo, hi) = (bound(&mut rng), bound(&mut rng));
            if lo == JB::Unb && hi == JB::Unb { lo = JB::Val(true, is_u, 0); }
            check_json_range_case(ctx, &spec, &b, key, &lo, &hi);
            // the same shape with f64 terms (halves: exact in binary64)
            let hs: [i64; 11] = [-13, -10, -3, -2, -1, 0, 1, 2, 3, 10, 8193];
            let mut fb = |rng: &mut Rng| -> JB { if rng.chance(1, 5) { JB::Unb } else { JB::F(rng.chance(1, 2), *rng.pick(&hs)) } };
            let (mut flo, fhi) = (fb(&mut rng), fb(&mut rng));
            if flo == JB::Unb && fhi == JB::Unb { flo = JB::F(true, 1); }
            check_json_range_case(ctx, &spec, &b, key, &flo, &fhi);
        }
    }
}

/// column type of a JSON path that receives i64- and u64-supplied values (f64 when negative values meet
/// values ≥ i64::MAX), written and merged: Lean `writtenCol` / `mergedCol` vs the real column
fn check_json_mixed_column_types(ctx: &mut Ctx, n_corpora: u64) {
    let ivals: [i64; 7] = [i64::MIN, -5, -1, 0, 3, 4096, i64::MAX];
    let uvals: [u64; 7] = [0, 7, i64::MAX as u64 - 1, i64::MAX as u64, i64::MAX as u64 + 1, u64::MAX - 1, u64::MAX];
    for _ in 0..n_corpora {
        let mut rng = ctx.rng.fork();
        let n = 4 + rng.usize_below(20);
        let (neg, big) = (rng.below(4), rng.below(4));
        let docs: Vec<DocSpec> = (0..n).map(|i| {
            let mut attrs = vec![];
            if rng.chance(4, 5) {
                let v = if rng.chance(1, 2) {
                    JVal::Int(if rng.below(6) < neg { *rng.pick(&ivals[..3]) } else { *rng.pick(&ivals[3..]) })
                } else {
                    JVal::UInt(if rng.below(6) < big { *rng.pick(&uvals[3..]) } else { *rng.pick(&uvals[..3]) })
                };
                attrs.push((JKEY_MIXED, v));
            }
            DocSpec { id: 1000 + i as u64, attrs: Some(attrs), ..Default::default() }
        }).collect();
        let nseg = 1 + rng.usize_below(3);
        let mut chunks = vec![];
        let mut left = n;
        for sidx in 0..nseg { let c = if sidx + 1 == nseg { left } else { 1 + rng.usize_below(left.max(2) - 1) }; chunks.push(c.min(left)); left -= c.min(left); }
        let deletes = if rng.chance(1, 3) { vec![(chunks.len() - 1, 1000 + rng.below(n as u64))] } else { vec![] };
        let merge = rng.chance(1, 2);
        let spec = CorpusSpec { docs, chunks, cut: 0, deletes, merge };
        check_json_mixed_case(ctx, &spec);
    }
}

fn check_json_mixed_case(ctx: &mut Ctx, spec: &CorpusSpec) {
    {
        let case = json!({"kind": "json-mixed-column", "corpus": spec});
        let b = match build(spec) { Ok(b) => b, Err(e) => { ctx.report.violation("oracle", "C03:index-build-failed", e, case); return; } };
        let supplied: BTreeMap<u64, (char, i128)> = spec.docs.iter().filter_map(|d| d.attrs.as_ref().and_then(|a| a.iter().find(|(k, _)| *k == JKEY_MIXED)).and_then(|(_, v)| match v {
            JVal::Int(i) => Some((d.id, ('i', *i as i128))), JVal::UInt(u) => Some((d.id, ('u', *u as i128))), _ => None })).collect();
        let written = |ctx: &mut Ctx, ids: &mut dyn Iterator<Item = u64>| -> Option<(String, i128, i128)> {
            let vs: Vec<(char, i128)> = ids.filter_map(|id| supplied.get(&id).copied()).collect();
            if vs.is_empty() { return None; }
            let t = ctx.model.ask(&format!("C03 jwritten {}", vs.iter().map(|(c, v)| format!("{c}:{v}")).collect::<Vec<_>>().join(",")));
            Some((t, vs.iter().map(|x| x.1).min().unwrap(), vs.iter().map(|x| x.1).max().unwrap()))
        };
        let merged = spec.merge && surviving_chunks(spec) >= 2;
        for (si, r) in b.searcher.segment_readers().iter().enumerate() {
            let pred: Option<String> = if merged {
                // the merger types the column from the (type, min, max) of every surviving source column
                let deleted: BTreeSet<u64> = spec.deletes.iter().map(|x| x.1).collect();
                let mut srcs = vec![];
                let mut pos = 0usize;
                for n in &spec.chunks {
                    let docs = &spec.docs[pos..(pos + n).min(spec.docs.len())];
                    pos = (pos + n).min(spec.docs.len());
                    if docs.is_empty() || docs.iter().all(|d| deleted.contains(&d.id)) { continue; }
                    if let Some((t, mn, mx)) = written(ctx, &mut docs.iter().map(|d| d.id)) { srcs.push(format!("{t}:{mn}:{mx}")); }
                }
                if srcs.is_empty() { None } else { Some(ctx.model.ask(&format!("C03 jmerge {}", srcs.join(",")))) }
            } else {
                written(ctx, &mut b.segs[si].iter().map(|(d, _)| d.id)).map(|x| x.0)
            };
            let real = real_col(r, JKEY_MIXED);
            ctx.report.count(&format!("json-mixed-column-type:{}{}", real.clone().ok().flatten().unwrap_or("none"), if merged { ":merged" } else { "" }));
            ctx.report.case(&format!("jmix|{}|{:?}|{}", merged, pred, b.segs[si].len()), true);
            if real != Ok(pred.as_deref().map(|x| match x { "i" => "i", "u" => "u", _ => "f" })) {
                ctx.report.violation("model", "C03:json-column-type-model-vs-implementation", format!("segment {si} attrs.m: real column type {:?}, model {:?}", real, pred), case.clone());
            }
            // the merged type is the write-time type of all surviving source values together (C03_json_merged_column_type_mixed)
            if merged {
                let all = written(ctx, &mut json_alive_source_ids(spec).into_iter()).map(|x| x.0);
                if all != pred {
                    ctx.report.violation("model", "C03:json-merged-column-type-differs-from-union", format!("merged {:?}, write-time type of the union {:?}", pred, all), case.clone());
                }
            }
        }
    }
}

/// ids of the documents of every source segment alive at merge time (deleted documents of a surviving chunk included)
fn json_alive_source_ids(spec: &CorpusSpec) -> Vec<u64> {
    let deleted: BTreeSet<u64> = spec.deletes.iter().map(|x| x.1).collect();
    let mut out = vec![];
    let mut pos = 0usize;
    for n in &spec.chunks {
        let docs = &spec.docs[pos..(pos + n).min(spec.docs.len())];
        pos = (pos + n).min(spec.docs.len());
        if docs.is_empty() || docs.iter().all(|d| deleted.contains(&d.id)) { continue; }
        out.extend(docs.iter().map(|d| d.id));
    }
    out
}

// ---------------------------------------------------------------------------------------------
// fast-field range: which scorer search_on_u64_ff builds per segment (min/max pruning)
// ---------------------------------------------------------------------------------------------

fn check_fast_range_kinds(ctx: &mut Ctx, n_corpora: u64, n_queries: usize) {
    use tantivy::query::{AllScorer, EmptyScorer};
    for ci in 0..n_corpora {
        let mut rng = ctx.rng.fork();
        let mut spec = gen_corpus(&mut rng, 1);
        spec.merge = false;
        // every second corpus: every document carries `num` (full column) and the values are narrow
        if ci % 2 == 0 {
            for d in spec.docs.iter_mut() { d.num = Some(5 + rng.below(6)); }
        }
        // two corpora of three: per commit chunk, `num` holds exactly one value per document (Full column),
        // at most one (Optional), or 0 / 1 / >= 2 values (Multivalued, with valueless documents)
        if ci % 3 != 0 {
            let narrow = ci % 2 == 0;
            let mut pos = 0usize;
            let chunks = spec.chunks.clone();
            for n in chunks {
                let end = (pos + n).min(spec.docs.len());
                let mode = rng.below(4);
                let len = end - pos;
                for (j, d) in spec.docs[pos..end].iter_mut().enumerate() {
                    let mut v = |rng: &mut Rng| if narrow { 5 + rng.below(6) } else { rng.below(20) };
                    let count = match mode {
                        0 => 1,
                        1 => rng.below(2),
                        // the first document holds no value, the last one two or three, the others anything
                        _ => if j == 0 && len >= 2 { 0 } else if j + 1 == len { 2 + rng.below(2) } else { rng.below(4) },
                    };
                    d.num = if count >= 1 { Some(v(&mut rng)) } else { None };
                    d.nums = vec![];
                    while (d.nums.len() as u64) + 1 < count {
                        let x = v(&mut rng);
                        if d.num != Some(x) && !d.nums.contains(&x) { d.nums.push(x); }
                    }
                }
                pos = end;
            }
        }
        let b = match build(&spec) { Ok(b) => b, Err(_) => continue };
        // whole queries with a covering range as a clause (AllScorer is eliminated by BooleanWeight): all result paths
        if ci % 3 != 0 {
            let pools = pools_of(&b);
            let u = |v: u64| TermS { f: F_NUM, v: Val::U64(v) };
            let mut qs: Vec<Q> = vec![];
            for (lo, hi) in [(Bd::Incl(u(0)), Bd::Unb), (Bd::Unb, Bd::Incl(u(u64::MAX))), (Bd::Incl(u(5)), Bd::Incl(u(10))), (Bd::Excl(u(0)), Bd::Excl(u(1 << 40)))] {
                let leaf = Q::Range { f: F_NUM, lo, hi, fast: true, inverted: false };
                if rng.chance(1, 2) { qs.extend(context_queries(&mut rng, &pools, &leaf)); }
                qs.push(leaf);
            }
            check_queries(ctx, &spec, &b, &qs);
        }
        for qi in 0..n_queries {
            let f = if rng.chance(1, 4) { F_ID } else { F_NUM };
            let mut mk = |rng: &mut Rng| -> u64 { if f == F_ID { 995 + rng.below(80) } else { match rng.below(4) { 0 => boundary_u64(rng), _ => rng.below(14) } } };
            let mut bound = |rng: &mut Rng| -> (char, u64) { match rng.below(5) { 0 => ('u', 0), 1 | 2 => ('i', mk(rng)), _ => ('e', mk(rng)) } };
            let (mut lo, mut hi) = (bound(&mut rng), bound(&mut rng));
            // every third query on `num`: a range that covers the whole column
            if f == F_NUM && qi % 3 == 0 {
                lo = *rng.pick(&[('u', 0), ('i', 0), ('i', 5), ('e', 0)]);
                hi = *rng.pick(&[('u', 0), ('i', u64::MAX), ('i', 19), ('i', 10), ('e', u64::MAX)]);
            }
            if lo.0 == 'u' && hi.0 == 'u' { lo = ('i', mk(&mut rng)); }
            let to_b = |x: (char, u64)| match x.0 { 'i' => Bound::Included(Term::from_field_u64(fld(f), x.1)), 'e' => Bound::Excluded(Term::from_field_u64(fld(f), x.1)), _ => Bound::Unbounded };
            let q = RangeQuery::new(to_b(lo), to_b(hi));
            let case = json!({"kind": "fast-range-kind", "corpus": spec, "field": f, "lo": [lo.0.to_string(), lo.1], "hi": [hi.0.to_string(), hi.1]});
            let w = match q.weight(EnableScoring::disabled_from_searcher(&b.searcher)) { Ok(w) => w, Err(e) => { ctx.report.violation("oracle", "C03:unexpected-error", e.to_string(), case); continue; } };
            for (si, r) in b.searcher.segment_readers().iter().enumerate() {
                let has_col = b.segs[si].iter().any(|(d, _)| d.fast.iter().any(|(g, _)| *g == f));
                let sc = match catch_unwind(AssertUnwindSafe(|| w.scorer(r, 1.0))) {
                    Ok(Ok(sc)) => sc,
                    Ok(Err(e)) => { ctx.report.violation("oracle", "C03:unexpected-error", e.to_string(), case.clone()); continue; }
                    Err(_) => { ctx.report.violation("oracle", "C03:panic", format!("range scorer panicked ({})", last_panic()), case.clone()); continue; }
                };
                let real = if sc.is::<AllScorer>() { "all" } else if sc.is::<EmptyScorer>() { "empty" } else { "range" };
                let mut dbg = String::new();
                // a schema-declared fast field has a (possibly empty) column in every segment
                let expect = {
                    let col = r.fast_fields().u64(FIELD_NAMES[f as usize]).unwrap();
                    use tantivy::columnar::Cardinality;
                    let card = match col.index.get_cardinality() { Cardinality::Full => "f", Cardinality::Optional => "o", Cardinality::Multivalued => "m" };
                    // the cardinality is what the documents of the segment prescribe (Lean Card.admits)
                    if f == F_NUM {
                        let counts: Vec<usize> = b.segs[si].iter().map(|(md, _)| md.fast.iter().filter(|(g, _)| *g == f).count()).collect();
                        let pred = if counts.iter().any(|c| *c >= 2) { "m" } else if counts.iter().all(|c| *c == 1) { "f" } else { "o" };
                        ctx.report.count(&format!("fast-range-column-cardinality:{card}{}", if counts.iter().any(|c| *c == 0) { ":with-valueless-docs" } else { "" }));
                        if pred != card {
                            ctx.report.violation("model", "C03:fast-column-cardinality-model-vs-implementation", format!("segment {si}: column `num` has cardinality {card}, the documents prescribe {pred} (values per document {:?})", counts), case.clone());
                        }
                    }
                    let ans = ctx.model.ask(&format!("C03 ffrange {} {} {} {} {} {} {}", lo.0, lo.1, hi.0, hi.1, col.min_value(), col.max_value(), card));
                    dbg = format!("column min {} max {} cardinality {} -> {ans}", col.min_value(), col.max_value(), card);
                    ans.split(':').next().unwrap_or("").to_string()
                };
                ctx.report.count(&format!("fast-range-kind:{real}"));
                ctx.report.case(&format!("frk|{}|{:?}|{:?}|{}|{}", f, lo, hi, si, b.segs[si].len()), has_col);
                if real != expect {
                    ctx.report.violation("model", "C03:fast-range-scorer-kind-model-vs-implementation", format!("segment {si}: search_on_u64_ff built a {real} scorer, the model says {expect} ({dbg}) for {}:{:?}..{:?}", FIELD_NAMES[f as usize], lo, hi), case.clone());
                }
                // the oracle on the scorer itself: it selects exactly the documents whose value is in range
                let mut sc = sc;
                let mut got: Vec<u32> = vec![];
                let mut d = sc.doc();
                while d != TERMINATED { got.push(d); d = sc.advance(); }
                let inr = |v: u128| -> bool {
                    (match lo.0 { 'i' => v >= lo.1 as u128, 'e' => v > lo.1 as u128, _ => true }) && (match hi.0 { 'i' => v <= hi.1 as u128, 'e' => v < hi.1 as u128, _ => true })
                };
                let want: Vec<u32> = b.segs[si].iter().enumerate().filter(|(_, (md, _))| md.fast.iter().any(|(g, v)| *g == f && inr(*v))).map(|(i, _)| i as u32).collect();
                if got != want {
                    ctx.report.violation("oracle", "C03:fast-range-scorer-differs-from-brute-force", format!("segment {si}: {real} scorer yields {} docs, {} expected for {}:{:?}..{:?}", got.len(), want.len(), FIELD_NAMES[f as usize], lo, hi), case.clone());
                }
            }
        }
    }
}

pub fn replay(ctx: &mut Ctx, case: &serde_json::Value) {
    match case["kind"].as_str().unwrap_or("") {
        "query" | "phrase-algorithms" => {
            let spec: CorpusSpec = match serde_json::from_value(case["corpus"].clone()) { Ok(s) => s, Err(e) => { ctx.report.notes.push(format!("replay: bad corpus: {e}")); return; } };
            let q: Q = match serde_json::from_value(case["query"].clone()) { Ok(q) => q, Err(e) => { ctx.report.notes.push(format!("replay: bad query: {e}")); return; } };
            match build(&spec) {
                Ok(b) => {
                    check_queries(ctx, &spec, &b, &[q.clone()]);
                    ctx.report.notes.push(format!("replayed {:?}", q));
                    // shrink by clauses: every leaf of the tree on its own
                    if std::env::var("C03_SPLIT").is_ok() {
                        let mut ls = vec![];
                        q.leaves(&mut ls);
                        check_queries(ctx, &spec, &b, &ls);
                    }
                }
                Err(e) => ctx.report.violation("oracle", "C03:index-build-failed", e, case.clone()),
            }
        }
        "json-range" => {
            let spec: Result<CorpusSpec, _> = serde_json::from_value(case["corpus"].clone());
            let lo: Result<JB, _> = serde_json::from_value(case["lo"].clone());
            let hi: Result<JB, _> = serde_json::from_value(case["hi"].clone());
            match (spec, lo, hi, case["key"].as_u64()) {
                (Ok(spec), Ok(lo), Ok(hi), Some(key)) => match build(&spec) {
                    Ok(b) => check_json_range_case(ctx, &spec, &b, key as usize, &lo, &hi),
                    Err(e) => ctx.report.violation("oracle", "C03:index-build-failed", e, case.clone()),
                },
                _ => ctx.report.notes.push("replay: bad json-range case".into()),
            }
        }
        "json-mixed-column" => match serde_json::from_value::<CorpusSpec>(case["corpus"].clone()) {
            Ok(spec) => check_json_mixed_case(ctx, &spec),
            Err(_) => ctx.report.notes.push("replay: bad json-mixed-column case".into()),
        },
        "enc" => check_encodings(ctx),
        k => ctx.report.notes.push(format!("replay kind {k:?} re-runs the generated stream")),
    }
}

pub fn run(ctx: &mut Ctx) {
    ctx.report.rule = "case = (corpus, query) pair evaluated through all collector paths, or (document, sloppy phrase, scoring) for the slop algorithms, or one encoded value; \
        non-trivial (corpus, query): ≥ 2 segments or ≥ 1 delete, query depth ≥ 2, result non-empty and not all live documents; phrase case: all terms present in the document".into();
    ctx.report.correspondence_obligations = vec![
        "oracle: Count = DocSetCollector = TopDocs(limit ≥ n) = tuple collector = Query::count = Weight::scorer/count (scoring on and off) as id sets".into(),
        "oracle: every path = brute-force answer over analysed live documents (Lean `answer`)".into(),
        "native Rust evaluator = Lean `answer`".into(),
        "real result = Lean `searchIds leafTree scoring` (compile model incl. single-clause shortcut)".into(),
        "Query::count = Lean Σ weightCount".into(),
        "known deviations are attributed only when Lean okQ (F4 / S6 hypotheses) is false on the query and the implementation model reproduces every real path".into(),
        "phrase slop: real scoring-on / scoring-off scorers = Lean phraseOn / phraseOff per document".into(),
        "i64_to_u64 / f64_to_u64 = Gen.OrderEnc (extracted), monotone on sorted samples, term bytes = big-endian".into(),
        "range over a numeric JSON path (i64 / u64 bound term × i64 / u64 column, incl / excl / unbounded): DocSetCollector, TopDocs, Count = numeric meaning = Lean JsonRange.implMatch per segment; column type = colOf".into(),
        "phrase-prefix queries with position gaps / shifted offsets: all paths = Lean semPhrasePrefix (C03_phrase_prefix_iff)".into(),
        "fast-field range on Full / Optional / Multivalued columns (documents with 0, 1, >= 2 values per segment; ranges covering the whole column): the scorer type search_on_u64_ff builds per segment (AllScorer / EmptyScorer / other, observed by downcast) = Lean FastRange.classifyC with the extracted cardinality condition on the column's min / max / cardinality; the scorer's documents = brute force (a document matches iff one of its values is in range); the same ranges as clauses of boolean queries through all result paths".into(),
        "JSON path fed i64- and u64-supplied values: the real column type per segment (i64 / u64 / f64), written and merged = Lean JsonRange.writtenCol / mergedCol; merged type = write-time type of the union".into(),
        "exhaustive boolean trees (≤ 2 clauses quick, ≤ 3 thorough) × occur × msm over term/all/empty leaf kinds: all paths = answer = compile model".into(),
    ];
    std::panic::set_hook(Box::new(|info| {
        if let Ok(mut g) = LAST_PANIC.lock() {
            *g = info.to_string().chars().take(300).collect();
        }
    }));
    let guard = ctx.model.ask("C03 guard");
    SINGLE_GUARD.store(guard == "1", std::sync::atomic::Ordering::Relaxed);
    ctx.report.notes.push(format!("single-clause msm guard in BooleanWeight::scorer (extracted): {guard}"));
    if let Some(case) = ctx.replay.clone() {
        replay(ctx, &case);
        return;
    }
    known_witnesses(ctx);
    check_encodings(ctx);
    let max_clauses = ctx.budget(2, 3) as usize;
    exhaustive_bool(ctx, max_clauses);
    let n_corpora = ctx.budget(44, 900);
    let per_small = ctx.budget(40, 70) as usize;
    for ci in 0..n_corpora {
        let mut rng = ctx.rng.fork();
        let size_class = match ci % 11 { 0 => 0, 1..=6 => 1, 7 | 8 => 2, 9 => 1, _ => if ci % 22 == 10 { 3 } else { 2 } };
        let spec = gen_corpus(&mut rng, size_class);
        let b = match catch_unwind(AssertUnwindSafe(|| build(&spec))) {
            Ok(Ok(b)) => b,
            Ok(Err(e)) => { ctx.report.violation("oracle", "C03:index-build-failed", e, json!({"kind":"corpus","corpus":spec})); continue; }
            Err(_) => { ctx.report.violation("oracle", "C03:panic", "index build panicked".into(), json!({"kind":"corpus","corpus":spec})); continue; }
        };
        ctx.report.count(&format!("corpus:size-class-{size_class}"));
        ctx.report.count(&format!("corpus:segments-{}", b.segs.len().min(7)));
        if spec.merge { ctx.report.count("corpus:merged"); }
        if spec.cut > 0 { ctx.report.count("corpus:segment-cut-hook"); }
        if b.segs.iter().any(|s| s.iter().any(|d| !d.1)) { ctx.report.count("corpus:with-deleted-docs"); }
        if b.segs.iter().any(|s| s.len() == 1) { ctx.report.count("corpus:single-doc-segment"); }
        // sanity of the corpus itself (C02's subject, cheap to assert here)
        let live: BTreeSet<u64> = b.segs.iter().flat_map(|s| s.iter()).filter(|d| d.1).map(|d| d.0.id).collect();
        if live != b.expected_live {
            ctx.report.violation("oracle", "C03:live-set-mismatch", format!("live ids differ from adds minus deletes: {} vs {}", live.len(), b.expected_live.len()), json!({"kind":"corpus","corpus":spec}));
            continue;
        }
        let pools = pools_of(&b);
        let nq = match size_class { 3 => 10, 2 => per_small / 2, _ => per_small };
        let mut qs: Vec<Q> = vec![];
        for k in 0..nq {
            let depth = match k % 8 { 0 => 0, 1 | 2 => 1, 3 | 4 | 5 => 2, 6 => 3, _ => 4 };
            qs.push(gen_query(&mut rng, depth, &pools));
        }
        // every positional leaf in seek-driven contexts (second MUST, MUST_NOT, …)
        let n_ctx = match size_class { 3 => 2, 2 => 4, _ => 6 };
        for _ in 0..n_ctx {
            let leaf = positional_leaf(&mut rng, &pools);
            qs.extend(context_queries(&mut rng, &pools, &leaf));
        }
        // keep hitting the known single-clause shortcut, nested too
        let leaf = gen_leaf(&mut rng, &pools);
        qs.push(Q::Bool(vec![(Oc::Should, leaf.clone())], Some(2 + rng.usize_below(2))));
        qs.push(Q::Bool(vec![(Oc::Must, Q::Bool(vec![(Oc::Must, leaf.clone())], Some(1))), (Oc::Should, gen_leaf(&mut rng, &pools))], None));
        for chunk in qs.chunks(16) {
            check_queries(ctx, &spec, &b, chunk);
        }
        if size_class <= 1 {
            check_phrase_algorithms(ctx, &spec, &b, &mut rng, 6);
        }
    }
    // last, so that the random stream of the stages above is unchanged
    let (jc, jq) = (ctx.budget(8, 120), ctx.budget(30, 60) as usize);
    check_json_ranges(ctx, jc, jq);
    // phrase-prefix queries with position gaps (before the prefix term, between full terms, offsets
    // not starting at 0): C03_phrase_prefix_iff / C03_phrase_prefix_gap
    for _ in 0..ctx.budget(4, 60) {
        let mut rng = ctx.rng.fork();
        let spec = gen_corpus(&mut rng, 1);
        let b = match build(&spec) { Ok(b) => b, Err(_) => continue };
        let pools = pools_of(&b);
        let mut qs: Vec<Q> = vec![];
        for _ in 0..12 {
            let g = 1 + rng.usize_below(3);
            let base = rng.usize_below(3);
            let three = rng.chance(1, 3);
            let need = if three { 2 + g } else { 1 + g };
            let Some(ws) = seq_terms(&mut rng, &pools, need) else { continue };
            let cut = |w: &String, rng: &mut Rng| -> String { let cs: Vec<char> = w.chars().collect(); cs[..1 + rng.usize_below(cs.len())].iter().collect() };
            let terms: Vec<(usize, String)> = if three {
                vec![(base, ws[0].clone()), (base + 1, ws[1].clone()), (base + 1 + g, cut(&ws[1 + g], &mut rng))]
            } else {
                vec![(base, ws[0].clone()), (base + g, cut(&ws[g], &mut rng))]
            };
            let leaf = Q::PhrasePrefix { f: F_BODY, terms };
            qs.push(leaf.clone());
            if rng.chance(1, 2) { qs.extend(context_queries(&mut rng, &pools, &leaf).into_iter().take(2)); }
        }
        ctx.report.count_n("phrase-prefix-gap:queries", qs.len() as u64);
        for chunk in qs.chunks(16) {
            check_queries(ctx, &spec, &b, chunk);
        }
    }
    let (fc, fq) = (ctx.budget(6, 80), ctx.budget(25, 40) as usize);
    check_fast_range_kinds(ctx, fc, fq);
    let mc = ctx.budget(60, 400);
    check_json_mixed_column_types(ctx, mc);
}
