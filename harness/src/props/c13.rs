//! C13 — every DocSet is one sorted sequence under any mix of advance and seek.
//!
//! (a) direct: real combinators (`BufferedUnionScorer` via the `verif` hook, `intersect_scorers`,
//!     `Exclude`, `RequiredOptionalScorer`, `ConstScorer`, `BitSetDocSet`, `AllScorer`,
//!     `EmptyScorer`) over harness-defined sorted-vector children, nested up to depth 3, driven by
//!     generated legal call programs; every observation is compared with
//!       * the oracle: the specification cursor over the brute-force document list (computed here
//!         from the children's lists), end sticky, score at d = score a fresh scorer has at d;
//!       * the Lean implementation-level model (`C13 run`), call by call.
//! (b) real queries: `Weight::scorer` on generated single-segment indexes (term, boolean nestings,
//!     minimum-should-match, phrase, phrase-prefix, range, all, boost, const); oracle = sequence
//!     of a fresh scorer driven by plain `advance`; the Lean specification cursor (`C13 spec`)
//!     must agree with the harness-side cursor.
use crate::rng::Rng;
use crate::Ctx;
use serde::{Deserialize, Serialize};
use serde_json::json;
use std::collections::BTreeSet;
use std::panic::{catch_unwind, AssertUnwindSafe};
use tantivy::query::{
    AllQuery, AllScorer, BitSetDocSet, BooleanQuery, BoostQuery, ConstScoreQuery, ConstScorer, DisjunctionMaxQuery, EmptyScorer,
    EnableScoring, Exclude, Occur, PhrasePrefixQuery, PhraseQuery, Query, RangeQuery, RequiredOptionalScorer, Scorer,
    SumCombiner, TermQuery,
};
use tantivy::schema::{IndexRecordOption, Schema, FAST, INDEXED, TEXT};
use tantivy::{doc, DocId, DocSet, Index, IndexWriter, Term, COLLECT_BLOCK_BUFFER_LEN, TERMINATED};
use tantivy_common::{BitSet, TinySet};

const BLOCK_NUM_TINYBITSETS: usize = 16;
const BLOCK_WINDOW: u32 = 1024;
const HORIZON: u32 = 4096;

static LAST_PANIC: std::sync::Mutex<String> = std::sync::Mutex::new(String::new());
fn last_panic() -> String {
    LAST_PANIC.lock().map(|s| s.clone()).unwrap_or_default()
}

const K_RANGE_OVERFLOW: &str = "C13:range-seek-danger-target-below-last-seek-overflow";
const K_PHRASE_ASSERT: &str = "C13:phrase-seek-danger-target-below-doc-assert";
/// key of a panic: the debug assertion of `PhraseScorer::seek_danger` (target >= doc) is a known finding
fn panic_key() -> &'static str {
    let m = last_panic();
    if m.contains("phrase_scorer.rs") && m.contains("should be greater than or equal to doc") {
        K_PHRASE_ASSERT
    } else if m.contains("fast_field_range_doc_set.rs") && m.contains("subtract with overflow") {
        K_RANGE_OVERFLOW
    } else {
        "C13:panic"
    }
}
const K_CHILD_DANGER: &str = "C13:union-seek-reads-child-doc-in-danger-zone";
const K_BITSET: &str = "C13:bitset-seek-past-max-not-sticky";
const K_NESTED_UNION: &str = "C13:nested-union-seek-danger-bound-overshoots";
const K_S4: &str = "C13:union-fill-buffer-stale-scores";
const K_FILL_SCORE: &str = "C13:union-fill-buffer-score-not-refreshed";
const K_UNION_COUNT: &str = "C13:union-count-doc-not-terminated";
const K_INTER_COUNT: &str = "C13:intersection-dense-count-doc-not-terminated";

// ------------------------------------------------------------------------------------------
// leaf scorer backed by a sorted vector (transcription of tantivy's test-only VecDocSet)
// ------------------------------------------------------------------------------------------
struct VecScorer {
    docs: Vec<DocId>,
    cursor: usize,
    score: f32,
}
impl DocSet for VecScorer {
    fn advance(&mut self) -> DocId {
        self.cursor += 1;
        if self.cursor >= self.docs.len() {
            self.cursor = self.docs.len();
            return TERMINATED;
        }
        self.doc()
    }
    fn doc(&self) -> DocId {
        if self.cursor == self.docs.len() {
            return TERMINATED;
        }
        self.docs[self.cursor]
    }
    fn size_hint(&self) -> u32 {
        self.docs.len() as u32
    }
}
impl Scorer for VecScorer {
    fn score(&mut self) -> f32 {
        self.score
    }
}

/// a boxed Scorer seen as a boxed DocSet (every method forwarded)
struct AsDocSet(Box<dyn Scorer>);
/// a boxed DocSet seen as a Scorer with score 1 (every method forwarded, so that the wrapped
/// type's own `count_including_deleted` / `fill_bitset_block` are reached)
struct FullFwd(Box<dyn DocSet>);
macro_rules! forward_docset {
    ($t:ty) => {
        impl DocSet for $t {
            fn advance(&mut self) -> DocId { self.0.advance() }
            fn seek(&mut self, target: DocId) -> DocId { self.0.seek(target) }
            fn fill_buffer(&mut self, buffer: &mut [DocId; COLLECT_BLOCK_BUFFER_LEN]) -> usize { self.0.fill_buffer(buffer) }
            fn fill_bitset_block(&mut self, min_doc: DocId, mask: &mut [TinySet; BLOCK_NUM_TINYBITSETS]) -> DocId { self.0.fill_bitset_block(min_doc, mask) }
            fn doc(&self) -> DocId { self.0.doc() }
            fn size_hint(&self) -> u32 { self.0.size_hint() }
            fn cost(&self) -> u64 { self.0.cost() }
            fn count_including_deleted(&mut self) -> u32 { self.0.count_including_deleted() }
        }
    };
}
forward_docset!(AsDocSet);
forward_docset!(FullFwd);
impl Scorer for FullFwd {
    fn score(&mut self) -> f32 {
        1.0
    }
}

// ------------------------------------------------------------------------------------------
// scorer trees
// ------------------------------------------------------------------------------------------
#[derive(Serialize, Deserialize, Clone, Debug)]
enum T {
    /// leaf; `kind`: 0 VecScorer, 1 ConstScorer<VecScorer>, 2 ConstScorer<BitSetDocSet>,
    /// 3 AllScorer (docs = 0..n, score 1), 4 EmptyScorer (docs = [])
    Leaf { docs: Vec<u32>, score: u32, kind: u8 },
    BUnion { sum: bool, cs: Vec<T>, num_docs: u32 },
    Inter { cs: Vec<T>, num_docs: u32 },
    Excl { u: Box<T>, es: Vec<T>, single: bool },
    ReqOpt { sum: bool, req: Box<T>, opt: Box<T> },
    /// `SimpleUnion` (a DocSet, not a Scorer: score 1)
    SUnion { cs: Vec<T> },
    /// `Disjunction` (minimum-should-match heap), `min_match >= 2`
    Disj { sum: bool, min_match: usize, cs: Vec<T> },
    /// top-level `BufferedUnionScorer` with `DisjunctionMaxCombiner::with_tie_breaker(tie4 / 4)`;
    /// not modelled in Lean: oracle only (brute-force dismax of the children's scores)
    DisMax { tie4: u8, cs: Vec<T>, num_docs: u32 },
}

fn merge(a: &[u32], b: &[u32]) -> Vec<u32> {
    let s: BTreeSet<u32> = a.iter().chain(b.iter()).cloned().collect();
    s.into_iter().collect()
}

impl T {
    fn docs(&self) -> Vec<u32> {
        match self {
            T::Leaf { docs, .. } => docs.clone(),
            T::BUnion { cs, .. } => cs.iter().fold(vec![], |acc, c| merge(&acc, &c.docs())),
            T::Inter { cs, .. } => {
                let mut it = cs.iter();
                let mut acc = it.next().map(|c| c.docs()).unwrap_or_default();
                for c in it {
                    let d: BTreeSet<u32> = c.docs().into_iter().collect();
                    acc.retain(|x| d.contains(x));
                }
                acc
            }
            T::Excl { u, es, .. } => {
                let mut acc = u.docs();
                for e in es {
                    let d: BTreeSet<u32> = e.docs().into_iter().collect();
                    acc.retain(|x| !d.contains(x));
                }
                acc
            }
            T::ReqOpt { req, .. } => req.docs(),
            T::SUnion { cs } | T::DisMax { cs, .. } => cs.iter().fold(vec![], |acc, c| merge(&acc, &c.docs())),
            T::Disj { min_match, cs, .. } => {
                let mut cnt: std::collections::BTreeMap<u32, usize> = Default::default();
                for c in cs {
                    for d in c.docs() {
                        *cnt.entry(d).or_insert(0) += 1;
                    }
                }
                cnt.into_iter().filter(|(_, n)| *n >= *min_match).map(|(d, _)| d).collect()
            }
        }
    }
    /// brute-force score of document `d` (None: not a member)
    fn score_at(&self, d: u32) -> Option<u32> {
        match self {
            T::Leaf { docs, score, .. } => docs.binary_search(&d).ok().map(|_| *score),
            T::BUnion { sum, cs, .. } => {
                let v: Vec<u32> = cs.iter().filter_map(|c| c.score_at(d)).collect();
                if v.is_empty() { None } else if *sum { Some(v.iter().sum()) } else { Some(1) }
            }
            T::Inter { cs, .. } => {
                let v: Vec<Option<u32>> = cs.iter().map(|c| c.score_at(d)).collect();
                if v.iter().all(|x| x.is_some()) { Some(v.iter().map(|x| x.unwrap()).sum()) } else { None }
            }
            T::Excl { u, es, .. } => {
                if es.iter().any(|e| e.score_at(d).is_some()) { None } else { u.score_at(d) }
            }
            T::ReqOpt { sum, req, opt } => req.score_at(d).map(|r| if *sum { r + opt.score_at(d).unwrap_or(0) } else { 1 }),
            T::SUnion { cs } | T::DisMax { cs, .. } => if cs.iter().any(|c| c.score_at(d).is_some()) { Some(1) } else { None },
            T::Disj { sum, min_match, cs } => {
                let v: Vec<u32> = cs.iter().filter_map(|c| c.score_at(d)).collect();
                if v.len() < *min_match { None } else if *sum { Some(v.iter().sum()) } else { Some(1) }
            }
        }
    }
    fn depth(&self) -> usize {
        match self {
            T::Leaf { .. } => 0,
            T::BUnion { cs, .. } | T::Inter { cs, .. } | T::SUnion { cs } | T::Disj { cs, .. } | T::DisMax { cs, .. } => 1 + cs.iter().map(|c| c.depth()).max().unwrap_or(0),
            T::Excl { u, es, .. } => 1 + u.depth().max(es.iter().map(|c| c.depth()).max().unwrap_or(0)),
            T::ReqOpt { req, opt, .. } => 1 + req.depth().max(opt.depth()),
        }
    }
    fn top(&self) -> &'static str {
        match self {
            T::Leaf { kind, .. } => match kind { 0 => "vec", 1 => "const-vec", 2 => "bitset", 3 => "all", _ => "empty" },
            T::BUnion { sum: true, .. } => "bunion-sum",
            T::BUnion { .. } => "bunion",
            T::Inter { .. } => "inter",
            T::Excl { .. } => "excl",
            T::ReqOpt { .. } => "reqopt",
            T::SUnion { .. } => "sunion",
            T::Disj { .. } => "disj",
            T::DisMax { .. } => "dismax",
        }
    }
    fn has_nested_bunion_in_bunion(&self) -> bool {
        match self {
            T::Leaf { .. } => false,
            T::BUnion { cs, .. } => cs.iter().any(|c| matches!(c, T::BUnion { .. }) || c.has_nested_bunion_in_bunion()),
            T::Inter { cs, .. } | T::SUnion { cs } | T::Disj { cs, .. } | T::DisMax { cs, .. } => cs.iter().any(|c| c.has_nested_bunion_in_bunion()),
            T::Excl { u, es, .. } => u.has_nested_bunion_in_bunion() || es.iter().any(|c| c.has_nested_bunion_in_bunion()),
            T::ReqOpt { req, opt, .. } => req.has_nested_bunion_in_bunion() || opt.has_nested_bunion_in_bunion(),
        }
    }
}

impl T {
    fn has_dismax(&self) -> bool {
        matches!(self, T::DisMax { .. })
    }
    /// brute-force score of `d` as the real combiner computes it (exact in f32 for the small integer
    /// child scores and tie breakers 1/4, 1/2 used here)
    fn score_f32(&self, d: u32) -> Option<f32> {
        match self {
            T::DisMax { tie4, cs, .. } => {
                let v: Vec<f32> = cs.iter().filter_map(|c| c.score_f32(d)).collect();
                if v.is_empty() {
                    return None;
                }
                let max = v.iter().cloned().fold(0.0f32, f32::max);
                let sum: f32 = v.iter().sum();
                Some(max + (sum - max) * (*tie4 as f32 / 4.0))
            }
            _ => self.score_at(d).map(|x| x as f32),
        }
    }
    fn has_inter(&self) -> bool {
        match self {
            T::Leaf { .. } => false,
            T::Inter { .. } => true,
            T::BUnion { cs, .. } | T::SUnion { cs } | T::Disj { cs, .. } | T::DisMax { cs, .. } => cs.iter().any(|c| c.has_inter()),
            T::Excl { u, es, .. } => u.has_inter() || es.iter().any(|c| c.has_inter()),
            T::ReqOpt { req, opt, .. } => req.has_inter() || opt.has_inter(),
        }
    }
    fn has_bunion(&self) -> bool {
        match self {
            T::Leaf { .. } => false,
            T::BUnion { .. } | T::DisMax { .. } => true,
            T::Inter { cs, .. } | T::SUnion { cs } | T::Disj { cs, .. } => cs.iter().any(|c| c.has_bunion()),
            T::Excl { u, es, .. } => u.has_bunion() || es.iter().any(|c| c.has_bunion()),
            T::ReqOpt { req, opt, .. } => req.has_bunion() || opt.has_bunion(),
        }
    }
    fn has_bitset(&self) -> bool {
        match self {
            T::Leaf { kind, .. } => *kind == 2,
            T::BUnion { cs, .. } | T::Inter { cs, .. } | T::SUnion { cs } | T::Disj { cs, .. } | T::DisMax { cs, .. } => cs.iter().any(|c| c.has_bitset()),
            T::Excl { u, es, .. } => u.has_bitset() || es.iter().any(|c| c.has_bitset()),
            T::ReqOpt { req, opt, .. } => req.has_bitset() || opt.has_bitset(),
        }
    }
    /// the same tree with BitSetDocSet leaves replaced by vector leaves
    fn without_bitset(&self) -> T {
        match self {
            T::Leaf { docs, score, kind } => T::Leaf { docs: docs.clone(), score: *score, kind: if *kind == 2 { 1 } else { *kind } },
            T::BUnion { sum, cs, num_docs } => T::BUnion { sum: *sum, cs: cs.iter().map(|c| c.without_bitset()).collect(), num_docs: *num_docs },
            T::Inter { cs, num_docs } => T::Inter { cs: cs.iter().map(|c| c.without_bitset()).collect(), num_docs: *num_docs },
            T::Excl { u, es, single } => T::Excl { u: Box::new(u.without_bitset()), es: es.iter().map(|c| c.without_bitset()).collect(), single: *single },
            T::ReqOpt { sum, req, opt } => T::ReqOpt { sum: *sum, req: Box::new(req.without_bitset()), opt: Box::new(opt.without_bitset()) },
            T::SUnion { cs } => T::SUnion { cs: cs.iter().map(|c| c.without_bitset()).collect() },
            T::DisMax { tie4, cs, num_docs } => T::DisMax { tie4: *tie4, cs: cs.iter().map(|c| c.without_bitset()).collect(), num_docs: *num_docs },
            T::Disj { sum, min_match, cs } => T::Disj { sum: *sum, min_match: *min_match, cs: cs.iter().map(|c| c.without_bitset()).collect() },
        }
    }
    /// the same document sets with buffered unions nested directly in buffered unions flattened
    fn flatten_unions(&self) -> T {
        match self {
            T::Leaf { .. } => self.clone(),
            T::BUnion { sum, cs, num_docs } => {
                let mut out = vec![];
                for c in cs {
                    match c.flatten_unions() {
                        T::BUnion { cs: inner, .. } => out.extend(inner),
                        other => out.push(other),
                    }
                }
                T::BUnion { sum: *sum, cs: out, num_docs: *num_docs }
            }
            T::Inter { cs, num_docs } => T::Inter { cs: cs.iter().map(|c| c.flatten_unions()).collect(), num_docs: *num_docs },
            T::Excl { u, es, single } => T::Excl { u: Box::new(u.flatten_unions()), es: es.iter().map(|c| c.flatten_unions()).collect(), single: *single },
            T::ReqOpt { sum, req, opt } => T::ReqOpt { sum: *sum, req: Box::new(req.flatten_unions()), opt: Box::new(opt.flatten_unions()) },
            T::SUnion { cs } => T::SUnion { cs: cs.iter().map(|c| c.flatten_unions()).collect() },
            T::DisMax { tie4, cs, num_docs } => T::DisMax { tie4: *tie4, cs: cs.iter().map(|c| c.flatten_unions()).collect(), num_docs: *num_docs },
            T::Disj { sum, min_match, cs } => T::Disj { sum: *sum, min_match: *min_match, cs: cs.iter().map(|c| c.flatten_unions()).collect() },
        }
    }
}

struct Built {
    scorer: Box<dyn Scorer>,
    /// the tree in the model's prefix notation (children of intersections in cost order)
    model: String,
    /// dense branch taken by `Intersection::count_including_deleted` if this is an intersection
    dense: bool,
}

fn build(t: &T) -> Built {
    match t {
        T::Leaf { docs, score, kind } => {
            let sc = *score as f32;
            let scorer: Box<dyn Scorer> = match kind {
                0 => Box::new(VecScorer { docs: docs.clone(), cursor: 0, score: sc }),
                1 => Box::new(ConstScorer::new(VecScorer { docs: docs.clone(), cursor: 0, score: 77.0 }, sc)),
                2 => {
                    let max = docs.last().map(|d| d + 1).unwrap_or(1) + (*score % 3) * 40;
                    let mut bs = BitSet::with_max_value(max);
                    for d in docs {
                        bs.insert(*d);
                    }
                    Box::new(ConstScorer::new(BitSetDocSet::from(bs), sc))
                }
                3 => Box::new(AllScorer::new(docs.len() as u32)),
                _ => Box::new(EmptyScorer),
            };
            let model = if *kind == 2 {
                let max = docs.last().map(|d| d + 1).unwrap_or(1) + (*score % 3) * 40;
                format!("bs;{};{};{}", crate::model::nat_list(docs), max, score)
            } else {
                format!("v;{};{}", crate::model::nat_list(docs), score)
            };
            Built { scorer, model, dense: false }
        }
        T::BUnion { sum, cs, num_docs } => {
            let bs: Vec<Built> = cs.iter().map(build).collect();
            let model = format!("bu;{};{};{}", *sum as u8, bs.len(), bs.iter().map(|b| b.model.clone()).collect::<Vec<_>>().join(";"));
            let children: Vec<Box<dyn Scorer>> = bs.into_iter().map(|b| b.scorer).collect();
            let scorer = if *sum {
                tantivy::verif::c13_buffered_union_sum(children, *num_docs)
            } else {
                tantivy::verif::c13_buffered_union_do_nothing(children, *num_docs)
            };
            Built { scorer, model, dense: false }
        }
        T::Inter { cs, num_docs } => {
            let mut bs: Vec<Built> = cs.iter().map(build).collect();
            // same stable sort as `intersect_scorers`
            bs.sort_by_key(|b| b.scorer.cost());
            let dense = !(bs[0].scorer.size_hint().saturating_mul(32) < *num_docs);
            let model = format!("in;{};{};{}", dense as u8, bs.len(), bs.iter().map(|b| b.model.clone()).collect::<Vec<_>>().join(";"));
            let children: Vec<Box<dyn Scorer>> = bs.into_iter().map(|b| b.scorer).collect();
            Built { scorer: tantivy::query::intersect_scorers(children, *num_docs), model, dense }
        }
        T::Excl { u, es, single } => {
            let bu = build(u);
            let bes: Vec<Built> = es.iter().map(build).collect();
            let model = format!("ex;{};{};{}", bes.len(), bu.model, bes.iter().map(|b| b.model.clone()).collect::<Vec<_>>().join(";"));
            let mut excl: Vec<Box<dyn Scorer>> = bes.into_iter().map(|b| b.scorer).collect();
            let scorer: Box<dyn Scorer> = if *single && excl.len() == 1 {
                Box::new(Exclude::new(bu.scorer, excl.pop().unwrap()))
            } else {
                Box::new(Exclude::new(bu.scorer, excl))
            };
            Built { scorer, model, dense: false }
        }
        T::DisMax { tie4, cs, num_docs } => {
            let bs: Vec<Built> = cs.iter().map(build).collect();
            let model = format!("dismax-not-modelled;{}", bs.len());
            let children: Vec<Box<dyn Scorer>> = bs.into_iter().map(|b| b.scorer).collect();
            Built { scorer: tantivy::verif::c13_buffered_union_dismax(children, *tie4 as f32 / 4.0, *num_docs), model, dense: false }
        }
        T::SUnion { cs } => {
            let bs: Vec<Built> = cs.iter().map(build).collect();
            let model = format!("su;{};{}", bs.len(), bs.iter().map(|b| b.model.clone()).collect::<Vec<_>>().join(";"));
            let children: Vec<Box<dyn DocSet>> = bs.into_iter().map(|b| Box::new(AsDocSet(b.scorer)) as Box<dyn DocSet>).collect();
            Built { scorer: Box::new(FullFwd(tantivy::verif::simple_union(children))), model, dense: false }
        }
        T::Disj { sum, min_match, cs } => {
            let bs: Vec<Built> = cs.iter().map(build).collect();
            let model = format!("dj;{};{};{};{}", *sum as u8, min_match, bs.len(), bs.iter().map(|b| b.model.clone()).collect::<Vec<_>>().join(";"));
            let children: Vec<Box<dyn Scorer>> = bs.into_iter().map(|b| b.scorer).collect();
            let scorer = if *sum { tantivy::verif::disjunction_sum(children, *min_match) } else { tantivy::verif::disjunction_do_nothing(children, *min_match) };
            Built { scorer, model, dense: false }
        }
        T::ReqOpt { sum, req, opt } => {
            let br = build(req);
            let bo = build(opt);
            let model = format!("ro;{};{};{}", *sum as u8, br.model, bo.model);
            let scorer: Box<dyn Scorer> = if *sum {
                Box::new(RequiredOptionalScorer::<Box<dyn Scorer>, Box<dyn Scorer>, SumCombiner>::new(br.scorer, bo.scorer))
            } else {
                tantivy::verif::c13_reqopt_do_nothing(br.scorer, bo.scorer)
            };
            Built { scorer, model, dense: false }
        }
    }
}

// ------------------------------------------------------------------------------------------
// generators
// ------------------------------------------------------------------------------------------
fn gen_docs(rng: &mut Rng, max_doc: u32) -> Vec<u32> {
    let mut s: BTreeSet<u32> = BTreeSet::new();
    let style = rng.below(10);
    match style {
        10 | 11 => {
            // arithmetic progression spanning several union windows: every window offset that holds a
            // document in one window holds one in the next windows too
            let step = *rng.pick(&[3u32, 5, 7, 11]);
            let start = rng.below(70) as u32;
            let end = max_doc.min(start + HORIZON * 2 + 1500 + rng.below(3000) as u32);
            let mut d = start;
            while d < end {
                s.insert(d);
                d += step;
            }
        }
        0 => {}
        1 => {
            s.insert(rng.below(max_doc as u64) as u32);
        }
        2 => {
            // dense run crossing block / window ends
            let start = *rng.pick(&[0u32, 100, 127, 4000, 4095, 4096, 8100]) % max_doc;
            let len = *rng.pick(&[1u32, 63, 64, 65, 127, 128, 129, 300, 1100]);
            for d in start..(start + len).min(max_doc) {
                s.insert(d);
            }
        }
        3 | 4 => {
            // clusters around window ends
            for k in 0..4u32 {
                let c = k * HORIZON + rng.below(3) as u32 * 64;
                for _ in 0..rng.below(12) {
                    let d = (c as i64 + rng.below(9) as i64 - 4).max(0) as u32;
                    if d < max_doc {
                        s.insert(d);
                    }
                }
            }
            for _ in 0..rng.below(20) {
                s.insert(rng.below(max_doc as u64) as u32);
            }
        }
        _ => {
            let n = *rng.pick(&[2u64, 5, 20, 64, 65, 129, 400]);
            for _ in 0..n {
                s.insert(rng.below(max_doc as u64) as u32);
            }
        }
    }
    if rng.chance(1, 25) {
        // ids just below the end marker
        s.insert(TERMINATED - 1 - rng.below(3) as u32);
    }
    s.into_iter().collect()
}

fn gen_leaf(rng: &mut Rng, max_doc: u32, pool: &[Vec<u32>]) -> T {
    let score = 1 + rng.below(7) as u32;
    // share documents with earlier leaves so that intersections are not empty
    let mut docs = if !pool.is_empty() && rng.chance(1, 2) {
        let base = rng.pick(pool).clone();
        let extra = gen_docs(rng, max_doc);
        let keep: Vec<u32> = base.into_iter().filter(|_| rng.chance(2, 3)).collect();
        merge(&keep, &extra)
    } else {
        gen_docs(rng, max_doc)
    };
    let kind = match rng.below(12) {
        0..=5 => 0,
        6 | 7 => 1,
        8 | 9 => 2,
        10 => 3,
        _ => 4,
    };
    if kind == 2 {
        docs.retain(|d| *d < 100_000);
    }
    if kind == 3 {
        let n = *rng.pick(&[1u32, 2, 64, 65, 200, 4097]);
        return T::Leaf { docs: (0..n).collect(), score: 1, kind };
    }
    if kind == 4 {
        return T::Leaf { docs: vec![], score: 0, kind };
    }
    T::Leaf { docs, score, kind }
}

fn gen_tree(rng: &mut Rng, depth: usize, max_doc: u32, pool: &mut Vec<Vec<u32>>) -> T {
    if depth == 0 || rng.chance(1, 5) {
        let l = gen_leaf(rng, max_doc, pool);
        if let T::Leaf { docs, .. } = &l {
            pool.push(docs.clone());
        }
        return l;
    }
    let num_docs = *rng.pick(&[1u32, max_doc + 1, 1_000_000]);
    match rng.below(13) {
        10 => {
            let n = *rng.pick(&[1usize, 2, 2, 3, 4]);
            return T::SUnion { cs: (0..n).map(|_| gen_tree(rng, depth - 1, max_doc, pool)).collect() };
        }
        11 | 12 => {
            let n = *rng.pick(&[1usize, 2, 3, 3, 4, 5]);
            let k = 2 + rng.usize_below(3);
            return T::Disj { sum: rng.chance(2, 3), min_match: k, cs: (0..n).map(|_| gen_tree(rng, depth - 1, max_doc, pool)).collect() };
        }
        0..=3 => {
            let n = *rng.pick(&[1usize, 2, 2, 3, 4]);
            T::BUnion { sum: rng.chance(2, 3), cs: (0..n).map(|_| gen_tree(rng, depth - 1, max_doc, pool)).collect(), num_docs }
        }
        4..=6 => {
            let n = *rng.pick(&[2usize, 2, 3, 4, 5, 6]);
            // `count_including_deleted` picks its branch from `left.size_hint()` at call time, which
            // for union children depends on how many of their children are left; size hints are not
            // modelled, so the branch is made independent of the state: segment_num_docs = 0 always
            // takes the dense branch, u32::MAX the sparse one
            let _ = num_docs;
            T::Inter { cs: (0..n).map(|_| gen_tree(rng, depth - 1, max_doc, pool)).collect(), num_docs: if rng.chance(1, 2) { 0 } else { u32::MAX } }
        }
        7 | 8 => {
            let n = *rng.pick(&[1usize, 1, 2, 3]);
            T::Excl {
                u: Box::new(gen_tree(rng, depth - 1, max_doc, pool)),
                es: (0..n).map(|_| gen_tree(rng, depth - 1, max_doc, pool)).collect(),
                single: rng.chance(1, 2),
            }
        }
        _ => T::ReqOpt {
            sum: rng.chance(2, 3),
            req: Box::new(gen_tree(rng, depth - 1, max_doc, pool)),
            opt: Box::new(gen_tree(rng, depth - 1, max_doc, pool)),
        },
    }
}

#[derive(Clone, Debug, PartialEq)]
enum Call {
    Doc,
    Adv,
    Seek(u32),
    Danger(u32),
    Fill,
    Bits(u32),
    Count,
    Score,
}

impl Call {
    fn text(&self) -> String {
        match self {
            Call::Doc => "d".into(),
            Call::Adv => "a".into(),
            Call::Seek(t) => format!("s{t}"),
            Call::Danger(t) => format!("k{t}"),
            Call::Fill => "f".into(),
            Call::Bits(m) => format!("b{m}"),
            Call::Count => "c".into(),
            Call::Score => "x".into(),
        }
    }
    fn parse(s: &str) -> Option<Call> {
        let (h, r) = s.split_at(1);
        Some(match h {
            "d" => Call::Doc,
            "a" => Call::Adv,
            "f" => Call::Fill,
            "c" => Call::Count,
            "x" => Call::Score,
            "s" => Call::Seek(r.parse().ok()?),
            "k" => Call::Danger(r.parse().ok()?),
            "b" => Call::Bits(r.parse().ok()?),
            _ => return None,
        })
    }
}

/// specification cursor (harness side): position in the full sorted list + danger marker
struct Cursor<'a> {
    all: &'a [u32],
    pos: usize,
    danger: Option<u32>,
    counted: bool,
}
impl<'a> Cursor<'a> {
    fn doc(&self) -> u32 {
        self.all.get(self.pos).cloned().unwrap_or(TERMINATED)
    }
    fn seek(&mut self, t: u32) {
        while self.pos < self.all.len() && self.all[self.pos] < t {
            self.pos += 1;
        }
    }
    /// expected observation of `call` (in the model's output syntax; `k` misses only `L`), and
    /// the state change
    fn step(&mut self, call: &Call) -> String {
        match call {
            Call::Doc => self.doc().to_string(),
            Call::Adv => {
                if self.pos < self.all.len() {
                    self.pos += 1;
                }
                self.doc().to_string()
            }
            Call::Seek(t) => {
                self.seek(*t);
                self.danger = None;
                self.doc().to_string()
            }
            Call::Danger(t) => {
                self.seek(*t);
                if self.doc() == *t && *t != TERMINATED {
                    self.danger = None;
                    "F".into()
                } else {
                    self.danger = Some(*t);
                    "L".into()
                }
            }
            Call::Fill => {
                let end = (self.pos + COLLECT_BLOCK_BUFFER_LEN).min(self.all.len());
                let out = crate::model::nat_list(&self.all[self.pos..end]);
                self.pos = end;
                format!("f:{out}")
            }
            Call::Bits(m) => {
                self.seek(*m);
                let start = self.pos;
                self.seek(*m + BLOCK_WINDOW);
                format!("b:{}:{}", crate::model::nat_list(&self.all[start..self.pos]), self.doc())
            }
            Call::Count => {
                let n = self.all.len() - self.pos;
                self.pos = self.all.len();
                self.counted = true;
                format!("c:{n}")
            }
            Call::Score => "x".into(),
        }
    }
}

fn gen_target(rng: &mut Rng, cur: &Cursor, lo: u32) -> u32 {
    let all = cur.all;
    let first = all.first().cloned().unwrap_or(0);
    let t = match rng.below(14) {
        0 => lo,
        1 => lo.saturating_add(1),
        2 | 3 => {
            // a member ahead
            if cur.pos < all.len() { let w = 1 + rng.usize_below(200); all[cur.pos + rng.usize_below((all.len() - cur.pos).min(w))] } else { lo }
        }
        4 => {
            let m = if cur.pos < all.len() { all[cur.pos + rng.usize_below(all.len() - cur.pos)] } else { lo };
            if rng.chance(1, 2) { m.saturating_add(1) } else { m.saturating_sub(1) }
        }
        5 => (lo / 128 + 1) * 128 - rng.below(2) as u32,
        6 | 7 => {
            // window ends relative to plausible window starts
            let ws = *rng.pick(&[lo, first, cur.doc()]);
            let k = 1 + rng.below(3) as u32;
            (ws.saturating_add(k * HORIZON) as i64 + rng.below(3) as i64 - 1) as u32
        }
        8 => lo.saturating_add(HORIZON - 1 + rng.below(3) as u32),
        9 => TERMINATED - 1,
        10 => TERMINATED,
        11 => lo.saturating_add(rng.below(70) as u32),
        _ => {
            let hi = all.last().cloned().unwrap_or(10).saturating_add(10).min(TERMINATED);
            if hi > lo { lo + rng.below((hi - lo) as u64 + 1) as u32 } else { lo }
        }
    };
    t.max(lo).min(TERMINATED)
}

/// a legal program for a set whose full document list is `all`
/// "bucket-skip sweep": an in-horizon seek over whole 64-doc buckets that still hold documents,
/// then on to the end of the window, across the boundary by plain advances, and a sweep with
/// `score()` at every document over the offsets that were skipped in the previous window
fn gen_sweep(rng: &mut Rng, all: &[u32]) -> Vec<Call> {
    let mut cur = Cursor { all, pos: 0, danger: None, counted: false };
    let mut prog = vec![];
    let push = |prog: &mut Vec<Call>, cur: &mut Cursor, c: Call| {
        let c = match c {
            Call::Seek(t) => Call::Seek(t.min(TERMINATED)),
            other => other,
        };
        cur.step(&c);
        prog.push(c);
        if cur.doc() != TERMINATED {
            prog.push(Call::Score);
        }
    };
    if cur.doc() == TERMINATED {
        return vec![Call::Doc];
    }
    prog.push(Call::Score);
    let mut ws = cur.doc();
    for _ in 0..(1 + rng.below(2)) {
        let d = cur.doc();
        if d == TERMINATED || d - ws >= HORIZON - 200 {
            break;
        }
        let lo_off = d - ws;
        let b = 1 + rng.below(10) as u32;
        let t1 = (d + 64 * b + rng.below(64) as u32).min(ws + HORIZON - 130);
        if t1 <= d {
            break;
        }
        push(&mut prog, &mut cur, Call::Seek(t1));
        let hi_off = t1 - ws;
        for _ in 0..rng.below(4) {
            push(&mut prog, &mut cur, Call::Adv);
        }
        // to the end of the window, then across by plain advances
        let t2 = ws + HORIZON - 1 - rng.below(120) as u32;
        if t2 > cur.doc() {
            push(&mut prog, &mut cur, Call::Seek(t2));
        }
        let mut guard = 0;
        while cur.doc() != TERMINATED && cur.doc() < ws + HORIZON && guard < 200 {
            push(&mut prog, &mut cur, Call::Adv);
            guard += 1;
        }
        if cur.doc() == TERMINATED || cur.doc() < ws + HORIZON {
            break;
        }
        ws = cur.doc();
        // sweep the offsets skipped in the previous window
        if lo_off > 64 && rng.chance(1, 2) {
            let t3 = ws + lo_off;
            if t3 > cur.doc() {
                push(&mut prog, &mut cur, Call::Seek(t3));
            }
        }
        let mut n = 0;
        while cur.doc() != TERMINATED && cur.doc() <= ws + hi_off + 64 && n < 450 {
            push(&mut prog, &mut cur, Call::Adv);
            n += 1;
        }
    }
    prog
}

fn gen_program(rng: &mut Rng, all: &[u32], want_scores: bool) -> Vec<Call> {
    if want_scores && all.len() >= 2 && rng.chance(1, 5) {
        return gen_sweep(rng, all);
    }
    let score_dense = want_scores && rng.chance(1, 3);
    let mut cur = Cursor { all, pos: 0, danger: None, counted: false };
    let mut prog = vec![];
    let maxlen = *rng.pick(&[4usize, 12, 30, 60]);
    let len = 1 + rng.usize_below(maxlen);
    let fill_heavy = rng.chance(1, 6);
    while prog.len() < len {
        let call = if let Some(t0) = cur.danger {
            if t0 >= TERMINATED {
                break;
            }
            // only seek_danger with a larger target is legal now
            let next_member = all.iter().cloned().find(|d| *d > t0);
            let t = match (rng.below(4), next_member) {
                (0 | 1, Some(m)) => m,
                (2, Some(m)) if m > t0 + 1 => t0 + 1 + rng.below((m - t0 - 1) as u64) as u32,
                (3, _) => gen_target(rng, &cur, t0 + 1),
                (_, Some(m)) => m,
                (_, None) => if rng.chance(1, 2) { TERMINATED } else { gen_target(rng, &cur, t0 + 1) },
            };
            Call::Danger(t.max(t0 + 1).min(TERMINATED))
        } else {
            let r = rng.below(if fill_heavy { 30 } else { 22 });
            match r {
                0..=4 => Call::Adv,
                5..=8 => Call::Seek(gen_target(rng, &cur, cur.doc())),
                9 | 10 => Call::Danger(gen_target(rng, &cur, cur.doc())),
                11 => Call::Seek(cur.doc()),
                12 => Call::Doc,
                13 | 14 => {
                    if want_scores && cur.doc() != TERMINATED { Call::Score } else { Call::Adv }
                }
                15 => {
                    let lo = cur.doc();
                    if lo.saturating_add(BLOCK_WINDOW) <= TERMINATED {
                        let m = gen_target(rng, &cur, lo);
                        if m.saturating_add(BLOCK_WINDOW) <= TERMINATED { Call::Bits(m) } else { Call::Bits(lo) }
                    } else {
                        Call::Adv
                    }
                }
                16 => {
                    if rng.chance(1, 3) || prog.len() + 1 >= len { Call::Count } else { Call::Adv }
                }
                _ => Call::Fill,
            }
        };
        cur.step(&call);
        let is_count = call == Call::Count;
        let moved = !matches!(call, Call::Doc | Call::Score);
        prog.push(call);
        if is_count {
            // the set is consumed: the end must be reported from now on
            prog.extend([Call::Doc, Call::Adv, Call::Doc]);
            break;
        }
        if moved && cur.danger.is_none() && want_scores && cur.doc() != TERMINATED && (score_dense || rng.chance(1, 3)) {
            prog.push(Call::Score);
        }
    }
    prog
}

// ------------------------------------------------------------------------------------------
// running a program on a real scorer
// ------------------------------------------------------------------------------------------
fn fmt_score(s: f32) -> String {
    if s.fract() == 0.0 && s.abs() < 1e9 { format!("x:{}", s as i64) } else { format!("x:{s}") }
}

/// observations in the model's syntax; second component: internal inconsistencies
/// (return value of a call ≠ `doc()` right after it)
fn run_real(scorer: &mut dyn Scorer, prog: &[Call], obs: &mut Vec<String>, docs_after: &mut Vec<u32>, incons: &mut Vec<String>) {
    for (i, call) in prog.iter().enumerate() {
        let o = match call {
            Call::Doc => scorer.doc().to_string(),
            Call::Adv => {
                let r = scorer.advance();
                if r != scorer.doc() {
                    incons.push(format!("call {i}: advance() returned {r} but doc() = {}", scorer.doc()));
                }
                r.to_string()
            }
            Call::Seek(t) => {
                let r = scorer.seek(*t);
                if r != scorer.doc() {
                    incons.push(format!("call {i}: seek({t}) returned {r} but doc() = {}", scorer.doc()));
                }
                r.to_string()
            }
            Call::Danger(t) => {
                // `SeekDangerResult` is not exported by tantivy: read it through its Debug form
                let r = format!("{:?}", scorer.seek_danger(*t));
                if r == "Found" {
                    "F".to_string()
                } else {
                    format!("L{}", r.trim_start_matches("SeekLowerBound(").trim_end_matches(')'))
                }
            }
            Call::Fill => {
                let mut buf = [0u32; COLLECT_BLOCK_BUFFER_LEN];
                let n = scorer.fill_buffer(&mut buf);
                format!("f:{}", crate::model::nat_list(&buf[..n.min(COLLECT_BLOCK_BUFFER_LEN)]))
            }
            Call::Bits(m) => {
                let mut mask = [TinySet::empty(); BLOCK_NUM_TINYBITSETS];
                let next = scorer.fill_bitset_block(*m, &mut mask);
                let mut ds = vec![];
                for (b, ts) in mask.iter().enumerate() {
                    for bit in ts.into_iter() {
                        ds.push(*m + b as u32 * 64 + bit);
                    }
                }
                format!("b:{}:{}", crate::model::nat_list(&ds), next)
            }
            Call::Count => format!("c:{}", scorer.count_including_deleted()),
            Call::Score => fmt_score(scorer.score()),
        };
        obs.push(o);
        docs_after.push(scorer.doc());
    }
}

struct Verdicts {
    oracle: Vec<(String, String)>,
}

/// judge the observations of one program against the specification cursor.
/// `expected_score(d)`: score of a fresh scorer at `d` (None: unknown / not comparable)
fn judge_oracle(
    t_top: &str,
    dense_inter: bool,
    all: &[u32],
    prog: &[Call],
    obs: &[String],
    docs_after: &[u32],
    expected_score: &dyn Fn(u32) -> Option<String>,
    score_tol: bool,
) -> Verdicts {
    let mut v = Verdicts { oracle: vec![] };
    let mut cur = Cursor { all, pos: 0, danger: None, counted: false };
    let mut fills_before = 0usize;
    let mut moved_since_fill = true;
    for (i, call) in prog.iter().enumerate() {
        if i >= obs.len() {
            break;
        }
        let before_doc = cur.doc();
        let before_pos = cur.pos;
        let exp = cur.step(call);
        let got = &obs[i];
        let stale_after_count = matches!(call, Call::Doc)
            && i > 0
            && matches!(prog[i - 1], Call::Count)
            && v.oracle.iter().any(|(k, _)| k == K_UNION_COUNT || k == K_INTER_COUNT);
        if stale_after_count {
            continue;
        }
        match call {
            Call::Danger(t) => {
                if exp == "F" {
                    if got != "F" {
                        v.oracle.push(("C13:seek-danger-missed-member".into(), format!("call {i} seek_danger({t}): {t} is a member but got {got}")));
                        return v;
                    }
                    if docs_after[i] != *t {
                        v.oracle.push(("C13:seek-danger-found-wrong-doc".into(), format!("call {i} seek_danger({t}) = Found but doc() = {}", docs_after[i])));
                        return v;
                    }
                } else {
                    if got == "F" {
                        v.oracle.push(("C13:seek-danger-found-non-member".into(), format!("call {i} seek_danger({t}) = Found but {t} is not a member")));
                        return v;
                    }
                    let b: u32 = got[1..].parse().unwrap_or(0);
                    let next = cur.doc(); // first member >= t (t itself is not a member)
                    if !(b == TERMINATED || (b > *t && b <= next)) {
                        v.oracle.push(("C13:seek-danger-bound-out-of-range".into(), format!("call {i} seek_danger({t}) = SeekLowerBound({b}); must be in ({t}, {next}] or TERMINATED")));
                        return v;
                    }
                }
            }
            Call::Score => {
                if let Some(e) = expected_score(before_doc) {
                    let same = if score_tol {
                        let (a, b): (f32, f32) = (got[2..].parse().unwrap_or(f32::NAN), e[2..].parse().unwrap_or(f32::NAN));
                        (a - b).abs() <= 1e-5 * b.abs().max(1.0)
                    } else {
                        *got == e
                    };
                    if !same {
                        let (a, b): (f64, f64) = (got[2..].parse().unwrap_or(f64::NAN), e[2..].parse().unwrap_or(f64::NAN));
                        let key = if t_top == "bunion-sum" && fills_before > 0 && !moved_since_fill {
                            K_FILL_SCORE
                        } else if t_top == "bunion-sum" && fills_before > 0 && a > b {
                            K_S4
                        } else {
                            "C13:score-path-dependent"
                        };
                        v.oracle.push((key.into(), format!("call {i} score() at doc {before_doc} = {} but the reference score of that doc is {} (direct trees: brute-force combination of the children's scores; queries: a fresh scorer advanced to it)", &got[2..], &e[2..])));
                        if key == "C13:score-path-dependent" {
                            return v;
                        }
                    }
                }
            }
            _ => {
                if *got != exp {
                    v.oracle.push(("C13:sequence-deviates".into(), format!("call {i} {}: expected {exp}, got {got} (document before the call: {before_doc})", call.text())));
                    return v;
                }
            }
        }
        if matches!(call, Call::Fill) {
            fills_before += 1;
            moved_since_fill = false;
        } else if cur.pos != before_pos {
            moved_since_fill = true;
        }
        // doc() after the call
        if cur.danger.is_none() && docs_after[i] != cur.doc() {
            if matches!(call, Call::Count) {
                let key = match (t_top, dense_inter) {
                    ("bunion-sum" | "bunion", _) => K_UNION_COUNT,
                    ("inter", true) => K_INTER_COUNT,
                    _ => "C13:count-doc-not-terminated",
                };
                v.oracle.push((key.into(), format!("after count_including_deleted() doc() = {} instead of TERMINATED", docs_after[i])));
                if key == "C13:count-doc-not-terminated" {
                    return v;
                }
                // the stale doc() persists until the next move; skip the `doc` call that follows
                continue;
            }
            v.oracle.push(("C13:doc-after-call-deviates".into(), format!("after call {i} {}: doc() = {}, expected {}", call.text(), docs_after[i], cur.doc())));
            return v;
        }
    }
    v
}

fn prog_text(prog: &[Call]) -> String {
    if prog.is_empty() { "-".into() } else { prog.iter().map(|c| c.text()).collect::<Vec<_>>().join(";") }
}

fn fresh_scores(t: &T) -> Result<(Vec<u32>, Vec<f32>), String> {
    catch_unwind(AssertUnwindSafe(|| {
        let mut b = build(t);
        let mut docs = vec![];
        let mut scores = vec![];
        let mut d = b.scorer.doc();
        let mut guard = 0u64;
        while d != TERMINATED && guard < 50_000_000 {
            docs.push(d);
            scores.push(b.scorer.score());
            d = b.scorer.advance();
            guard += 1;
        }
        (docs, scores)
    }))
    .map_err(|_| format!("panic while advancing a fresh scorer: {}", last_panic()))
}

/// document-sequence verdicts of `prog` on the real scorer built from `t` (scores ignored);
/// `None`: panic. Used for counterfactual attribution of known findings.
fn sequence_verdicts(t: &T, prog: &[Call]) -> Option<Vec<(String, String)>> {
    let all = t.docs();
    let mut obs = vec![];
    let mut docs_after = vec![];
    let mut incons = vec![];
    let mut dense = false;
    let fresh_ok = catch_unwind(AssertUnwindSafe(|| {
        let mut b = build(t);
        let mut docs = vec![];
        let mut d = b.scorer.doc();
        while d != TERMINATED {
            docs.push(d);
            d = b.scorer.advance();
        }
        docs
    }));
    match fresh_ok {
        Ok(d) if d == all => {}
        Ok(_) => return Some(vec![("C13:advance-sequence-wrong".into(), String::new())]),
        Err(_) => return None,
    }
    let res = catch_unwind(AssertUnwindSafe(|| {
        let mut b = build(t);
        dense = b.dense;
        run_real(b.scorer.as_mut(), prog, &mut obs, &mut docs_after, &mut incons);
    }));
    if res.is_err() {
        return None;
    }
    let v = judge_oracle(t.top(), dense, &all, prog, &obs, &docs_after, &|_| None, false);
    Some(v.oracle)
}

const KNOWN_KEYS: [&str; 6] = [K_S4, K_FILL_SCORE, K_UNION_COUNT, K_INTER_COUNT, K_BITSET, K_NESTED_UNION];

/// attribute a document-sequence deviation to a known finding iff it disappears when exactly the
/// construct named by the finding is replaced by an equivalent one
fn attribute(t: &T, prog: &[Call], obs: &[String], key: &str, what: &str) -> String {
    let seq_keys = ["C13:sequence-deviates", "C13:doc-after-call-deviates", "C13:seek-danger-bound-out-of-range", "C13:seek-danger-missed-member",
        "C13:seek-danger-found-non-member", "C13:seek-danger-found-wrong-doc", "C13:advance-sequence-wrong", "C13:return-differs-from-doc"];
    if !seq_keys.contains(&key) {
        return key.to_string();
    }
    // the same defect without nesting: a seek_danger miss moved the union's window forward and the
    // next (legal, larger) target is still below the returned bound, i.e. below the new window start
    if key == "C13:seek-danger-bound-out-of-range" && t.has_bunion() {
        let i: usize = what.strip_prefix("call ").and_then(|r| r.split(' ').next()).and_then(|x| x.parse().ok()).unwrap_or(0);
        if i >= 1 && i < prog.len() {
            if let (Call::Danger(t2), Call::Danger(_), Some(prev)) = (&prog[i], &prog[i - 1], obs.get(i - 1)) {
                if let Some(b1) = prev.strip_prefix('L').and_then(|x| x.parse::<u32>().ok()) {
                    if b1 > *t2 && b1 != TERMINATED {
                        return K_NESTED_UNION.to_string();
                    }
                }
            }
        }
    }
    let clean = |vs: Option<Vec<(String, String)>>| vs.map(|v| v.iter().all(|(k, _)| KNOWN_KEYS.contains(&k.as_str()) && k != K_BITSET && k != K_NESTED_UNION)).unwrap_or(false);
    if t.has_bitset() && what.contains("expected 2147483647") && clean(sequence_verdicts(&t.without_bitset(), prog)) {
        return K_BITSET.to_string();
    }
    if t.has_nested_bunion_in_bunion() && clean(sequence_verdicts(&t.flatten_unions(), prog)) {
        return K_NESTED_UNION.to_string();
    }
    key.to_string()
}

/// one direct case; returns true if something was reported
fn check_direct(ctx: &mut Ctx, t: &T, prog: &[Call], label: &str) -> bool {
    if label.starts_with("corpus") && std::env::var("C13_TRACE").is_ok() {
        eprintln!("c13: {label} start");
    }
    let case = json!({"kind": "direct", "tree": t, "prog": prog.iter().map(|c| c.text()).collect::<Vec<_>>()});
    let all = t.docs();
    let ptext = prog_text(prog);
    let top = t.top();
    ctx.report.count(&format!("top:{top}"));
    ctx.report.count(&format!("depth:{}", t.depth()));
    for c in prog {
        ctx.report.count(&format!("call:{}", &c.text()[..1]));
        match c {
            Call::Seek(x) | Call::Danger(x) | Call::Bits(x) => {
                if *x == TERMINATED { ctx.report.count("target:TERMINATED") }
                else if *x == TERMINATED - 1 { ctx.report.count("target:TERMINATED-1") }
                else if x % 128 == 127 || x % 128 == 0 { ctx.report.count("target:block-end") }
                else if all.first().map(|f| { let g = x.wrapping_sub(*f) % HORIZON; g <= 1 || g == HORIZON - 1 }).unwrap_or(false) { ctx.report.count("target:window-end") }
                else if all.binary_search(x).is_ok() { ctx.report.count("target:member") }
                else { ctx.report.count("target:other") }
            }
            _ => {}
        }
    }
    let nontrivial = all.len() >= 2 && prog.len() >= 3 && prog.iter().any(|c| matches!(c, Call::Seek(_) | Call::Danger(_) | Call::Fill | Call::Bits(_)));
    ctx.report.case(&format!("{label}|{}|{ptext}", serde_json::to_string(t).unwrap()), nontrivial);

    // fresh scorer by plain advance: the implementation's own sequence and scores
    let (fdocs, fscores) = match fresh_scores(t) {
        Ok(x) => x,
        Err(e) => {
            ctx.report.violation("oracle", "C13:panic", e, case);
            return true;
        }
    };
    if label != "fresh" {
        if fdocs != all {
            // plain advance itself deviates: judge (and attribute) it as the program `d, a, a, …`
            let mut p = vec![Call::Doc];
            p.extend(std::iter::repeat(Call::Adv).take(all.len().max(fdocs.len()) + 1));
            return check_direct(ctx, t, &p, "fresh");
        }
        for (d, s) in fdocs.iter().zip(fscores.iter()) {
            let e = t.score_f32(*d).unwrap_or(0.0);
            if *s != e {
                ctx.report.violation("oracle", "C13:advance-score-wrong", format!("{top}: fresh scorer advanced to {d} scores {s}, brute force {e}"), case);
                return true;
            }
        }
    }
    // the program on the real scorer
    let mut obs = vec![];
    let mut docs_after = vec![];
    let mut incons = vec![];
    let res = catch_unwind(AssertUnwindSafe(|| {
        let mut b = build(t);
        let model = b.model.clone();
        run_real(b.scorer.as_mut(), prog, &mut obs, &mut docs_after, &mut incons);
        model
    }));
    let tree = match res {
        Ok(m) => m,
        Err(_) => {
            ctx.report.violation("oracle", "C13:panic", format!("{top}: panic at call {} ({}) of a legal program: {}", obs.len(), prog.get(obs.len()).map(|c| c.text()).unwrap_or_default(), last_panic()), case.clone());
            return true;
        }
    };
    if label == "replay" {
        ctx.report.notes.push(format!("model tree: {tree}"));
    }
    // expected scores: the brute-force combination (equal to the fresh scorer's, checked above)
    let score_of = |d: u32| -> Option<String> { t.score_f32(d).map(fmt_score) };
    let mut first: Option<(String, String)> = incons.first().map(|x| ("C13:return-differs-from-doc".to_string(), x.clone()));
    if first.is_none() {
        first = judge_oracle("direct", false, &all, prog, &obs, &docs_after, &score_of, false).oracle.into_iter().next();
    }
    if t.has_dismax() {
        // not modelled: the oracle alone decides (these programs contain no fill_buffer / count)
        if let Some((k, w)) = first {
            ctx.report.violation("oracle", &k, format!("{top}: {w}"), case.clone());
            return true;
        }
        return false;
    }
    // the Lean implementation-level model of the code as it is, call by call (incl. doc() after each call)
    let m0 = model_run(ctx, "-", &tree, prog);
    let Some((mobs, mdocs)) = m0 else {
        ctx.report.violation("model", "C13:model-rejects-case", "the model rejected a generated case".to_string(), case.clone());
        return true;
    };
    let mismatch = (0..obs.len()).find(|&i| obs[i] != mobs[i] || docs_after[i] != mdocs[i]);
    let Some((key0, what0)) = first else {
        // the implementation satisfies the oracle: the model must agree with it
        if let Some(i) = mismatch {
            ctx.report.violation("model", "C13:model-mismatch", format!("{top}: call {i} {}: real {} (doc after {}) vs model {} (doc after {})", prog[i].text(), obs[i], docs_after[i], mobs[i], mdocs[i]), case.clone());
            return true;
        }
        return false;
    };
    // The implementation deviates from the specification. Attribution (DESIGN §4.4): known finding(s) K
    // iff (i) the model of the code as it is reproduces the real observations exactly and (ii) the
    // same model with exactly the hypotheses of K enforced reproduces the specification's.
    let mut explained: Option<Vec<&'static str>> = None;
    if mismatch.is_none() {
        let mut flags: Vec<(&'static str, &'static str)> = vec![];
        if t.has_bunion() {
            flags.extend([("dw", K_NESTED_UNION), ("du", K_CHILD_DANGER), ("fc", K_S4), ("fs", K_FILL_SCORE), ("cu", K_UNION_COUNT)]);
        }
        if t.has_inter() {
            flags.push(("ci", K_INTER_COUNT));
        }
        if t.has_bitset() {
            flags.push(("bs", K_BITSET));
        }
        let n = flags.len();
        let mut subsets: Vec<u32> = (1u32..(1 << n)).collect();
        subsets.sort_by_key(|m| m.count_ones());
        for m in subsets {
            let sel: Vec<usize> = (0..n).filter(|i| m & (1 << i) != 0).collect();
            let fix = sel.iter().map(|i| flags[*i].0).collect::<Vec<_>>().join(",");
            ctx.report.count("attribution:model-runs");
            if let Some((o, d)) = model_run(ctx, &fix, &tree, prog) {
                if judge_oracle("direct", false, &all, prog, &o, &d, &score_of, false).oracle.is_empty() {
                    explained = Some(sel.iter().map(|i| flags[*i].1).collect());
                    break;
                }
            }
        }
    }
    match explained {
        Some(keys) => {
            for k in keys {
                ctx.report.violation("oracle", k, format!("{top}: {what0}"), case.clone());
            }
        }
        None => {
            ctx.report.violation("oracle", &key0, format!("{top}: {what0}"), case.clone());
            if let Some(i) = mismatch {
                ctx.report.violation("model", "C13:model-mismatch", format!("{top}: call {i} {}: real {} (doc after {}) vs model {} (doc after {})", prog[i].text(), obs[i], docs_after[i], mobs[i], mdocs[i]), case.clone());
            }
        }
    }
    true
}

/// run the Lean implementation-level model with the hypotheses `fix` enforced (`-`: the code as it
/// is); returns the per-call observations and `doc()` after each call
fn model_run(ctx: &mut Ctx, fix: &str, tree: &str, prog: &[Call]) -> Option<(Vec<String>, Vec<u32>)> {
    if prog.is_empty() {
        return Some((vec![], vec![]));
    }
    let ptext = prog.iter().map(|c| format!("{};d", c.text())).collect::<Vec<_>>().join(";");
    let resp = ctx.model.ask(&format!("C13 runh {fix} {tree} {ptext}"));
    let parts: Vec<&str> = resp.split(';').collect();
    if resp == "bad-op" || parts.len() != 2 * prog.len() {
        return None;
    }
    let mut obs = vec![];
    let mut docs = vec![];
    for i in 0..prog.len() {
        obs.push(parts[2 * i].to_string());
        docs.push(parts[2 * i + 1].parse().ok()?);
    }
    Some((obs, docs))
}

// ------------------------------------------------------------------------------------------
// (b) real queries
// ------------------------------------------------------------------------------------------
#[derive(Serialize, Deserialize, Clone, Debug)]
enum Q {
    Term(String),
    All,
    Phrase(Vec<String>, u32),
    PhrasePrefix(Vec<String>),
    Range(u64, u64),
    Bool(Vec<(u8, Q)>, usize),
    Boost(Box<Q>, u32),
    Const(Box<Q>, u32),
    /// `DisjunctionMaxQuery::with_tie_breaker(children, tie4 / 4)`
    DisMax(Vec<Q>, u8),
}

#[derive(Serialize, Deserialize, Clone, Debug)]
struct IndexSpec {
    n: u32,
    seed: u64,
}

const WORDS: [&str; 6] = ["a", "b", "c", "d", "e", "rare"];

fn doc_text(spec: &IndexSpec, i: u32) -> String {
    let mut r = Rng::new(spec.seed ^ (i as u64).wrapping_mul(0x9E37_79B9));
    let len = 1 + r.usize_below(6);
    let mut ws = vec![];
    for _ in 0..len {
        let w = match r.below(20) {
            0..=6 => "a",
            7..=11 => "b",
            12..=14 => "c",
            15..=16 => "d",
            17..=18 => "e",
            _ => if i % 97 == 0 { "rare" } else { "e" },
        };
        ws.push(w);
    }
    // long runs where a term is in every doc / in none (block and window ends)
    if (4000..4200).contains(&i) || i % 4096 < 3 {
        ws.push("a");
        ws.push("b");
    }
    if (1000..1400).contains(&i) {
        ws.retain(|w| *w != "a");
        if ws.is_empty() {
            ws.push("c");
        }
    }
    ws.join(" ")
}

fn build_index(spec: &IndexSpec) -> (Index, tantivy::schema::Field, tantivy::schema::Field) {
    let mut sb = Schema::builder();
    let text = sb.add_text_field("t", TEXT);
    let num = sb.add_u64_field("n", FAST | INDEXED);
    let index = Index::create_in_ram(sb.build());
    let mut w: IndexWriter = index.writer_with_num_threads(1, 50_000_000).unwrap();
    for i in 0..spec.n {
        w.add_document(doc!(text => doc_text(spec, i), num => (i % 1000) as u64)).unwrap();
    }
    w.commit().unwrap();
    drop(w);
    (index, text, num)
}

fn make_query(q: &Q, text: tantivy::schema::Field) -> Box<dyn Query> {
    match q {
        Q::Term(w) => Box::new(TermQuery::new(Term::from_field_text(text, w), IndexRecordOption::WithFreqs)),
        Q::All => Box::new(AllQuery),
        Q::Phrase(ws, slop) => {
            let mut p = PhraseQuery::new(ws.iter().map(|w| Term::from_field_text(text, w)).collect());
            p.set_slop(*slop);
            Box::new(p)
        }
        Q::PhrasePrefix(ws) => Box::new(PhrasePrefixQuery::new(ws.iter().map(|w| Term::from_field_text(text, w)).collect())),
        Q::Range(lo, hi) => Box::new(RangeQuery::new(
            std::ops::Bound::Included(Term::from_field_u64(tantivy::schema::Field::from_field_id(1), *lo)),
            std::ops::Bound::Included(Term::from_field_u64(tantivy::schema::Field::from_field_id(1), *hi)),
        )),
        Q::Bool(cs, msm) => {
            let clauses: Vec<(Occur, Box<dyn Query>)> = cs
                .iter()
                .map(|(o, q)| (match o { 0 => Occur::Must, 1 => Occur::Should, _ => Occur::MustNot }, make_query(q, text)))
                .collect();
            if *msm > 0 { Box::new(BooleanQuery::with_minimum_required_clauses(clauses, *msm)) } else { Box::new(BooleanQuery::new(clauses)) }
        }
        Q::Boost(q, b) => Box::new(BoostQuery::new(make_query(q, text), *b as f32)),
        Q::Const(q, s) => Box::new(ConstScoreQuery::new(make_query(q, text), *s as f32)),
        Q::DisMax(cs, tie4) => Box::new(DisjunctionMaxQuery::with_tie_breaker(cs.iter().map(|c| make_query(c, text)).collect(), *tie4 as f32 / 4.0)),
    }
}

fn gen_query(rng: &mut Rng, depth: usize) -> Q {
    let leaf = |rng: &mut Rng| -> Q {
        match rng.below(12) {
            0..=5 => Q::Term(rng.pick(&WORDS).to_string()),
            6 => Q::All,
            7 => Q::Phrase(vec![rng.pick(&WORDS[..4]).to_string(), rng.pick(&WORDS[..4]).to_string()], rng.below(2) as u32),
            8 => Q::Phrase(vec!["a".into(), "b".into(), rng.pick(&WORDS[..3]).to_string()], 0),
            9 => Q::PhrasePrefix(vec![rng.pick(&WORDS[..3]).to_string(), rng.pick(&WORDS[..3]).to_string()]),
            _ => {
                let lo = rng.below(900);
                Q::Range(lo, lo + *rng.pick(&[0u64, 5, 100, 600]))
            }
        }
    };
    if depth == 0 || rng.chance(1, 4) {
        return leaf(rng);
    }
    match rng.below(11) {
        8 => {
            // DisjunctionMaxQuery with tie breaker over leaf-like disjuncts
            let n = 2 + rng.usize_below(2);
            let cs: Vec<Q> = (0..n)
                .map(|_| match rng.below(5) {
                    0 => Q::Phrase(vec![rng.pick(&WORDS[..3]).to_string(), rng.pick(&WORDS[..3]).to_string()], 0),
                    1 => Q::Const(Box::new(Q::Term(rng.pick(&WORDS).to_string())), 1 + rng.below(4) as u32),
                    2 => Q::Boost(Box::new(Q::Term(rng.pick(&WORDS).to_string())), 2),
                    _ => Q::Term(rng.pick(&WORDS).to_string()),
                })
                .collect();
            return Q::DisMax(cs, 1 + rng.below(3) as u8);
        }
        9 | 10 => {
            // conjunction with a scoring phrase leg (leading or not, by cost) whose phrase count varies
            let ph = Q::Phrase(vec![rng.pick(&WORDS[..3]).to_string(), rng.pick(&WORDS[..3]).to_string()], rng.below(2) as u32);
            let mut cs = vec![(0u8, Q::Term(rng.pick(&WORDS[..5]).to_string())), (0u8, ph)];
            if rng.chance(1, 3) {
                cs.push((rng.below(2) as u8, Q::Term(rng.pick(&WORDS).to_string())));
            }
            if rng.chance(1, 2) {
                cs.swap(0, 1);
            }
            return Q::Bool(cs, 0);
        }
        0 => Q::Boost(Box::new(gen_query(rng, depth - 1)), 2 + rng.below(3) as u32),
        1 => Q::Const(Box::new(gen_query(rng, depth - 1)), 1 + rng.below(5) as u32),
        _ => {
            let n = 1 + rng.usize_below(4);
            let style = rng.below(5);
            let cs: Vec<(u8, Q)> = (0..n)
                .map(|i| {
                    let o = match style {
                        0 => 1,
                        1 => 0,
                        2 => if i == 0 { 0 } else { 1 },
                        3 => if i == 0 { 0 } else { 2 },
                        _ => rng.below(3) as u8,
                    };
                    (o, gen_query(rng, depth - 1))
                })
                .collect();
            let shoulds = cs.iter().filter(|(o, _)| *o == 1).count();
            let msm = if shoulds >= 2 && rng.chance(1, 4) { 2 } else { 0 };
            Q::Bool(cs, msm)
        }
    }
}

fn contains_should(q: &Q) -> bool {
    match q {
        Q::Bool(cs, _) => cs.iter().any(|(o, c)| *o == 1 || contains_should(c)),
        Q::Boost(q, _) | Q::Const(q, _) => contains_should(q),
        Q::DisMax(cs, _) => cs.len() >= 2 || cs.iter().any(contains_should),
        _ => false,
    }
}
fn contains_conjunction(q: &Q) -> bool {
    match q {
        Q::Bool(cs, _) => cs.iter().filter(|(o, _)| *o != 2).count() >= 2 || cs.iter().any(|(_, c)| contains_conjunction(c)),
        Q::Boost(q, _) | Q::Const(q, _) => contains_conjunction(q),
        Q::DisMax(cs, _) => cs.iter().any(contains_conjunction),
        Q::Phrase(..) | Q::PhrasePrefix(_) => true,
        _ => false,
    }
}
/// (is a conjunction of ≥ 2 MUST clauses without MUST_NOT) after stripping boost / const wrappers
fn is_top_conjunction(q: &Q) -> bool {
    match q {
        Q::Bool(cs, _) => {
            if cs.len() == 1 && cs[0].0 != 2 {
                return is_top_conjunction(&cs[0].1);
            }
            cs.iter().filter(|(o, _)| *o == 0).count() >= 2 && cs.iter().all(|(o, _)| *o != 2)
        }
        Q::Boost(q, _) | Q::Const(q, _) => is_top_conjunction(q),
        _ => false,
    }
}

fn is_top_should_union(q: &Q) -> bool {
    match q {
        Q::Bool(cs, 0) => {
            if cs.len() == 1 && cs[0].0 != 2 {
                return is_top_should_union(&cs[0].1);
            }
            cs.len() >= 2 && cs.iter().all(|(o, _)| *o == 1)
        }
        Q::Boost(q, _) | Q::Const(q, _) => is_top_should_union(q),
        _ => false,
    }
}

/// query shapes whose score has a closed form in the scores of their leaves
fn brute_supported(q: &Q) -> bool {
    match q {
        Q::Term(_) | Q::Phrase(..) => true,
        // (boost is not applied by every leaf weight, e.g. PhrasePrefixWeight ignores it: a C12 matter)
        Q::PhrasePrefix(_) | Q::Range(..) | Q::All => false,
        Q::Boost(q, _) => brute_supported(q),
        Q::Const(_, _) => true,
        Q::DisMax(cs, _) => cs.iter().all(brute_supported),
        Q::Bool(..) => false,
    }
}

/// brute-force score of `d`: leaves from a fresh leaf scorer sought to `d`, combined by the formulas
fn brute_score(q: &Q, d: u32, leaf: &dyn Fn(&Q, u32) -> Option<f32>) -> Option<f32> {
    match q {
        Q::Term(_) | Q::Phrase(..) | Q::PhrasePrefix(_) | Q::Range(..) | Q::All => leaf(q, d),
        Q::Boost(q, b) => brute_score(q, d, leaf).map(|s| s * *b as f32),
        Q::Const(q, c) => brute_score(q, d, leaf).map(|_| *c as f32),
        Q::DisMax(cs, tie4) => {
            let v: Vec<f32> = cs.iter().filter_map(|c| brute_score(c, d, leaf)).collect();
            if v.is_empty() {
                return None;
            }
            let max = v.iter().cloned().fold(f32::MIN, f32::max);
            let sum: f32 = v.iter().sum();
            Some(max + (sum - max) * (*tie4 as f32 / 4.0))
        }
        Q::Bool(..) => None,
    }
}

fn check_query(ctx: &mut Ctx, index: &Index, text: tantivy::schema::Field, spec: &IndexSpec, q: &Q, scoring: bool, prog_seed: u64, fixed_prog: Option<Vec<Call>>) {
    let reader = index.reader().unwrap();
    let searcher = reader.searcher();
    let seg = searcher.segment_reader(0);
    let query = make_query(q, text);
    let weight = match if scoring { query.weight(EnableScoring::enabled_from_searcher(&searcher)) } else { query.weight(EnableScoring::disabled_from_schema(&index.schema())) } {
        Ok(w) => w,
        Err(_) => {
            ctx.report.count("query:weight-error");
            return;
        }
    };
    let mk = || weight.scorer(seg, 1.0);
    // fresh scorer by plain advance
    let fresh = catch_unwind(AssertUnwindSafe(|| {
        let mut s = mk().ok()?;
        let mut docs = vec![];
        let mut scores = vec![];
        let mut d = s.doc();
        while d != TERMINATED {
            docs.push(d);
            scores.push(s.score());
            d = s.advance();
        }
        Some((docs, scores))
    }));
    let mk_case = |prog: &[Call]| json!({"kind": "query", "index": spec, "query": q, "scoring": scoring, "prog": prog.iter().map(|c| c.text()).collect::<Vec<_>>()});
    let (fdocs, fscores) = match fresh {
        Ok(Some(x)) => x,
        Ok(None) => {
            ctx.report.count("query:scorer-error");
            return;
        }
        Err(_) => {
            ctx.report.violation("oracle", panic_key(), format!("panic while advancing a fresh scorer of {:?}: {}", q, last_panic()), mk_case(&[]));
            return;
        }
    };
    if !fdocs.windows(2).all(|w| w[0] < w[1]) || fdocs.iter().any(|d| *d >= spec.n) {
        ctx.report.violation("oracle", "C13:advance-sequence-not-increasing", format!("{:?}: plain advance is not strictly increasing below max_doc", q), mk_case(&[]));
        return;
    }
    let mut prng = Rng::new(prog_seed);
    // score path independence beyond the generated program: at sampled documents (window ends, every
    // 4096 docs, random) the score of plain advance must equal the score of a fresh scorer that seeks
    // directly to the document, and the closed-form combination of the leaves' scores where there is one
    if scoring && !fdocs.is_empty() {
        let mut idx: BTreeSet<usize> = BTreeSet::new();
        if let Some(fp) = &fixed_prog {
            // replay: the documents the recorded program seeks to
            for c in fp {
                if let Call::Seek(t) = c {
                    if let Ok(i) = fdocs.binary_search(t) {
                        idx.insert(i);
                    }
                }
            }
        } else {
            idx.extend([0usize, 1, fdocs.len() - 1].into_iter().filter(|i| *i < fdocs.len()));
        }
        for k in 1..(if fixed_prog.is_none() { 4u32 } else { 0 }) {
            let t = fdocs[0].saturating_add(k * HORIZON);
            let i = fdocs.partition_point(|d| *d < t);
            for j in [i.saturating_sub(1), i, i + 1, i + 40] {
                if j < fdocs.len() {
                    idx.insert(j);
                }
            }
        }
        for _ in 0..(if fixed_prog.is_none() { 10 } else { 0 }) {
            idx.insert(prng.usize_below(fdocs.len()));
        }
        let close = |a: f32, b: f32| (a - b).abs() <= 1e-4 * b.abs().max(1.0);
        let enable = EnableScoring::enabled_from_searcher(&searcher);
        let leaf = |lq: &Q, d: u32| -> Option<f32> {
            let w = make_query(lq, text).weight(enable).ok()?;
            let mut s = w.scorer(seg, 1.0).ok()?;
            if s.doc() > d {
                return None;
            }
            if s.seek(d) == d { Some(s.score()) } else { None }
        };
        for i in idx {
            let d = fdocs[i];
            let by_seek = catch_unwind(AssertUnwindSafe(|| {
                let mut s = mk().ok()?;
                if s.seek(d) == d { Some(s.score()) } else { None }
            }));
            ctx.report.count("query:score-seek-vs-advance");
            match by_seek {
                Ok(Some(x)) if close(x, fscores[i]) => {}
                Ok(other) => {
                    ctx.report.violation("oracle", "C13:score-advance-vs-seek", format!("{:?}: score at doc {d} is {} by plain advance but {:?} on a fresh scorer that seeks to it", q, fscores[i], other), mk_case(&[Call::Seek(d), Call::Score]));
                    return;
                }
                Err(_) => {
                    ctx.report.violation("oracle", panic_key(), format!("{:?}: panic in seek({d}) on a fresh scorer: {}", q, last_panic()), mk_case(&[Call::Seek(d)]));
                    return;
                }
            }
            if brute_supported(q) {
                ctx.report.count("query:score-vs-closed-form");
                if let Some(e) = brute_score(q, d, &leaf) {
                    if !close(fscores[i], e) {
                        ctx.report.violation("oracle", "C13:score-not-combination-of-leaves", format!("{:?}: score at doc {d} is {} by plain advance but the combination of the leaves' scores is {e}", q, fscores[i]), mk_case(&[Call::Seek(d), Call::Score]));
                        return;
                    }
                }
            }
        }
    }
    let prog = fixed_prog.unwrap_or_else(|| gen_program(&mut prng, &fdocs, true));
    let ptext = prog_text(&prog);
    let case = mk_case(&prog);
    let qkind = match q { Q::Term(_) => "term", Q::All => "all", Q::Phrase(..) => "phrase", Q::PhrasePrefix(_) => "phrase-prefix", Q::Range(..) => "range", Q::Bool(_, 0) => "bool", Q::Bool(..) => "bool-msm", Q::Boost(..) => "boost", Q::Const(..) => "const", Q::DisMax(..) => "dismax" };
    ctx.report.count(&format!("query:{qkind}"));
    ctx.report.count(if scoring { "query:scoring" } else { "query:no-scoring" });
    let nontrivial = fdocs.len() >= 2 && prog.len() >= 3 && prog.iter().any(|c| matches!(c, Call::Seek(_) | Call::Danger(_) | Call::Fill | Call::Bits(_)));
    ctx.report.case(&format!("query|{}|{}|{scoring}|{ptext}", serde_json::to_string(spec).unwrap(), serde_json::to_string(q).unwrap()), nontrivial);
    let mut obs = vec![];
    let mut docs_after = vec![];
    let mut incons = vec![];
    let res = catch_unwind(AssertUnwindSafe(|| {
        if let Ok(mut s) = mk() {
            run_real(s.as_mut(), &prog, &mut obs, &mut docs_after, &mut incons);
        }
    }));
    if res.is_err() {
        ctx.report.violation("oracle", panic_key(), format!("{:?}: panic at call {} ({}) of a legal program: {}", q, obs.len(), prog.get(obs.len()).map(|c| c.text()).unwrap_or_default(), last_panic()), case.clone());
    }
    if let Some(x) = incons.first() {
        ctx.report.violation("oracle", "C13:return-differs-from-doc", format!("{:?}: {x}", q), case.clone());
    }
    let score_of = |d: u32| -> Option<String> { if !scoring { return None; } fdocs.binary_search(&d).ok().map(|i| format!("x:{}", fscores[i])) };
    // First judged without assuming anything about the scorer's type. A score / end-of-count
    // deviation is attributed to a known finding only if a counterfactual run confirms it: the
    // same program on a fresh scorer with the fill_buffer calls replaced by the equivalent
    // advances (resp. count replaced by seek(TERMINATED)) gives the expected score (resp. doc).
    let v0 = judge_oracle("query", false, &fdocs, &prog, &obs, &docs_after, &score_of, true);
    let mut top = "query";
    let mut dense = false;
    if let Some((key, what)) = v0.oracle.first() {
        let run_cf = |prog2: &[Call]| -> Option<(Vec<String>, Vec<u32>)> {
            let mut o = vec![];
            let mut d = vec![];
            let mut inc = vec![];
            catch_unwind(AssertUnwindSafe(|| {
                if let Ok(mut s) = mk() {
                    run_real(s.as_mut(), prog2, &mut o, &mut d, &mut inc);
                }
            }))
            .ok()?;
            Some((o, d))
        };
        let idx: usize = what.strip_prefix("call ").or_else(|| what.strip_prefix("after call ")).and_then(|r| r.split(' ').next()).and_then(|x| x.parse().ok()).unwrap_or(usize::MAX);
        let seq_keys = ["C13:score-path-dependent", "C13:sequence-deviates", "C13:doc-after-call-deviates", "C13:seek-danger-bound-out-of-range",
            "C13:seek-danger-missed-member", "C13:seek-danger-found-non-member", "C13:seek-danger-found-wrong-doc"];
        if seq_keys.contains(&key.as_str()) && idx < prog.len() && prog[..=idx].iter().any(|c| matches!(c, Call::Danger(_))) {
            // counterfactual for the seek_danger findings (5, 9): the same program with every
            // seek_danger that finds its target replaced by seek, and the misses dropped
            let mut cur = Cursor { all: &fdocs, pos: 0, danger: None, counted: false };
            let mut prog2 = vec![];
            for c in &prog[..=idx] {
                if let Call::Danger(t) = c {
                    let r = cur.step(c);
                    if r == "F" {
                        prog2.push(Call::Seek(*t));
                    }
                } else {
                    prog2.push(c.clone());
                    cur.step(c);
                }
            }
            if cur.danger.is_none() {
                if let Some((o2, d2)) = run_cf(&prog2) {
                    if o2.len() == prog2.len() && judge_oracle("query", false, &fdocs, &prog2, &o2, &d2, &score_of, true).oracle.is_empty() {
                        let k = if key == "C13:seek-danger-bound-out-of-range" { K_NESTED_UNION } else { K_CHILD_DANGER };
                        ctx.report.count("query:counterfactual-confirms-seek-danger");
                        ctx.report.violation("oracle", k, format!("{:?} (scoring {scoring}): {what}", q), case.clone());
                        return;
                    }
                }
            }
            ctx.report.count("query:counterfactual-refutes-seek-danger");
        }
        if key == "C13:score-path-dependent" {
            let i: usize = what.strip_prefix("call ").and_then(|r| r.split(' ').next()).and_then(|x| x.parse().ok()).unwrap_or(usize::MAX);
            if i < prog.len() && prog[..i].iter().any(|c| matches!(c, Call::Fill)) {
                let mut cur = Cursor { all: &fdocs, pos: 0, danger: None, counted: false };
                let mut prog2 = vec![];
                for c in &prog[..i] {
                    if matches!(c, Call::Fill) {
                        let n = (fdocs.len() - cur.pos).min(COLLECT_BLOCK_BUFFER_LEN);
                        prog2.extend(std::iter::repeat(Call::Adv).take(n));
                    } else {
                        prog2.push(c.clone());
                    }
                    cur.step(c);
                }
                prog2.push(Call::Score);
                let at = cur.doc();
                if let (Some((o2, _)), Some(e)) = (run_cf(&prog2), score_of(at)) {
                    let (a, b): (f32, f32) = (o2.last().map(|x| x[2..].parse().unwrap_or(f32::NAN)).unwrap_or(f32::NAN), e[2..].parse().unwrap_or(f32::NAN));
                    if (a - b).abs() <= 1e-5 * b.abs().max(1.0) {
                        top = "bunion-sum";
                        ctx.report.count("query:counterfactual-confirms-fill-buffer");
                    } else {
                        ctx.report.count("query:counterfactual-refutes-fill-buffer");
                    }
                }
            }
        } else if key == "C13:count-doc-not-terminated" {
            if let Some(i) = prog.iter().position(|c| matches!(c, Call::Count)) {
                let mut prog2: Vec<Call> = prog[..i].to_vec();
                prog2.push(Call::Seek(TERMINATED));
                let count_ok = {
                    let mut cur = Cursor { all: &fdocs, pos: 0, danger: None, counted: false };
                    for c in &prog[..i] {
                        cur.step(c);
                    }
                    obs.get(i).map(|o| *o == format!("c:{}", fdocs.len() - cur.pos)).unwrap_or(false)
                };
                if let Some((_, d2)) = run_cf(&prog2) {
                    if count_ok && d2.last() == Some(&TERMINATED) {
                        let stale = docs_after.get(i).cloned().unwrap_or(TERMINATED);
                        if fdocs.binary_search(&stale).is_ok() {
                            top = "bunion";
                        } else {
                            top = "inter";
                            dense = true;
                        }
                        ctx.report.count("query:counterfactual-confirms-count");
                    } else {
                        ctx.report.count("query:counterfactual-refutes-count");
                    }
                }
            }
        }
    }
    let v = if top == "query" { v0 } else { judge_oracle(top, dense, &fdocs, &prog, &obs, &docs_after, &score_of, true) };
    for (key, what) in &v.oracle {
        ctx.report.violation("oracle", key, format!("{:?} (scoring {scoring}): {what}", q), case.clone());
    }
    // harness-side cursor = Lean specification cursor
    let resp = ctx.model.ask(&format!("C13 spec {} {ptext}", crate::model::nat_list(&fdocs)));
    let mut cur = Cursor { all: &fdocs, pos: 0, danger: None, counted: false };
    let mobs: Vec<&str> = if prog.is_empty() { vec![] } else { resp.split(';').collect() };
    if mobs.len() != prog.len() {
        ctx.report.violation("model", "C13:model-rejects-case", format!("spec model answered {}", &resp[..resp.len().min(60)]), case.clone());
        return;
    }
    for (i, c) in prog.iter().enumerate() {
        let e = cur.step(c);
        let m = mobs[i];
        let same = match c {
            Call::Danger(_) => e == m[..1],
            Call::Score => true,
            _ => e == m,
        };
        if !same {
            ctx.report.violation("model", "C13:spec-cursor-mismatch", format!("call {i} {}: harness cursor {e} vs Lean Spec {m}", c.text()), case.clone());
            break;
        }
    }
}

// ------------------------------------------------------------------------------------------
// corpus: known shapes replayed first
// ------------------------------------------------------------------------------------------
fn leaf(docs: Vec<u32>, score: u32) -> T {
    T::Leaf { docs, score, kind: 0 }
}

fn corpus(ctx: &mut Ctx) {
    // S4: union of two scoring children over 10 000 docs, 70 fill_buffer calls then advance + score
    let a: Vec<u32> = (0..10_000).filter(|d| d % 2 == 0).collect();
    let b: Vec<u32> = (0..10_000).filter(|d| d % 3 == 0).collect();
    let t = T::BUnion { sum: true, cs: vec![leaf(a, 2), leaf(b, 3)], num_docs: 10_000 };
    let mut prog = vec![Call::Fill; 70];
    prog.extend([Call::Adv, Call::Score, Call::Adv, Call::Score]);
    check_direct(ctx, &t, &prog, "corpus-s4");
    // score read right after fill_buffer
    let t2 = T::BUnion { sum: true, cs: vec![leaf((0..200).collect(), 1), leaf((64..200).collect(), 4)], num_docs: 200 };
    check_direct(ctx, &t2, &[Call::Score, Call::Fill, Call::Score, Call::Adv, Call::Score], "corpus-fill-score");
    // count_including_deleted leaves doc()
    let t3 = T::BUnion { sum: false, cs: vec![leaf(vec![1, 5, 9000], 1), leaf(vec![5, 7], 1)], num_docs: 10_000 };
    check_direct(ctx, &t3, &[Call::Adv, Call::Count, Call::Doc, Call::Adv, Call::Doc], "corpus-union-count");
    let t4 = T::Inter { cs: vec![leaf(vec![1, 5000], 1), leaf(vec![1, 2, 3], 1)], num_docs: 10 };
    check_direct(ctx, &t4, &[Call::Count, Call::Doc, Call::Adv, Call::Doc], "corpus-inter-dense-count");
    // nested buffered unions under an intersection (seek_danger below the inner window start)
    let x = T::BUnion { sum: false, cs: vec![leaf(vec![100, 5000, 5010], 1), leaf(vec![20_000], 1)], num_docs: 30_000 };
    let u = T::BUnion { sum: false, cs: vec![leaf(vec![0], 1), x], num_docs: 30_000 };
    let t5 = T::Inter { cs: vec![leaf(vec![0, 4600, 5000, 5010], 1), u], num_docs: 1_000_000 };
    check_direct(ctx, &t5, &[Call::Doc, Call::Adv, Call::Adv, Call::Adv], "corpus-nested-union-danger");
    // finding 9 in the shape of the query `+l +((+x +y) z)` (docs 0:"l z" 1:"x y" 2,3:"y" 5000:"x y"
    // 10000:"l z" 10005:"l x" 10010:"x y"): the real code also returns 10005
    let xy = T::Inter { cs: vec![leaf(vec![1, 5000, 10005, 10010], 1), leaf(vec![1, 2, 3, 5000, 10010], 1)], num_docs: u32::MAX };
    let u9 = T::BUnion { sum: true, cs: vec![xy, leaf(vec![0, 10000], 1)], num_docs: 10_011 };
    let t9 = T::Inter { cs: vec![leaf(vec![0, 10000, 10005], 1), u9], num_docs: u32::MAX };
    check_direct(ctx, &t9, &[Call::Doc, Call::Adv, Call::Adv, Call::Adv], "corpus-union-child-danger");
    // score slots of skipped buckets / of earlier windows must not leak (seeded C13-A, C12-A shapes)
    let t10 = T::BUnion { sum: true, cs: vec![leaf(vec![0, 100, 5000], 2), leaf(vec![100, 5100], 5)], num_docs: 6000 };
    check_direct(ctx, &t10, &[Call::Score, Call::Seek(4000), Call::Score, Call::Adv, Call::Score], "corpus-union-skipped-buckets-scores");
    // 5 clauses; in cost order the 4th and 5th (the 2nd and 3rd of `others`) are the ones that filter
    let t12 = T::Inter { cs: vec![leaf((0..40).collect(), 1), leaf((0..60).collect(), 1), leaf((0..80).collect(), 1),
        leaf((0..200).filter(|d| *d >= 40 || d % 2 == 1).collect(), 1), leaf((0..220).filter(|d| *d >= 40 || d % 3 != 0).collect(), 1)], num_docs: 0 };
    check_direct(ctx, &t12, &[Call::Count, Call::Doc, Call::Adv, Call::Doc], "corpus-inter-dense-count-5-clauses");
    check_direct(ctx, &t12, &[Call::Seek(7), Call::Count, Call::Doc, Call::Adv, Call::Doc], "corpus-inter-dense-count-5-clauses-after-seek");
    let t11 = T::DisMax { tie4: 2, cs: vec![leaf(vec![0, 5000, 5001], 4), leaf(vec![0, 5000, 9000], 2)], num_docs: 10_000 };
    check_direct(ctx, &t11, &[Call::Score, Call::Adv, Call::Score, Call::Adv, Call::Score, Call::Seek(9000), Call::Score], "corpus-dismax-reused-slots");
}

pub fn replay(ctx: &mut Ctx, case: &serde_json::Value) {
    let prog: Vec<Call> = case["prog"].as_array().map(|a| a.iter().filter_map(|x| x.as_str().and_then(Call::parse)).collect()).unwrap_or_default();
    match case["kind"].as_str().unwrap_or("") {
        "direct" => {
            let t: T = serde_json::from_value(case["tree"].clone()).expect("tree");
            let r = check_direct(ctx, &t, &prog, "replay");
            ctx.report.notes.push(format!("replay direct: reported={r}"));
        }
        "query" => {
            let spec: IndexSpec = serde_json::from_value(case["index"].clone()).expect("index");
            let q: Q = serde_json::from_value(case["query"].clone()).expect("query");
            let (index, text, _) = build_index(&spec);
            check_query(ctx, &index, text, &spec, &q, case["scoring"].as_bool().unwrap_or(false), 0, Some(prog));
        }
        k => ctx.report.notes.push(format!("unknown replay kind {k}")),
    }
}

pub fn run(ctx: &mut Ctx) {
    // functions translated from the Rust source (Gen/PureFns): translation vs real code
    crate::purefns::check_tinyset(ctx, if ctx.thorough() { 4000 } else { 300 });
    std::panic::set_hook(Box::new(|info| {
        if let Ok(mut s) = LAST_PANIC.lock() {
            *s = info.to_string().chars().take(300).collect();
            if std::env::var("C13_TRACE").is_ok() {
                eprintln!("c13 panic: {}", s);
            }
        }
    }));
    ctx.report.rule = "case = (scorer tree or query on a generated index, legal call program); non-trivial = the set has ≥ 2 \
        documents and the program has ≥ 3 calls including a seek / seek_danger / fill_buffer / fill_bitset_block; \
        distinct = distinct (tree, program) texts".into();
    ctx.report.correspondence_obligations = vec![
        "every call result of the real combinator tree = Lean implementation-level model (C13 run), call by call".into(),
        "real observations = specification cursor over the brute-force document list (oracle)".into(),
        "score at d = score of a fresh scorer advanced to d = brute-force combination".into(),
        "harness-side specification cursor = Lean Spec cursor (C13 spec) on real-query sequences".into(),
        "extracted constants (TERMINATED, buffer length, block window, union horizon) = the harness's".into(),
    ];
    if let Some(case) = ctx.replay.clone() {
        replay(ctx, &case);
        return;
    }
    // constants the model was generated with
    let consts = ctx.model.ask("C13 consts");
    let expect = format!("TERMINATED={} BUFLEN={} BLOCK_WINDOW={} HORIZON={} NB={}", TERMINATED, COLLECT_BLOCK_BUFFER_LEN, BLOCK_WINDOW, HORIZON, HORIZON / 64);
    if consts != expect {
        ctx.report.violation("model", "C13:constants-differ", format!("model constants `{consts}` vs harness `{expect}`"), json!({"kind": "consts"}));
    }
    let t_start = std::time::Instant::now();
    corpus(ctx);
    if std::env::var("C13_TRACE").is_ok() {
        eprintln!("c13: corpus done {:?}", t_start.elapsed());
    }
    // (a) direct combinators
    let n_direct = ctx.budget(3000, 50_000);
    for i in 0..n_direct {
        let mut rng = ctx.rng.fork();
        let max_doc = *rng.pick(&[300u32, 5000, 9000, 13_000, 20_000]);
        let depth = *rng.pick(&[0usize, 1, 1, 1, 2, 2, 3]);
        let mut pool = vec![];
        let t = gen_tree(&mut rng, depth, max_doc, &mut pool);
        let all = t.docs();
        let progs = 1 + rng.usize_below(2);
        if i % 100 == 0 && std::env::var("C13_TRACE").is_ok() {
            eprintln!("c13: direct {i} {:?} reqs {}", t_start.elapsed(), ctx.model.requests);
        }
        for _ in 0..progs {
            let prog = gen_program(&mut rng, &all, true);
            if std::env::var("C13_TRACE").is_ok() {
                eprintln!("c13: case {i} top {} docs {} prog {} last {:?}", t.top(), all.len(), prog_text(&prog), all.last());
            }
            let reported = check_direct(ctx, &t, &prog, "gen");
            if !reported && i < 3 && ctx.report.samples.len() < 3 {
                ctx.report.sample(json!({"tree": t.top(), "depth": t.depth(), "docs": all.len(), "program": prog_text(&prog)}));
            }
        }
    }
    if std::env::var("C13_TRACE").is_ok() {
        eprintln!("c13: direct done {:?}", t_start.elapsed());
    }
    // (a') scoring unions (SumCombiner / DisjunctionMaxCombiner with tie breaker) whose children span
    // several windows: bucket-skipping in-horizon seeks, far seeks, advances across window ends, with
    // score() at every position compared with the brute-force combination of the children's scores
    let n_union = ctx.budget(250, 5_000);
    for _ in 0..n_union {
        let mut rng = ctx.rng.fork();
        let max_doc = *rng.pick(&[9500u32, 13_000, 20_000]);
        let n = 2 + rng.usize_below(3);
        let mut pool = vec![];
        let cs: Vec<T> = (0..n)
            .map(|_| {
                if rng.chance(2, 3) {
                    // progression / dense leaf
                    let step = *rng.pick(&[5u32, 7, 11, 13, 31, 64]);
                    let start = rng.below(200) as u32;
                    let end = max_doc.min(start + HORIZON * 2 + 500 + rng.below(4000) as u32);
                    let docs: Vec<u32> = (start..end).step_by(step as usize).filter(|_| rng.chance(7, 8)).collect();
                    T::Leaf { docs, score: 1 + rng.below(7) as u32, kind: if rng.chance(1, 4) { 1 } else { 0 } }
                } else {
                    let dd = *rng.pick(&[0usize, 0, 1]);
                    gen_tree(&mut rng, dd, max_doc, &mut pool)
                }
            })
            .collect();
        let dismax = rng.chance(2, 5);
        let t = if dismax {
            T::DisMax { tie4: 1 + rng.below(2) as u8, cs, num_docs: max_doc + 1 }
        } else {
            T::BUnion { sum: true, cs, num_docs: max_doc + 1 }
        };
        let all = t.docs();
        let mut prog = if rng.chance(3, 5) { gen_sweep(&mut rng, &all) } else { gen_program(&mut rng, &all, true) };
        if dismax {
            // fill_buffer / count are excluded here (known findings that need the model to attribute)
            if let Some(i) = prog.iter().position(|c| matches!(c, Call::Count)) {
                prog.truncate(i);
            }
            for c in prog.iter_mut() {
                if matches!(c, Call::Fill) {
                    *c = Call::Adv;
                }
            }
        }
        ctx.report.count(if dismax { "stream:dismax-union" } else { "stream:sum-union" });
        check_direct(ctx, &t, &prog, "union-windows");
    }
    if std::env::var("C13_TRACE").is_ok() {
        eprintln!("c13: union stream done {:?}", t_start.elapsed());
    }
    // (a'') intersections of 4-6 dense clauses (every clause filters), also nested, on the dense
    // count path (segment_num_docs = 0) and the sparse one: count_including_deleted at the start, after
    // advances and after a seek must equal the number of remaining common documents
    let n_inter = ctx.budget(300, 5_000);
    for _ in 0..n_inter {
        let mut rng = ctx.rng.fork();
        let max_doc = *rng.pick(&[200u32, 1500, 3000, 6000]);
        let n = 4 + rng.usize_below(3);
        let dense_leaf = |rng: &mut Rng| -> T {
            let keep = *rng.pick(&[2u64, 3, 4, 6]);
            let lo = rng.below(40) as u32;
            let docs: Vec<u32> = (lo..max_doc).filter(|_| rng.below(keep + 1) < keep).collect();
            T::Leaf { docs, score: 1 + rng.below(5) as u32, kind: *rng.pick(&[0u8, 0, 1, 2]) }
        };
        let mut cs: Vec<T> = (0..n).map(|_| dense_leaf(&mut rng)).collect();
        if rng.chance(1, 3) {
            // one clause is itself an intersection / a union of dense clauses
            let inner = if rng.chance(1, 2) {
                T::Inter { cs: vec![dense_leaf(&mut rng), dense_leaf(&mut rng), dense_leaf(&mut rng)], num_docs: if rng.chance(1, 2) { 0 } else { u32::MAX } }
            } else {
                T::BUnion { sum: true, cs: vec![dense_leaf(&mut rng), dense_leaf(&mut rng)], num_docs: max_doc + 1 }
            };
            let i = rng.usize_below(cs.len());
            cs[i] = inner;
        }
        let dense = rng.chance(3, 4);
        let t = T::Inter { cs, num_docs: if dense { 0 } else { u32::MAX } };
        let all = t.docs();
        let mut prog = vec![];
        let mut cur = Cursor { all: &all, pos: 0, danger: None, counted: false };
        match rng.below(4) {
            0 => {}
            1 => {
                for _ in 0..rng.below(6) {
                    let c = Call::Adv;
                    cur.step(&c);
                    prog.push(c);
                }
            }
            2 => {
                let c = Call::Seek(gen_target(&mut rng, &cur, cur.doc()));
                cur.step(&c);
                prog.push(c);
            }
            _ => {
                let c = Call::Seek(gen_target(&mut rng, &cur, cur.doc()));
                cur.step(&c);
                prog.push(c);
                let c = Call::Adv;
                cur.step(&c);
                prog.push(c);
                if cur.doc() != TERMINATED {
                    prog.push(Call::Score);
                }
            }
        }
        prog.extend([Call::Count, Call::Doc, Call::Adv, Call::Doc]);
        ctx.report.count(if dense { "stream:inter-dense-count" } else { "stream:inter-sparse-count" });
        check_direct(ctx, &t, &prog, "inter-count");
    }
    // (b) real queries
    let n_index = ctx.budget(3, 10);
    let per_index = ctx.budget(250, 1500);
    for k in 0..n_index {
        let mut rng = ctx.rng.fork();
        let n = [9000u32, 300, 13_000, 4200, 1, 130][k as usize % 6];
        let spec = IndexSpec { n, seed: rng.next_u64() };
        let (index, text, _num) = build_index(&spec);
        for j in 0..per_index {
            let qd = *rng.pick(&[0usize, 1, 2, 2]);
            let q = gen_query(&mut rng, qd);
            let scoring = rng.chance(1, 2);
            let ps = rng.next_u64();
            check_query(ctx, &index, text, &spec, &q, scoring, ps, None);
            if j < 2 && ctx.report.samples.len() < 5 {
                ctx.report.sample(json!({"index_docs": n, "query": format!("{:?}", q), "scoring": scoring}));
            }
        }
    }
}
