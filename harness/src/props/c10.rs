//! C10 — garbage collection never removes a needed file and leaves no orphan.
//!
//! A. quiescent points of generated histories (rollbacks, delete_all, discarded merges, writer
//!    drop + reopen): directory file set = files derived from meta.json's segments ∪ {meta.json,
//!    .managed.json} ∪ lock files, and `.managed.json` = in-memory managed set = existing
//!    non-dot files.
//! B. GC forced (VDir hook, same code path as `garbage_collect_files`) at storage operations of
//!    indexing workers / merge threads / the doc-store compressor, with the living-files
//!    callback used as a gate that lets the worker run on while GC is between "living computed"
//!    and "deletes"; checked: every created file is protected by a live SegmentMeta at creation
//!    (registration-before-create), no delete hits a living file, no later open_read of a needed
//!    file fails, the history's content is right, and the end state is clean.
//! C. one complete collection from a state with garbage, optionally with failing deletes,
//!    compared with the model's `fullGC` (directory, managed set, deleted, failed).
//! D. a reader in the middle of loading (holding META_LOCK, as `open_segment_readers` does) is
//!    not broken by commits + merges + GC running meanwhile.
//! E. recovered crash images (C01 machinery) followed by one commit and one collection:
//!    quiescent equality, except finding S2 (`.managed.json` rename not synced).
use super::c01::{self, Hist, Point, Step};
use crate::dirs::{OpKind, OpRec, VDir};
use crate::Ctx;
use serde_json::json;
use std::collections::{BTreeSet, HashMap, HashSet};
use std::panic::{catch_unwind, AssertUnwindSafe};
use std::path::{Path, PathBuf};
use std::sync::atomic::{AtomicBool, AtomicU64, Ordering};
use std::sync::{mpsc, Arc, Mutex};
use std::time::{Duration, Instant};
use tantivy::directory::{RamDirectory, META_LOCK};
use tantivy::merge_policy::NoMergePolicy;
use tantivy::{doc, Directory, Index, IndexWriter};

pub const K_S2: &str = "C10:managed-json-rename-not-synced";
pub const K_TEMP: &str = "C10:temp-docstore-relisted-by-delete-meta";

/// Finding (sorted indexes): `SegmentMeta::with_delete_meta` builds a fresh
/// `include_temp_doc_store = true`, so a freshly indexed segment that receives deletes before its
/// first commit lists `<seg>.store.temp` as living again and the commit's GC keeps the file.
/// Signature: every orphan is the `.store.temp` of a segment that has a delete file in meta.json.
fn temp_relisted_signature(orphans: &[&String], expected: &BTreeSet<String>) -> bool {
    !orphans.is_empty()
        && orphans.iter().all(|o| {
            o.ends_with(".store.temp") && o.len() > 32 && expected.iter().any(|e| e.ends_with(".del") && e.len() > 32 && e[..32] == o[..32])
        })
}

const SEG_SUFFIXES: [&str; 0] = [];

/// both paths belong to the same segment (same uuid prefix)
fn same_segment(a: &Path, b: &Path) -> bool {
    let sa = a.to_string_lossy();
    let sb = b.to_string_lossy();
    sa.len() >= 32 && sb.len() >= 32 && sa[..32] == sb[..32]
}

fn is_dot(p: &str) -> bool {
    p.starts_with('.')
}

/// files that exist, by POSIX rules, from the operation log: created (open_write / atomic_write)
/// and not unlinked since. A `RamDirectory` re-creates an unlinked file when a writer that was
/// still open is flushed (e.g. the detached doc-store compressor of a rolled-back segment); on a
/// real file system such a write goes to an anonymous inode, so those are not counted as files
/// (they are counted in the evidence as `ramdirectory-resurrected-after-unlink`).
fn listing(vdir: &VDir, initial: &[String]) -> BTreeSet<String> {
    let mut exists: HashMap<String, bool> = initial.iter().map(|p| (p.clone(), true)).collect();
    vdir.with_state(|s| {
        for r in &s.log {
            if !r.ok || r.path.is_empty() {
                continue;
            }
            match r.kind {
                OpKind::OpenWrite | OpKind::AtomicWrite => {
                    exists.insert(r.path.clone(), true);
                }
                OpKind::Delete => {
                    exists.insert(r.path.clone(), false);
                }
                _ => {}
            }
        }
    });
    exists.into_iter().filter(|(_, e)| *e).map(|(p, _)| p).collect()
}

/// paths the RamDirectory holds although the log says they were unlinked
fn resurrected(vdir: &VDir, initial: &[String]) -> usize {
    let posix = listing(vdir, initial);
    let seen: HashSet<String> = vdir.with_state(|s| s.log.iter().filter(|r| !r.path.is_empty()).map(|r| r.path.clone()).collect());
    seen.iter().filter(|p| !posix.contains(*p) && vdir.inner.exists(Path::new(p)).unwrap_or(false)).count()
}

fn managed_json(vdir: &VDir) -> Result<BTreeSet<String>, String> {
    let raw = vdir.raw(Path::new(c01::MANAGED)).ok_or(".managed.json missing")?;
    let v: Vec<String> = serde_json::from_slice(&raw).map_err(|e| format!(".managed.json unreadable: {e}"))?;
    Ok(v.into_iter().collect())
}

/// the quiescent equalities of the property, on the live directory
fn check_quiescent(ctx: &mut Ctx, vdir: &VDir, index: &Index, what: &str, case: &serde_json::Value) -> bool {
    let d = listing(vdir, &[]);
    let meta_bytes = match vdir.raw(Path::new(c01::META)) {
        Some(b) => b,
        None => {
            ctx.report.violation("oracle", "C10:meta-json-missing", format!("{what}: meta.json does not exist"), case.clone());
            return false;
        }
    };
    let files = match c01::meta_refs(&meta_bytes) {
        Ok((_, f)) => f,
        Err(e) => {
            ctx.report.violation("oracle", "C10:meta-json-unreadable", format!("{what}: {e}"), case.clone());
            return false;
        }
    };
    let mut expected: BTreeSet<String> = files.into_iter().collect();
    expected.insert(c01::META.into());
    expected.insert(c01::MANAGED.into());
    let locks: BTreeSet<String> = d.iter().filter(|p| c01::is_lock_file(p)).cloned().collect();
    expected.extend(locks);
    let mut ok = true;
    let orphans: Vec<&String> = d.difference(&expected).collect();
    let missing: Vec<&String> = expected.difference(&d).collect();
    if !missing.is_empty() {
        ok = false;
        ctx.report.violation("oracle", "C10:needed-file-missing", format!("{what}: files referenced by meta.json do not exist: {missing:?}"), case.clone());
    }
    if temp_relisted_signature(&orphans, &expected) {
        ctx.report.violation("oracle", K_TEMP, format!("{what}: temp doc stores of segments that have deletes remain after commit + GC: {orphans:?}"), case.clone());
    } else if !orphans.is_empty() {
        ok = false;
        ctx.report.violation("oracle", "C10:orphan-files", format!("{what}: files that belong to no committed segment remain after GC: {orphans:?}"), case.clone());
    }
    let existing_managed: BTreeSet<String> = d.iter().filter(|p| !is_dot(p)).cloned().collect();
    match managed_json(vdir) {
        Ok(m) if m == existing_managed => {}
        Ok(m) => {
            ok = false;
            ctx.report.violation("oracle", "C10:managed-json-differs", format!("{what}: .managed.json lists {:?} extra and lacks {:?}", m.difference(&existing_managed).collect::<Vec<_>>(), existing_managed.difference(&m).collect::<Vec<_>>()), case.clone());
        }
        Err(e) => {
            ok = false;
            ctx.report.violation("oracle", "C10:managed-json-differs", format!("{what}: {e}"), case.clone());
        }
    }
    let mem: BTreeSet<String> = index.directory().list_managed_files().iter().map(|p| p.to_string_lossy().to_string()).collect();
    if mem != existing_managed {
        ok = false;
        ctx.report.violation("oracle", "C10:managed-set-differs", format!("{what}: in-memory managed set differs from existing files: extra {:?}, lacking {:?}", mem.difference(&existing_managed).collect::<Vec<_>>(), existing_managed.difference(&mem).collect::<Vec<_>>()), case.clone());
    }
    ctx.report.count(if ok { "quiescent-check:ok" } else { "quiescent-check:failed" });
    ok
}

// ------------------------------------------------------------------------------------------
// A + B: histories, optionally with forced GC
// ------------------------------------------------------------------------------------------

struct Forcer {
    index: Mutex<Option<Index>>,
    busy: AtomicBool,
    worker_ops: AtomicU64,
    stride: u64,
    phase: u64,
    forced: AtomicU64,
    gate_progress: AtomicU64,
    transient: AtomicU64,
    deleted: Mutex<Vec<String>>,
    problems: Mutex<Vec<(String, String)>>,
    threads: Mutex<Vec<std::thread::JoinHandle<()>>>,
    enabled: AtomicBool,
}

fn is_worker_thread(t: &str) -> bool {
    t.starts_with("thrd-tantivy-index") || t.starts_with("merge_thread") || t.starts_with("docstore-compressor")
}

fn make_hook(fo: Arc<Forcer>) -> crate::dirs::Hook {
    Arc::new(move |rec: &OpRec| {
        if rec.thread.starts_with("gc-forcer") || rec.path.is_empty() || c01::is_lock_file(&rec.path) {
            return;
        }
        let index = match fo.index.lock().unwrap().clone() {
            Some(i) => i,
            None => return,
        };
        let managed_type = !is_dot(&rec.path);
        // discipline / safety, observed at the instant of the operation
        if rec.kind == OpKind::OpenWrite && managed_type {
            let living = tantivy::verif::c10_living_files(&index);
            if !living.contains(&PathBuf::from(&rec.path)) {
                fo.problems.lock().unwrap().push(("C10:file-created-outside-living".into(), format!("{} is opened for writing by {} while no live SegmentMeta lists it", rec.path, rec.thread)));
            }
        }
        if rec.kind == OpKind::Delete && managed_type {
            let living = tantivy::verif::c10_living_files(&index);
            if living.contains(&PathBuf::from(&rec.path)) || rec.path == c01::META {
                // `Index::searchable_segment_ids()` / `load_metas()` (called by the history itself and
                // by IndexWriter::new) deserialise meta.json into SegmentMeta objects that live for
                // microseconds and never open a file; if they were parsed from bytes read just
                // before the commit they can "protect" a file GC has already selected. Only a
                // protection that persists is a needed file.
                let mut persistent = true;
                if rec.path != c01::META {
                    for _ in 0..6 {
                        std::thread::sleep(Duration::from_millis(3));
                        if !tantivy::verif::c10_living_files(&index).contains(&PathBuf::from(&rec.path)) {
                            persistent = false;
                            break;
                        }
                    }
                }
                if persistent {
                    fo.problems.lock().unwrap().push(("C10:gc-deleted-needed-file".into(), format!("{} deleted by {} while a live SegmentMeta lists it", rec.path, rec.thread)));
                } else {
                    fo.transient.fetch_add(1, Ordering::SeqCst);
                }
            }
        }
        if !fo.enabled.load(Ordering::SeqCst) || !is_worker_thread(&rec.thread) || !rec.kind.is_mutation() {
            return;
        }
        if rec.kind == OpKind::AtomicWrite {
            // `.managed.json` is rewritten while the managed write lock is held: GC cannot run here
            return;
        }
        let n = fo.worker_ops.fetch_add(1, Ordering::SeqCst);
        if n % fo.stride != fo.phase || fo.busy.swap(true, Ordering::SeqCst) {
            return;
        }
        fo.forced.fetch_add(1, Ordering::SeqCst);
        let (tx, rx) = mpsc::channel::<()>();
        let fo2 = fo.clone();
        let h = std::thread::Builder::new().name("gc-forcer".into()).spawn(move || {
            let mut idx = index.clone();
            let idx2 = index.clone();
            let start = fo2.worker_ops.load(Ordering::SeqCst);
            let fo3 = fo2.clone();
            // same code path as segment_updater.rs::garbage_collect_files
            let res = idx.directory_mut().garbage_collect(move || {
                let mut living = tantivy::verif::c10_living_files(&idx2);
                living.insert(PathBuf::from(c01::META));
                // gate: living is computed; let the worker run on before the deletes
                let _ = tx.send(());
                let t0 = Instant::now();
                while fo3.worker_ops.load(Ordering::SeqCst) < start + 6 && t0.elapsed() < Duration::from_millis(20) {
                    std::thread::yield_now();
                }
                if fo3.worker_ops.load(Ordering::SeqCst) >= start + 6 {
                    fo3.gate_progress.fetch_add(1, Ordering::SeqCst);
                }
                living
            });
            match res {
                Ok(r) => fo2.deleted.lock().unwrap().extend(r.deleted_files.iter().map(|p| p.to_string_lossy().to_string())),
                Err(e) => fo2.problems.lock().unwrap().push(("C10:forced-gc-error".into(), format!("{e}"))),
            }
            fo2.busy.store(false, Ordering::SeqCst);
        });
        if let Ok(h) = h {
            fo.threads.lock().unwrap().push(h);
            // wait until GC has computed the living set (or has finished)
            let _ = rx.recv_timeout(Duration::from_secs(5));
        } else {
            fo.busy.store(false, Ordering::SeqCst);
        }
    })
}

fn check_history(ctx: &mut Ctx, h: &Hist, force: Option<(u64, u64)>) {
    let hist_json = h.to_json();
    let case = json!({"kind": "history", "history": hist_json, "force": force.map(|(s, p)| vec![s, p])});
    let vdir = VDir::new();
    vdir.with_state(|s| s.record_data = true);
    let fo = Arc::new(Forcer {
        index: Mutex::new(None),
        busy: AtomicBool::new(false),
        worker_ops: AtomicU64::new(0),
        stride: force.map(|f| f.0).unwrap_or(1),
        phase: force.map(|f| f.1).unwrap_or(0),
        forced: AtomicU64::new(0),
        gate_progress: AtomicU64::new(0),
        transient: AtomicU64::new(0),
        deleted: Mutex::new(vec![]),
        problems: Mutex::new(vec![]),
        threads: Mutex::new(vec![]),
        enabled: AtomicBool::new(force.is_some()),
    });
    vdir.set_hook(Some(make_hook(fo.clone())));
    // quiescent points observed during the run (checked after, on snapshots taken here)
    let merges_may_run = h.merge_policy || h.steps.iter().any(|s| matches!(s, Step::Merge { wait: false } | Step::PolicyOn));
    let mut snapshots: Vec<(Point, BTreeSet<String>, Vec<u8>, Option<BTreeSet<String>>, BTreeSet<String>)> = vec![];
    let fo_obs = fo.clone();
    let vd = vdir.clone();
    let mut end_gc_err: Option<String> = None;
    let mut stray_at_end = 0usize;
    let forced = force.is_some();
    let run = catch_unwind(AssertUnwindSafe(|| {
        c01::run_history(h, &vdir, &mut |pt, index, _w, _ids| {
            if pt == Point::Created {
                *fo_obs.index.lock().unwrap() = Some(index.clone());
            }
            // the real GC runs on a writer's updater thread, whose segment manager keeps the
            // committed metas alive; without a writer there is nobody to run it
            if pt == Point::WriterDropping {
                fo_obs.enabled.store(false, Ordering::SeqCst);
                while fo_obs.busy.load(Ordering::SeqCst) {
                    std::thread::yield_now();
                }
            }
            if pt == Point::WriterReady && forced {
                fo_obs.enabled.store(true, Ordering::SeqCst);
            }
            let quiescent = match pt {
                Point::CommitReturned => !merges_may_run && !forced,
                Point::End => true,
                _ => false,
            };
            if quiescent {
                if pt == Point::End {
                    // forced collections still running belong to the history
                    fo_obs.enabled.store(false, Ordering::SeqCst);
                    let hs: Vec<_> = fo_obs.threads.lock().unwrap().drain(..).collect();
                    for t in hs {
                        let _ = t.join();
                    }
                    // quiescence of the property = commit returned, merges finished AND one
                    // collection has run (a discarded merge leaves its output for the next GC)
                    match index.writer_with_num_threads::<tantivy::TantivyDocument>(1, 15_000_000) {
                        Ok(w) => {
                            // "merges have finished": `wait_merging_threads` returns when the merge
                            // operations are dropped, which can be a moment before a finishing merge
                            // thread lets go of its last SegmentMeta clone; wait until the inventory
                            // protects nothing but committed segments
                            let t0 = Instant::now();
                            loop {
                                let committed: HashSet<PathBuf> = index.searchable_segment_metas().map(|ms| ms.iter().flat_map(|m| { let mut f = m.list_files(); f.extend(SEG_SUFFIXES.iter().map(|s| PathBuf::from(format!("{}{s}", m.id().uuid_string())))); f }).collect()).unwrap_or_default();
                                let living = tantivy::verif::c10_living_files(index);
                                let stray: Vec<&PathBuf> = living.iter().filter(|p| !committed.contains(*p) && !committed.iter().any(|c| same_segment(c, p))).collect();
                                if stray.is_empty() {
                                    break;
                                }
                                if t0.elapsed() > Duration::from_millis(1500) {
                                    stray_at_end = stray.len();
                                    break;
                                }
                                std::thread::sleep(Duration::from_millis(2));
                            }
                            let r = w.garbage_collect_files().wait();
                            if std::env::var("C10_DEBUG").is_ok() {
                                let mut l: Vec<String> = tantivy::verif::c10_living_files(index).iter().map(|p| p.to_string_lossy()[..6].to_string()).collect();
                                l.sort();
                                l.dedup();
                                eprintln!("END GC: {:?}; living segments {:?}; searchable {:?}", r.map(|g| g.deleted_files.len()), l, index.searchable_segment_ids());
                            }
                            drop(w);
                        }
                        Err(e) => end_gc_err = Some(format!("{e}")),
                    }
                }
                let d = listing(&vd, &[]);
                let meta = vd.raw(Path::new(c01::META)).unwrap_or_default();
                let mj = managed_json(&vd).ok();
                let mem: BTreeSet<String> = index.directory().list_managed_files().iter().map(|p| p.to_string_lossy().to_string()).collect();
                snapshots.push((pt, d, meta, mj, mem));
            }
        })
    }));
    vdir.set_hook(None);
    *fo.index.lock().unwrap() = None;
    let run = match run {
        Ok(r) => r,
        Err(_) => {
            ctx.report.violation("oracle", "C10:history-panic", "tantivy panicked while running the history".into(), case);
            return;
        }
    };
    ctx.report.count_n("ramdirectory-resurrected-after-unlink", resurrected(&vdir, &[]) as u64);
    let nforced = fo.forced.load(Ordering::SeqCst);
    ctx.report.count_n("forced-gc", nforced);
    ctx.report.count_n("forced-gc:worker-ran-on-inside-gate", fo.gate_progress.load(Ordering::SeqCst));
    ctx.report.count_n("forced-gc:files-deleted", fo.deleted.lock().unwrap().len() as u64);
    ctx.report.count_n("worker-storage-ops", fo.worker_ops.load(Ordering::SeqCst));
    ctx.report.count_n("delete-of-file-listed-only-by-a-transient-meta", fo.transient.load(Ordering::SeqCst));
    if fo.problems.lock().unwrap().is_empty() {
        // the discipline of C10_gc_safe (registration-before-create) and its conclusion (no delete
        // of a living file) were observed at every open_write / delete of this real trace
        ctx.report.traces_validated_against_impl += 1;
    }
    for (key, what) in fo.problems.lock().unwrap().drain(..) {
        ctx.report.violation("oracle", &key, what, case.clone());
    }
    for e in &run.errors {
        ctx.report.violation("oracle", "C10:history-op-failed", e.clone(), case.clone());
    }
    if stray_at_end > 0 {
        ctx.report.count("end:live-metas-of-uncommitted-segments-never-released");
    }
    if let Some(e) = end_gc_err {
        ctx.report.violation("oracle", "C10:history-op-failed", format!("writer for the final collection: {e}"), case.clone());
    }
    // registration-before-create at the storage level: when a managed-type file is created, the
    // newest `.managed.json` already lists it
    {
        let mut newest: Option<HashSet<String>> = None;
        let mut reported = false;
        for r in &run.log {
            if !r.ok {
                continue;
            }
            if r.kind == OpKind::AtomicWrite && r.path == c01::MANAGED {
                newest = r.data.as_ref().and_then(|b| serde_json::from_slice::<Vec<String>>(b).ok()).map(|v| v.into_iter().collect());
            } else if r.kind == OpKind::OpenWrite && !is_dot(&r.path) {
                ctx.report.count("open-write:checked-against-newest-managed-json");
                let listed = newest.as_ref().map(|m| m.contains(&r.path)).unwrap_or(false);
                if !listed && !reported {
                    reported = true;
                    ctx.report.violation("oracle", "C10:file-created-before-registered", format!("{} is created by {} (op #{}) although the newest .managed.json does not list it: a crash or I/O error right here leaves a file no ManagedDirectory will ever know", r.path, r.thread, r.seq), case.clone());
                }
            }
        }
    }
    if h.sorted {
        ctx.report.count("history:sorted-index");
        let temps = run.log.iter().filter(|r| r.kind == OpKind::OpenWrite && r.path.ends_with(".store.temp")).count();
        ctx.report.count_n("temp-docstore-files-created", temps as u64);
    }
    // no open_read of a (non-lock) file failed during the run
    for r in &run.log {
        if r.kind == OpKind::OpenRead && !r.ok && !c01::is_lock_file(&r.path) {
            ctx.report.violation("oracle", "C10:open-read-of-needed-file-failed", format!("open_read {} by {} failed (op #{})", r.path, r.thread, r.seq), case.clone());
        }
    }
    let canon = format!("{}|{:?}", hist_json, force);
    let nontrivial = h.steps.iter().any(|s| matches!(s, Step::Rollback | Step::Merge { .. } | Step::Reopen { .. } | Step::DeleteAll | Step::DelGrp(_))) || force.is_some();
    ctx.report.case(&canon, nontrivial);
    for s in &h.steps {
        match s {
            Step::Rollback => ctx.report.count("step:rollback"),
            Step::Merge { .. } => ctx.report.count("step:merge"),
            Step::Reopen { .. } => ctx.report.count("step:reopen"),
            Step::DeleteAll => ctx.report.count("step:delete-all"),
            Step::PolicyOn => ctx.report.count("step:policy-on"),
            Step::Gc => ctx.report.count("step:gc"),
            Step::Commit => ctx.report.count("step:commit"),
            _ => {}
        }
    }
    // quiescent equalities on the snapshots
    for (pt, d, meta, mj, mem) in &snapshots {
        let what = format!("{pt:?}");
        let files = match c01::meta_refs(meta) {
            Ok((_, f)) => f,
            Err(e) => {
                ctx.report.violation("oracle", "C10:meta-json-unreadable", format!("{what}: {e}"), case.clone());
                continue;
            }
        };
        let mut expected: BTreeSet<String> = files.into_iter().collect();
        expected.insert(c01::META.into());
        expected.insert(c01::MANAGED.into());
        expected.extend(d.iter().filter(|p| c01::is_lock_file(p)).cloned());
        let orphans: Vec<&String> = d.difference(&expected).collect();
        let missing: Vec<&String> = expected.difference(d).collect();
        let mut ok = true;
        if !missing.is_empty() {
            ok = false;
            ctx.report.violation("oracle", "C10:needed-file-missing", format!("{what}: files referenced by meta.json do not exist: {missing:?}"), case.clone());
        }
        if temp_relisted_signature(&orphans, &expected) {
            ctx.report.violation("oracle", K_TEMP, format!("{what}: temp doc stores of segments that have deletes remain after commit + GC: {orphans:?}"), case.clone());
        } else if !orphans.is_empty() {
            ok = false;
            let first = orphans[0].clone();
            let hist: Vec<String> = run.log.iter().filter(|r| r.path == first && r.kind != OpKind::Write).map(|r| format!("#{} {} {}", r.seq, r.thread, r.kind.name())).collect();
            let metas: Vec<String> = run.log.iter().filter(|r| r.path == c01::META && r.kind == OpKind::AtomicWrite).map(|r| format!("#{} {}", r.seq, r.thread)).collect();
            let dels: Vec<String> = run.log.iter().filter(|r| r.kind == OpKind::Delete && !c01::is_lock_file(&r.path)).map(|r| format!("#{}", r.seq)).collect();
            ctx.report.violation("oracle", "C10:orphan-files", format!("{what}: files of no committed segment remain: {orphans:?}; ops on {first}: {hist:?}; meta.json writes: {metas:?}; gc deletes: {dels:?}; acks at log positions {:?}", run.acks), case.clone());
        }
        let existing: BTreeSet<String> = d.iter().filter(|p| !is_dot(p)).cloned().collect();
        if mj.as_ref() != Some(&existing) {
            ok = false;
            ctx.report.violation("oracle", "C10:managed-json-differs", format!("{what}: .managed.json = {mj:?}, existing managed files = {existing:?}"), case.clone());
        }
        if *mem != existing {
            ok = false;
            ctx.report.violation("oracle", "C10:managed-set-differs", format!("{what}: in-memory managed set {mem:?} vs existing {existing:?}"), case.clone());
        }
        ctx.report.count(&format!("quiescent:{what}:{}", if ok { "ok" } else { "failed" }));
    }
    // content after everything (forced GC must not have damaged a committed segment)
    let (_, f) = c01::schema();
    let last = run.expected.iter().next_back().map(|(_, v)| v.clone()).unwrap_or_default();
    let has_delete_all = h.steps.contains(&Step::DeleteAll);
    match catch_unwind(AssertUnwindSafe(|| Index::open(vdir.inner.clone()).map_err(|e| e.to_string()).and_then(|i| c01::dump_ids(&i, &f)))) {
        Ok(Ok(ids)) => {
            if !has_delete_all && ids != last {
                ctx.report.violation("oracle", "C10:content-damaged", format!("after the history: expected ids {last:?}, found {ids:?}"), case.clone());
            }
        }
        Ok(Err(e)) => ctx.report.violation("oracle", "C10:index-unreadable-after-history", e, case.clone()),
        Err(_) => ctx.report.violation("oracle", "C10:index-unreadable-after-history", "panic".into(), case.clone()),
    }
    if ctx.report.samples.len() < 2 && nontrivial {
        ctx.report.sample(json!({"history": hist_json, "forced_gc": nforced, "quiescent_points": snapshots.len(), "final_files": snapshots.last().map(|s| s.1.len())}));
    }
}

// ------------------------------------------------------------------------------------------
// C: one collection vs the model
// ------------------------------------------------------------------------------------------

fn check_gc_vs_model(ctx: &mut Ctx, fail_some: bool) {
    let mut rng = ctx.rng.fork();
    let (schema, f) = c01::schema();
    let vdir = VDir::new();
    let index = Index::create(vdir.clone(), schema, Default::default()).unwrap();
    tantivy::verif::set_segment_cut_docs(1 + rng.below(3) as u32);
    let mut w: IndexWriter = index.writer_with_num_threads(1 + rng.usize_below(2), 30_000_000).unwrap();
    w.set_merge_policy(Box::new(NoMergePolicy));
    let mut id = 1u64;
    let mut add = |w: &mut IndexWriter, n: u64| {
        for _ in 0..n {
            w.add_document(doc!(f.id => id, f.grp => c01::grp_of(id), f.body => "gc model")).unwrap();
            id += 1;
        }
    };
    add(&mut w, 2 + rng.below(4));
    w.commit().unwrap();
    if rng.chance(1, 2) {
        w.delete_term(tantivy::Term::from_field_u64(f.grp, rng.below(5)));
        add(&mut w, 1);
        w.commit().unwrap();
    }
    // garbage: uncommitted segments dropped by a rollback (rollback does not collect)
    add(&mut w, 2 + rng.below(4));
    w.rollback().unwrap();
    if rng.chance(1, 2) {
        add(&mut w, 2);
        w.rollback().unwrap();
    }
    tantivy::verif::set_segment_cut_docs(0);
    // quiescent: workers idle, nothing in flight
    let case = json!({"kind": "gc-vs-model", "seed": ctx.seed, "fail_some": fail_some});
    let d0 = listing(&vdir, &[]);
    let m0: BTreeSet<String> = index.directory().list_managed_files().iter().map(|p| p.to_string_lossy().to_string()).collect();
    let living: BTreeSet<String> = tantivy::verif::c10_living_files(&index).iter().map(|p| p.to_string_lossy().to_string()).collect();
    let mut names: Vec<String> = vec![c01::META.to_string()];
    let mut intern: HashMap<String, usize> = HashMap::new();
    intern.insert(c01::META.to_string(), 0);
    let mut idof = |s: &String, names: &mut Vec<String>| -> usize {
        if let Some(i) = intern.get(s) {
            return *i;
        }
        names.push(s.clone());
        intern.insert(s.clone(), names.len() - 1);
        names.len() - 1
    };
    let d_ids: Vec<usize> = d0.iter().filter(|p| !is_dot(p)).map(|p| idof(p, &mut names)).collect();
    let m_ids: Vec<usize> = m0.iter().map(|p| idof(p, &mut names)).collect();
    let l_ids: Vec<usize> = living.iter().map(|p| idof(p, &mut names)).collect();
    let to_delete: Vec<String> = m0.iter().filter(|p| !living.contains(*p) && p.as_str() != c01::META).cloned().collect();
    let mut fails: Vec<String> = vec![];
    if fail_some && !to_delete.is_empty() {
        let k = 1 + rng.usize_below(to_delete.len().min(3));
        let mut td = to_delete.clone();
        rng.shuffle(&mut td);
        fails = td.into_iter().take(k).collect();
    }
    let fail_set: HashSet<String> = fails.iter().cloned().collect();
    let f_ids: Vec<usize> = fails.iter().map(|p| idof(p, &mut names)).collect();
    let nl = crate::model::nat_list;
    let req = format!("C10 gc {} {} {} {}", nl(&d_ids), nl(&m_ids), nl(&l_ids), nl(&f_ids));
    let model = ctx.model.ask(&req);
    let model_steps = ctx.model.ask(&req.replacen("C10 gc", "C10 steps", 1));
    // the real collection; failing deletes are injected by VDir's fault filter
    *FAIL_PATHS.lock().unwrap() = Some(fail_set.clone());
    vdir.with_state(|s| {
        s.fault_filter = Some(fail_filter);
        s.fail_at = Some((0, true));
        s.faultable_seen = 0;
    });
    let res = w.garbage_collect_files().wait();
    vdir.with_state(|s| {
        s.fail_at = None;
        s.fault_filter = None;
    });
    *FAIL_PATHS.lock().unwrap() = None;
    let (deleted, failed): (BTreeSet<String>, BTreeSet<String>) = match &res {
        Ok(r) => (
            r.deleted_files.iter().map(|p| p.to_string_lossy().to_string()).collect(),
            r.failed_to_delete_files.iter().map(|p| p.to_string_lossy().to_string()).collect(),
        ),
        Err(e) => {
            ctx.report.violation("oracle", "C10:gc-error", format!("garbage_collect_files: {e}"), case);
            return;
        }
    };
    let d1: BTreeSet<String> = listing(&vdir, &[]).into_iter().filter(|p| !is_dot(p)).collect();
    let m1: BTreeSet<String> = index.directory().list_managed_files().iter().map(|p| p.to_string_lossy().to_string()).collect();
    let show = |s: &BTreeSet<String>, names: &mut Vec<String>, idof: &mut dyn FnMut(&String, &mut Vec<String>) -> usize| -> String {
        let mut v: Vec<usize> = s.iter().map(|p| idof(p, names)).collect();
        v.sort();
        nl(&v)
    };
    let real = format!("{}|{}|{}|{}", show(&d1, &mut names, &mut idof), show(&m1, &mut names, &mut idof), show(&deleted, &mut names, &mut idof), show(&failed, &mut names, &mut idof));
    ctx.report.case(&format!("gc|{req}"), !to_delete.is_empty());
    ctx.report.count(if fails.is_empty() { "gc-vs-model:no-failures" } else { "gc-vs-model:with-failing-deletes" });
    ctx.report.count_n("gc-vs-model:garbage-files", to_delete.len() as u64);
    if real != model {
        ctx.report.violation("model", "C10:gc-result-differs-from-model", format!("real dir|managed|deleted|failed = {real}; model fullGC = {model} (request {req})"), case.clone());
    }
    if model_steps != format!("{model}|safe") {
        ctx.report.violation("model", "C10:model-small-step-differs", format!("fullGC = {model}, fullGCSteps = {model_steps}"), case.clone());
    }
    // oracle on the implementation alone: failed deletes stay managed and on disk; the rest is clean
    for p in &fails {
        if !m1.contains(p) || !d1.contains(p) {
            ctx.report.violation("oracle", "C10:failed-delete-forgotten", format!("{p}: delete failed but the file is no longer managed / listed"), case.clone());
        }
    }
    if let Ok(mj) = managed_json(&vdir) {
        if mj != m1 {
            ctx.report.violation("oracle", "C10:managed-json-differs", format!(".managed.json {mj:?} vs in-memory {m1:?} after GC"), case.clone());
        }
    }
    // a second collection without faults removes what was left
    if !fails.is_empty() {
        let _ = w.garbage_collect_files().wait();
        check_quiescent(ctx, &vdir, &index, "after the retry collection", &case);
    } else {
        check_quiescent(ctx, &vdir, &index, "after one collection", &case);
    }
    drop(w);
}

/// deletes that the instrumented directory makes fail with an I/O error (VDir's fault filter is
/// a plain fn pointer, hence the static)
static FAIL_PATHS: Mutex<Option<HashSet<String>>> = Mutex::new(None);

fn fail_filter(k: OpKind, p: &str) -> bool {
    k == OpKind::Delete && FAIL_PATHS.lock().unwrap().as_ref().map(|s| s.contains(p)).unwrap_or(false)
}

// ------------------------------------------------------------------------------------------
// D: a reader in the middle of loading
// ------------------------------------------------------------------------------------------

/// D2: forced schedule. A reader of a SECOND `Index` instance over the same directory (its
/// SegmentMeta objects do not protect anything in the writer's inventory, like another process)
/// reloads; it is paused at its first storage operation after `atomic_read(meta.json)`.
/// * If it holds META_LOCK at that point (the order of the unchanged code), the writer's merge +
///   commit + collection are started and the reader goes on as soon as the collection is seen
///   waiting for the lock: the collection can only finish after the reader released it.
/// * If it does not hold META_LOCK yet (it read the segment list before locking), merge + commit
///   + collection run to completion first — a schedule the lock does not exclude.
/// Oracle: the reload succeeds, none of the reader's `open_read`s fails, all documents are seen.
fn check_reader_forced(ctx: &mut Ctx) {
    struct Shared {
        armed: AtomicBool,
        saw_meta_read: AtomicBool,
        holds_lock: AtomicBool,
        paused_once: AtomicBool,
        gc_at_lock: AtomicBool,
        writer_done: AtomicBool,
        lock_held_at_pause: AtomicBool,
        writer: Mutex<Option<IndexWriter>>,
        ids: Mutex<Vec<tantivy::index::SegmentId>>,
        handle: Mutex<Option<std::thread::JoinHandle<(IndexWriter, Vec<String>)>>>,
    }
    let mut rng = ctx.rng.fork();
    let (schema, f) = c01::schema();
    let vdir = VDir::new();
    let case = json!({"kind": "reader-forced", "seed": ctx.seed});
    let index_w = Index::create(vdir.clone(), schema, Default::default()).unwrap();
    tantivy::verif::set_segment_cut_docs(1);
    let mut w: IndexWriter = index_w.writer_with_num_threads(1, 15_000_000).unwrap();
    w.set_merge_policy(Box::new(NoMergePolicy));
    let n = 2 + rng.below(3);
    for id in 1..=n {
        w.add_document(doc!(f.id => id, f.grp => c01::grp_of(id), f.body => "forced reader")).unwrap();
    }
    w.commit().unwrap();
    tantivy::verif::set_segment_cut_docs(0);
    let ids = index_w.searchable_segment_ids().unwrap();
    // the reader's own Index instance
    let index_r = Index::open(vdir.clone()).unwrap();
    let reader = index_r.reader_builder().reload_policy(tantivy::ReloadPolicy::Manual).try_into().unwrap();
    let sh = Arc::new(Shared {
        armed: AtomicBool::new(true),
        saw_meta_read: AtomicBool::new(false),
        holds_lock: AtomicBool::new(false),
        paused_once: AtomicBool::new(false),
        gc_at_lock: AtomicBool::new(false),
        writer_done: AtomicBool::new(false),
        lock_held_at_pause: AtomicBool::new(false),
        writer: Mutex::new(Some(w)),
        ids: Mutex::new(ids),
        handle: Mutex::new(None),
    });
    let meta_lock_name = META_LOCK.filepath.to_string_lossy().to_string();
    let sh2 = sh.clone();
    let lock_name = meta_lock_name.clone();
    vdir.set_hook(Some(Arc::new(move |rec: &OpRec| {
        if !sh2.armed.load(Ordering::SeqCst) {
            return;
        }
        if rec.thread != "c10-reader" {
            // the collection reaches for META_LOCK while the reader is paused / loading
            if rec.kind == OpKind::OpenWrite && rec.path == lock_name {
                sh2.gc_at_lock.store(true, Ordering::SeqCst);
            }
            return;
        }
        if rec.kind == OpKind::OpenWrite && rec.path == lock_name {
            sh2.holds_lock.store(true, Ordering::SeqCst);
        }
        if rec.kind == OpKind::Delete && rec.path == lock_name {
            sh2.holds_lock.store(false, Ordering::SeqCst);
        }
        if rec.kind == OpKind::AtomicRead && rec.path == c01::META {
            sh2.saw_meta_read.store(true, Ordering::SeqCst);
            return;
        }
        if !sh2.saw_meta_read.load(Ordering::SeqCst) || sh2.paused_once.swap(true, Ordering::SeqCst) {
            return;
        }
        // first operation of the reader after it has read meta.json: the pause point.
        // (in the shape "read first, lock second" this operation is the lock's open_write itself,
        // which has not been executed yet: the reader does not hold the lock)
        let this_is_lock = rec.kind == OpKind::OpenWrite && rec.path == lock_name;
        let held = sh2.holds_lock.load(Ordering::SeqCst) && !this_is_lock;
        if this_is_lock {
            sh2.holds_lock.store(false, Ordering::SeqCst);
        }
        sh2.lock_held_at_pause.store(held, Ordering::SeqCst);
        let w = sh2.writer.lock().unwrap().take();
        let ids = sh2.ids.lock().unwrap().clone();
        let sh3 = sh2.clone();
        if let Some(mut w) = w {
            let h = std::thread::Builder::new().name("c10-writer".into()).spawn(move || {
                let mut errs = vec![];
                if let Err(e) = w.merge(&ids).wait() {
                    errs.push(format!("merge: {e}"));
                }
                if let Err(e) = w.commit() {
                    errs.push(format!("commit: {e}"));
                }
                if let Err(e) = w.garbage_collect_files().wait() {
                    errs.push(format!("gc: {e}"));
                }
                sh3.writer_done.store(true, Ordering::SeqCst);
                (w, errs)
            });
            if let Ok(h) = h {
                *sh2.handle.lock().unwrap() = Some(h);
            }
        }
        let t0 = Instant::now();
        if held {
            // the lock is ours: wait only until the collection is seen reaching for it
            while !sh2.gc_at_lock.load(Ordering::SeqCst) && !sh2.writer_done.load(Ordering::SeqCst) && t0.elapsed() < Duration::from_secs(3) {
                std::thread::sleep(Duration::from_millis(1));
            }
        } else {
            // nothing keeps the writer from finishing: let it
            while !sh2.writer_done.load(Ordering::SeqCst) && t0.elapsed() < Duration::from_secs(20) {
                std::thread::sleep(Duration::from_millis(1));
            }
        }
    })));
    let log_before = vdir.log_len();
    let reload = std::thread::Builder::new().name("c10-reader".into()).spawn(move || {
        let r = reader.reload().map_err(|e| e.to_string());
        let ids = r.clone().and_then(|_| {
            let s = reader.searcher();
            s.search(&tantivy::query::AllQuery, &tantivy::collector::Count).map_err(|e| e.to_string())
        });
        (r, ids)
    }).unwrap().join();
    sh.armed.store(false, Ordering::SeqCst);
    vdir.set_hook(None);
    let joined = sh.handle.lock().unwrap().take().map(|h| h.join());
    ctx.report.case("reader-forced", true);
    ctx.report.count(if sh.lock_held_at_pause.load(Ordering::SeqCst) { "reader-forced:paused-holding-meta-lock" } else { "reader-forced:paused-without-meta-lock" });
    if !sh.paused_once.load(Ordering::SeqCst) {
        ctx.report.violation("model", "C10:reader-forced-schedule-not-reached", "the reader never read meta.json / never reached the pause point".into(), case.clone());
    }
    // the reader's own open_reads
    let log = vdir.log();
    for r in &log[log_before..] {
        if r.thread == "c10-reader" && r.kind == OpKind::OpenRead && !r.ok {
            ctx.report.violation("oracle", "C10:reader-open-after-gc-failed", format!("the loading reader's open_read of {} failed: garbage collection deleted a file of the segment list it had read (META_LOCK held at the pause: {})", r.path, sh.lock_held_at_pause.load(Ordering::SeqCst)), case.clone());
            break;
        }
    }
    match reload {
        Ok((Ok(()), Ok(cnt))) => {
            if cnt as u64 != n {
                ctx.report.violation("oracle", "C10:reader-sees-wrong-content", format!("reloaded searcher counts {cnt} documents, expected {n}"), case.clone());
            }
        }
        Ok((Err(e), _)) | Ok((_, Err(e))) => ctx.report.violation("oracle", "C10:reader-reload-failed", format!("IndexReader::reload of a second Index instance failed while the writer merged, committed and collected: {e}"), case.clone()),
        Err(_) => ctx.report.violation("oracle", "C10:reader-reload-failed", "reload panicked".into(), case.clone()),
    }
    match joined {
        Some(Ok((w, errs))) => {
            for e in errs {
                ctx.report.violation("oracle", "C10:history-op-failed", e, case.clone());
            }
            let _ = w.wait_merging_threads();
        }
        Some(Err(_)) => ctx.report.violation("oracle", "C10:history-op-failed", "writer thread panicked".into(), case.clone()),
        None => {}
    }
    // afterwards everything is collected
    if let Ok(w2) = index_w.writer_with_num_threads::<tantivy::TantivyDocument>(1, 15_000_000) {
        let _ = w2.garbage_collect_files().wait();
    }
    check_quiescent(ctx, &vdir, &index_w, "after the forced reader schedule", &case);
}

fn check_reader_window(ctx: &mut Ctx) {
    let mut rng = ctx.rng.fork();
    let (schema, f) = c01::schema();
    let vdir = VDir::new();
    let index = Index::create(vdir.clone(), schema, Default::default()).unwrap();
    tantivy::verif::set_segment_cut_docs(1);
    let mut w: IndexWriter = index.writer_with_num_threads(1, 15_000_000).unwrap();
    w.set_merge_policy(Box::new(NoMergePolicy));
    let n = 2 + rng.below(3);
    for id in 1..=n {
        w.add_document(doc!(f.id => id, f.grp => c01::grp_of(id), f.body => "reader window")).unwrap();
    }
    w.commit().unwrap();
    tantivy::verif::set_segment_cut_docs(0);
    let case = json!({"kind": "reader-window", "seed": ctx.seed});
    // the reader: META_LOCK, then the list of segments, as IndexReader::open_segment_readers does
    let lock = match index.directory().acquire_lock(&META_LOCK) {
        Ok(l) => l,
        Err(e) => {
            ctx.report.violation("oracle", "C10:meta-lock-unavailable", format!("{e:?}"), case);
            return;
        }
    };
    let metas = index.searchable_segment_metas().unwrap();
    let files: Vec<PathBuf> = metas.iter().flat_map(|m| m.list_files()).filter(|p| vdir.inner.exists(p).unwrap_or(false)).collect();
    let ids = index.searchable_segment_ids().unwrap();
    drop(metas); // the reader process holds no SegmentMeta of the writer's inventory
    // the writer meanwhile merges everything away, commits and collects
    let t = std::thread::spawn(move || {
        let r = w.merge(&ids).wait().map(|_| ()).map_err(|e| e.to_string());
        let r2 = w.commit().map(|_| ()).map_err(|e| e.to_string());
        let r3 = w.garbage_collect_files().wait().map(|_| ()).map_err(|e| e.to_string());
        (w, r, r2, r3)
    });
    std::thread::sleep(Duration::from_millis(180));
    let mut gone = vec![];
    for p in &files {
        if index.directory().open_read(p).is_err() {
            gone.push(p.to_string_lossy().to_string());
        }
    }
    ctx.report.case("reader-window", true);
    ctx.report.count("reader-window");
    if !gone.is_empty() {
        ctx.report.violation("oracle", "C10:reader-files-collected-under-meta-lock", format!("files of the segments a loading reader listed were deleted while it held META_LOCK: {gone:?}"), case.clone());
    }
    drop(lock);
    let (w, r, r2, r3) = t.join().unwrap();
    for e in [r, r2, r3].into_iter().filter_map(|x| x.err()) {
        ctx.report.violation("oracle", "C10:history-op-failed", e, case.clone());
    }
    let _ = w.wait_merging_threads();
    // once the reader is done the merged-away segments are collected
    let w2: IndexWriter = index.writer_with_num_threads(1, 15_000_000).unwrap();
    w2.set_merge_policy(Box::new(NoMergePolicy));
    let _ = w2.garbage_collect_files().wait();
    check_quiescent(ctx, &vdir, &index, "after the reader released META_LOCK", &case);
}

// ------------------------------------------------------------------------------------------
// E: recovered crash images + one commit + one collection
// ------------------------------------------------------------------------------------------

fn after_crash(files: &c01::Files) -> Result<(BTreeSet<String>, BTreeSet<String>, BTreeSet<String>), String> {
    let ram = RamDirectory::create();
    for (n, b) in files {
        ram.atomic_write(Path::new(n), b).map_err(|e| e.to_string())?;
    }
    let vdir = VDir::wrap(ram);
    let (_, f) = c01::schema();
    let index = Index::open(vdir.clone()).map_err(|e| format!("open: {e}"))?;
    let mut w: IndexWriter = index.writer_with_num_threads(1, 15_000_000).map_err(|e| format!("writer: {e}"))?;
    w.set_merge_policy(Box::new(NoMergePolicy));
    w.add_document(doc!(f.id => 777u64, f.grp => 0u64, f.body => "after crash")).map_err(|e| e.to_string())?;
    w.commit().map_err(|e| format!("commit: {e}"))?;
    w.garbage_collect_files().wait().map_err(|e| format!("gc: {e}"))?;
    w.wait_merging_threads().map_err(|e| e.to_string())?;
    let extra: Vec<String> = files.keys().cloned().collect();
    let d = listing(&vdir, &extra);
    let meta = vdir.raw(Path::new(c01::META)).ok_or("meta.json missing")?;
    let (_, refs) = c01::meta_refs(&meta)?;
    let mut expected: BTreeSet<String> = refs.into_iter().collect();
    expected.insert(c01::META.into());
    expected.insert(c01::MANAGED.into());
    let managed_after = managed_json(&vdir)?;
    Ok((d, expected, managed_after))
}

fn check_after_crash(ctx: &mut Ctx) {
    let h = Hist { threads: 1, merge_policy: false, cut_docs: 2, sorted: false, steps: vec![Step::Add(1), Step::Add(2), Step::Add(3), Step::Commit, Step::Add(4), Step::DelGrp(1), Step::Commit, Step::Add(5), Step::Rollback, Step::Add(6), Step::Commit] };
    let vdir = VDir::new();
    vdir.with_state(|s| s.record_data = true);
    let run = c01::run_history(&h, &vdir, &mut |_, _, _, _| {});
    let trace = match c01::tokenize_opt(&run, true) {
        Ok(t) => t,
        Err(e) => {
            ctx.report.violation("model", "C10:trace-not-representable", e, json!({"kind":"after-crash"}));
            return;
        }
    };
    // the real log satisfies R1-R3 of the model (registered before created, forgotten only after
    // the unlink is durable): the hypothesis of C10_existing_files_are_managed
    let reg = ctx.model.ask(&format!("C10 reg {}", trace.line()));
    ctx.report.count(&format!("storage-discipline-R1-R3:{}", if reg == "ok" { "ok" } else { "violated" }));
    if reg == "ok" {
        ctx.report.traces_validated_against_impl += 1;
    } else {
        let i: usize = reg.parse().unwrap_or(0);
        let op = trace.src.get(i).copied().flatten().map(|s| run.log[s].line()).unwrap_or_default();
        ctx.report.violation("model", "C10:registration-discipline-violated", format!("token {i} ({}) [{op}] breaks R1-R3 (create before registration, or a path dropped from .managed.json before its unlink is durable)", trace.toks.get(i).cloned().unwrap_or_default()), json!({"kind":"after-crash"}));
    }
    // boundaries right after a file creation (managed rename pending, create pending) and a few others
    let mut ks: Vec<usize> = (trace.base_tok + 1..=trace.toks.len()).filter(|k| trace.toks[k - 1].starts_with('c')).collect();
    let others: Vec<usize> = (trace.base_tok + 1..=trace.toks.len()).filter(|k| { let t = &trace.toks[k - 1]; t.starts_with('t') || t == "s" || t.starts_with('k') }).collect();
    let budget = ctx.budget(40, 400) as usize;
    let mut rng = ctx.rng.fork();
    rng.shuffle(&mut ks);
    ks.truncate(budget / 2);
    let mut o = others;
    rng.shuffle(&mut o);
    ks.extend(o.into_iter().take(budget / 4));
    ks.sort();
    let resp = ctx.model.ask(&format!("C01 images {} {}", ks.iter().map(|k| k.to_string()).collect::<Vec<_>>().join(","), trace.line()));
    let bounds = match c01::parse_images(&resp) {
        Ok(b) => b,
        Err(e) => {
            ctx.report.violation("model", "C10:model-images-unparsable", e, json!({"kind":"after-crash"}));
            return;
        }
    };
    let mut seen = HashSet::new();
    let mut evaluated = 0usize;
    for b in &bounds {
        let applied = b.images.iter().find(|d| d.kind == 0).cloned();
        for d in &b.images {
            // keep to images the C01 oracle accepts with certainty: meta.json is the visible version
            let meta_visible = applied.as_ref().map(|a| a.atoms.iter().find(|x| x.0 == 0) == d.atoms.iter().find(|x| x.0 == 0)).unwrap_or(false);
            if !meta_visible || evaluated >= budget * 3 {
                continue;
            }
            let files = c01::materialize(d, &trace, &run.log);
            let mut canon = String::new();
            for (n, v) in &files {
                canon.push_str(&format!("{n}:{}:{:x};", v.len(), crate::report::fnv(v)));
            }
            if !seen.insert(crate::report::fnv(canon.as_bytes())) {
                continue;
            }
            evaluated += 1;
            let visible_managed: BTreeSet<String> = applied.as_ref().map(|a| c01::materialize(a, &trace, &run.log)).and_then(|f| f.get(c01::MANAGED).cloned())
                .and_then(|b| serde_json::from_slice::<Vec<String>>(&b).ok()).map(|v| v.into_iter().collect()).unwrap_or_default();
            let desc = format!("{} {} at boundary {}", c01::kind_name(d.kind), trace.names.get(d.subject).cloned().unwrap_or_default(), b.k);
            ctx.report.case(&format!("crash|{canon}"), d.kind != 0);
            ctx.report.count(&format!("after-crash:image-kind:{}", c01::kind_name(d.kind)));
            judge_after_crash(ctx, &files, &visible_managed, &desc);
        }
    }
}

/// recovery + one commit + one collection on a crash image, and the verdict.
/// `visible_managed` = what the newest `.managed.json` written before the crash point lists.
/// Finding S2 (rename of `.managed.json` not synced) is exactly: a file survives that the
/// NEWEST `.managed.json` did list but the image's (older) version does not. A surviving file
/// that not even the newest `.managed.json` listed was created before it was registered.
fn judge_after_crash(ctx: &mut Ctx, files: &c01::Files, visible_managed: &BTreeSet<String>, desc: &str) {
    let managed_in_image: BTreeSet<String> = files.get(c01::MANAGED).and_then(|b| serde_json::from_slice::<Vec<String>>(b).ok()).map(|v| v.into_iter().collect()).unwrap_or_default();
    let unmanaged_present: BTreeSet<String> = files.keys().filter(|n| !is_dot(n) && !managed_in_image.contains(*n)).cloned().collect();
    let case = json!({"kind": "after-crash-image", "image": desc, "visible_managed": visible_managed.iter().cloned().collect::<Vec<_>>(),
        "files": files.iter().map(|(k, v)| (k.clone(), serde_json::Value::String(crate::model::hex(v)))).collect::<serde_json::Map<_, _>>()});
    match catch_unwind(AssertUnwindSafe(|| after_crash(files))) {
        Ok(Ok((dir, expected, managed_after))) => {
            let orphans: BTreeSet<String> = dir.difference(&expected).cloned().collect();
            let missing: Vec<&String> = expected.difference(&dir).collect();
            if !missing.is_empty() {
                ctx.report.violation("oracle", "C10:needed-file-missing-after-crash", format!("{desc}: {missing:?}"), case.clone());
            }
            if orphans.is_empty() {
                ctx.report.count(if unmanaged_present.is_empty() { "after-crash:clean (every existing file was listed in the image's .managed.json)" } else { "after-crash:clean" });
                let existing: BTreeSet<String> = dir.iter().filter(|p| !is_dot(p)).cloned().collect();
                if managed_after != existing {
                    ctx.report.violation("oracle", "C10:managed-json-differs-after-crash", format!("{desc}: after recovery + commit + GC .managed.json = {managed_after:?} but the existing files are {existing:?}"), case.clone());
                }
            } else if orphans.iter().all(|o| unmanaged_present.contains(o) && visible_managed.contains(o)) {
                ctx.report.violation("oracle", K_S2, format!("{desc}: {orphans:?} exist in the crash image, are listed by the newest .managed.json written before the crash but not by the image's version (rename not synced, creation applied); they survive recovery + commit + GC"), case.clone());
            } else if orphans.iter().any(|o| !visible_managed.contains(o)) {
                let bad: Vec<&String> = orphans.iter().filter(|o| !visible_managed.contains(*o)).collect();
                ctx.report.violation("oracle", "C10:file-created-before-registered", format!("{desc}: {bad:?} exist although no .managed.json written before the crash point lists them; unmanaged forever: they survive recovery + commit + GC"), case.clone());
            } else {
                ctx.report.violation("oracle", "C10:orphan-after-crash", format!("{desc}: orphans {orphans:?} (unmanaged in the image: {unmanaged_present:?})"), case.clone());
            }
        }
        Ok(Err(e)) => ctx.report.violation("oracle", "C10:recovery-failed", format!("{desc}: {e}"), case.clone()),
        Err(_) => ctx.report.violation("oracle", "C10:recovery-failed", format!("{desc}: panic"), case.clone()),
    }
}

// ------------------------------------------------------------------------------------------
// F: I/O error on the atomic write of .managed.json during open_write, then recovery
// ------------------------------------------------------------------------------------------

fn managed_write_filter(k: OpKind, p: &str) -> bool {
    k == OpKind::AtomicWrite && p == c01::MANAGED
}

/// Fail the `nth` atomic write of `.managed.json` (0 = the registration of meta.json at
/// Index::create, never chosen) once, while a writer indexes and commits; whatever the writer
/// reports, recover: a fresh process opens the directory (fresh ManagedDirectory reading the
/// persisted `.managed.json`), commits once and collects once. The quiescent equalities must hold.
fn check_managed_write_fault(ctx: &mut Ctx, nth: Option<u64>, cut_docs: u32, docs: u64) {
    let nth = nth.unwrap_or(1);
    let (schema, f) = c01::schema();
    let vdir = VDir::new();
    let case = json!({"kind": "managed-write-fault", "nth": nth, "cut_docs": cut_docs, "docs": docs});
    let index = Index::create(vdir.clone(), schema, Default::default()).unwrap();
    vdir.with_state(|s| {
        s.fault_filter = Some(managed_write_filter);
        s.fail_at = Some((nth, false));
    });
    tantivy::verif::set_segment_cut_docs(cut_docs);
    let mut commit_failed = false;
    {
        let mut w: IndexWriter = index.writer_with_num_threads(1, 15_000_000).unwrap();
        w.set_merge_policy(Box::new(NoMergePolicy));
        for id in 1..=docs {
            if w.add_document(doc!(f.id => id, f.grp => c01::grp_of(id), f.body => "managed fault")).is_err() {
                break;
            }
        }
        if w.commit().is_err() {
            commit_failed = true;
        }
        drop(w);
    }
    tantivy::verif::set_segment_cut_docs(0);
    let injected = vdir.with_state(|s| {
        let n = s.faults_injected;
        s.fail_at = None;
        s.fault_filter = None;
        n
    });
    drop(index);
    ctx.report.case(&format!("managed-fault|{nth}|{cut_docs}|{docs}"), injected > 0);
    ctx.report.count(if injected > 0 { "managed-write-fault:injected" } else { "managed-write-fault:position-not-reached" });
    if commit_failed {
        ctx.report.count("managed-write-fault:commit-reported-error");
    }
    // recovery by a fresh process
    let index = match Index::open(vdir.clone()) {
        Ok(i) => i,
        Err(e) => {
            ctx.report.violation("oracle", "C10:recovery-failed", format!("open after a failed .managed.json write: {e}"), case);
            return;
        }
    };
    let w: Result<IndexWriter, _> = index.writer_with_num_threads(1, 15_000_000);
    let mut w = match w {
        Ok(w) => w,
        Err(e) => {
            ctx.report.violation("oracle", "C10:recovery-failed", format!("writer after a failed .managed.json write: {e}"), case);
            return;
        }
    };
    w.set_merge_policy(Box::new(NoMergePolicy));
    let r = w.add_document(doc!(f.id => 4242u64, f.grp => 0u64, f.body => "after fault")).map(|_| ()).and_then(|_| w.commit().map(|_| ())).and_then(|_| w.garbage_collect_files().wait().map(|_| ()));
    if let Err(e) = r {
        ctx.report.violation("oracle", "C10:recovery-failed", format!("add + commit + GC after a failed .managed.json write: {e}"), case.clone());
    }
    let _ = w.wait_merging_threads();
    check_quiescent(ctx, &vdir, &index, &format!("after an I/O error on .managed.json write #{nth} + recovery + commit + GC"), &case);
}

fn replay(ctx: &mut Ctx, case: &serde_json::Value) {
    match case["kind"].as_str().unwrap_or("") {
        "history" => {
            if let Some(h) = Hist::from_json(&case["history"]) {
                let force = case["force"].as_array().and_then(|a| Some((a.first()?.as_u64()?, a.get(1)?.as_u64()?)));
                check_history(ctx, &h, force);
            }
        }
        "after-crash-image" => {
            let mut files = c01::Files::new();
            if let Some(o) = case["files"].as_object() {
                for (k, v) in o {
                    files.insert(k.clone(), crate::model::unhex(v.as_str().unwrap_or("-")).unwrap_or_default());
                }
            }
            let vm: BTreeSet<String> = case["visible_managed"].as_array().map(|a| a.iter().filter_map(|s| s.as_str().map(String::from)).collect()).unwrap_or_default();
            ctx.report.case("replay", true);
            judge_after_crash(ctx, &files, &vm, case["image"].as_str().unwrap_or("replay"));
        }
        "managed-write-fault" => check_managed_write_fault(ctx, case["nth"].as_u64(), case["cut_docs"].as_u64().unwrap_or(1) as u32, case["docs"].as_u64().unwrap_or(3)),
        "gc-vs-model" => check_gc_vs_model(ctx, case["fail_some"].as_bool().unwrap_or(false)),
        "reader-window" => check_reader_window(ctx),
        "reader-forced" => check_reader_forced(ctx),
        k => ctx.report.notes.push(format!("replay kind {k:?} unknown")),
    }
}

pub fn run(ctx: &mut Ctx) {
    ctx.report.rule = "cases = histories (with or without GC forced at worker storage operations), single collections compared \
        with the model, reader windows, recovered crash images; non-trivial = the history contains a rollback / merge / \
        delete / delete_all / writer restart or forced GC, the collection has garbage to remove, the image differs from the live directory".into();
    ctx.report.correspondence_obligations = vec![
        "quiescent: directory = files of meta.json's segments + meta.json + .managed.json + lock files".into(),
        "quiescent: .managed.json = in-memory managed set = existing non-dot files".into(),
        "registration-before-create: every file opened for writing is listed by a live SegmentMeta at that instant (hook c10_living_files)".into(),
        "no delete hits a file a live SegmentMeta lists; no open_read of a non-lock file fails; content intact with GC forced at worker operations".into(),
        "one collection: real (directory, managed, deleted, failed) = model fullGC = model small-step run, incl. failing deletes".into(),
        "a reader holding META_LOCK keeps its segment files while merge + commit + GC run".into(),
        "forced schedule: a second Index instance's reload paused right after it read meta.json, merge + commit + GC of the writer meanwhile: reload succeeds".into(),
        "recovered crash image + commit + GC: no orphan unless a file exists that the image's .managed.json lacks (S2)".into(),
        "the real storage log satisfies R1-R3 (model regOK): registered before created, forgotten only after the unlink is durable".into(),
        "an I/O error on any .managed.json write, then recovery + commit + GC: quiescent equalities hold".into(),
        "sorted indexes (temp doc store): quiescent equalities hold (finding: temp store relisted by with_delete_meta)".into(),
    ];
    if let Some(case) = ctx.replay.clone() {
        replay(ctx, &case);
        return;
    }
    let thorough = ctx.thorough();
    // corpus: sorted index (temp doc store), with and without deletes in the first transaction
    // (the second is the stored witness of finding C10:temp-docstore-relisted-by-delete-meta)
    for with_delete in [false, true] {
        let mut steps = vec![Step::Add(1), Step::Add(2), Step::Add(3)];
        if with_delete {
            steps.push(Step::DelGrp(1));
        }
        steps.extend([Step::Commit, Step::Add(4), Step::Commit]);
        let h = Hist { threads: 1, merge_policy: false, cut_docs: 2, sorted: true, steps };
        check_history(ctx, &h, None);
    }
    // A: plain histories
    for _ in 0..ctx.budget(100, 800) {
        let mut rng = ctx.rng.fork();
        let mut h = c01::gen_hist(&mut rng, if thorough { 50 } else { 24 }, true);
        h.sorted = rng.chance(1, 3);
        check_history(ctx, &h, None);
    }
    // B: forced GC
    for i in 0..ctx.budget(80, 600) {
        let mut rng = ctx.rng.fork();
        let mut h = c01::gen_hist(&mut rng, if thorough { 40 } else { 20 }, true);
        if i % 2 == 0 {
            h.cut_docs = 1; // back-to-back segments: new files appear while GC is gated
        }
        h.sorted = rng.chance(1, 4);
        let stride = *rng.pick(&[3u64, 5, 7, 11, 17]);
        let phase = rng.below(stride);
        check_history(ctx, &h, Some((stride, phase)));
    }
    // C
    for i in 0..ctx.budget(40, 300) {
        guarded(ctx, "one collection vs model", |c| check_gc_vs_model(c, i % 2 == 1));
    }
    // D
    for _ in 0..ctx.budget(4, 20) {
        guarded(ctx, "reader window", check_reader_window);
    }
    for _ in 0..ctx.budget(3, 12) {
        guarded(ctx, "forced reader schedule", check_reader_forced);
    }
    // E
    guarded(ctx, "recovered crash images", check_after_crash);
    // F: an I/O error on the atomic write of .managed.json while a file is being registered
    for i in 0..ctx.budget(30, 200) {
        let mut rng = ctx.rng.fork();
        let cut = 1 + rng.below(2) as u32;
        let docs = 2 + rng.below(3);
        // the first registrations of a fresh segment are `.store` (or `.store.temp`), `.fast`, ...
        let nth = if i % 3 == 0 { 1 + 6 * ((i / 3) % 3) } else { 1 + rng.below(6 * docs) };
        guarded(ctx, "fault on .managed.json", |c| check_managed_write_fault(c, Some(nth), cut, docs));
    }
}

/// a scenario whose own `unwrap`s hit an error of the code under test (or a panic of it) is a
/// witnessed failure of the implementation, not a crash of the harness
fn guarded(ctx: &mut Ctx, what: &str, f: impl FnOnce(&mut Ctx)) {
    let r = catch_unwind(AssertUnwindSafe(|| f(ctx)));
    tantivy::verif::set_segment_cut_docs(0);
    if r.is_err() {
        ctx.report.violation("oracle", "C10:scenario-failed", format!("{what}: an index operation that must succeed failed or panicked (add / commit / rollback / merge / open)"), json!({"kind": "scenario", "what": what}));
    }
}
