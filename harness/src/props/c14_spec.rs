//! Direct evaluator of aggregation requests over model-coded documents (exact integers).
//! Deliberately written differently from the Lean model (group-by with maps, no hulls).
use super::*;
use std::collections::{BTreeMap, BTreeSet};

#[derive(Clone, Debug, PartialEq)]
pub enum SR {
    Metric { kind: MK, field: Fd, count: u64, sum: i128, sumsq: i128, min: Option<i64>, max: Option<i64>, sorted: Vec<i64>, distinct: usize, sigma: f64 },
    Hits(Vec<i64>),
    /// `all`: every bucket that passes `min_doc_count`, in request order (count ties broken by
    /// ascending key); the result shows the first `size`
    /// `subkey`: when ordered by a metric sub-aggregation, the ordering value of every entry
    /// of `all` and the direction (ascending)
    Terms { field: Fd, all: Vec<(i64, u64, Vec<SR>)>, size: usize, order: TOrd, subkey: Option<(Vec<f64>, bool)> },
    /// `absent`: a range aggregation that no segment collector ever instantiated (under a
    /// gap-filled / zero-count parent bucket or on an index without segments): the real result
    /// then has no buckets at all instead of all ranges with count 0
    List(Vec<(i64, u64, Vec<SR>)>, bool),
    Filter(u64, Vec<SR>),
    /// composite: all buckets in composite-key order; the page shows the first `size`
    Comp { name: String, sources: Vec<CSrc>, all: Vec<(Vec<i64>, u64, Vec<SR>)>, size: usize },
}

#[derive(Clone, Copy, PartialEq, Debug)]
pub struct Sem {
    /// histogram / range buckets count one per *value* (and pass the document to the
    /// sub-aggregations once per value) instead of one per document
    pub per_value: bool,
    /// `_key` order of ip / date / f64 terms as the final stage does it: rendered strings
    /// compared as strings (ip, date), integral f64 keys before fractional ones
    pub rendered_key_order: bool,
}

/// sort key of a terms key under `rendered_key_order`
pub fn rendered_key(f: Fd, k: i64) -> (u8, i64, String) {
    match f {
        Fd::Ip => (0, 0, universe(Fd::Ip)[k as usize].clone()),
        Fd::D => (0, 0, fmt_date_ms(k)),
        Fd::Fl => if k % 4 == 0 { (0, k, String::new()) } else { (1, k, String::new()) },
        _ => (0, k, String::new()),
    }
}

pub fn floor_div(a: i64, b: i64) -> i64 { a.div_euclid(b) }

pub fn metric_vals(field: Fd, missing: Option<i64>, d: &MDoc) -> Vec<i64> {
    let vs = &d[field.id()];
    if vs.is_empty() { missing.into_iter().collect() } else { vs.clone() }
}

pub fn term_keys(field: Fd, missing: Option<i64>, d: &MDoc) -> Vec<i64> {
    let vs = &d[field.id()];
    if vs.is_empty() { return missing.into_iter().collect(); }
    let set: BTreeSet<i64> = vs.iter().cloned().collect();
    set.into_iter().collect()
}

fn group(docs: &[&MDoc], sem: Sem, keys_of: impl Fn(&MDoc) -> Vec<i64>) -> BTreeMap<i64, Vec<usize>> {
    let mut m: BTreeMap<i64, Vec<usize>> = BTreeMap::new();
    for (i, d) in docs.iter().enumerate() {
        let mut ks = keys_of(d);
        if !sem.per_value { ks.sort(); ks.dedup(); }
        for k in ks { m.entry(k).or_default().push(i); }
    }
    m
}

pub fn spec_eval(nodes: &[Node], docs: &[&MDoc], all_terms: &dyn Fn(Fd) -> Vec<i64>, sem: Sem, absent: bool) -> Vec<SR> {
    nodes.iter().map(|n| eval_one(n, docs, all_terms, sem, absent)).collect()
}

fn eval_one(n: &Node, docs: &[&MDoc], all_terms: &dyn Fn(Fd) -> Vec<i64>, sem: Sem, absent: bool) -> SR {
    let sub = |ids: &Vec<usize>| -> Vec<SR> {
        let ds: Vec<&MDoc> = ids.iter().map(|&i| docs[i]).collect();
        // a gap-filled histogram bucket / zero-count term was never seen by a segment collector;
        // range and filter buckets are instantiated by every segment even when empty
        let inst = matches!(n.agg, Agg::Range { .. } | Agg::Filter { .. });
        spec_eval(&n.subs, &ds, all_terms, sem, absent || (ids.is_empty() && !inst))
    };
    match &n.agg {
        Agg::Metric { kind: MK::TopHits, field, desc, k, .. } => {
            let mut vs: Vec<i64> = docs.iter().flat_map(|d| d[field.id()].clone()).collect();
            vs.sort();
            if *desc { vs.reverse(); }
            vs.truncate(*k);
            SR::Hits(vs)
        }
        Agg::Metric { kind, field, missing, .. } => {
            let vals: Vec<i64> = docs.iter().flat_map(|d| metric_vals(*field, *missing, d)).collect();
            let numeric = !field.is_str();
            let mut sorted = vals.clone();
            sorted.sort();
            let distinct = sorted.iter().collect::<BTreeSet<_>>().len();
            SR::Metric {
                kind: *kind, field: *field, count: vals.len() as u64,
                sum: if numeric { vals.iter().map(|&v| v as i128).sum() } else { 0 },
                sumsq: if numeric { vals.iter().map(|&v| (v as i128) * (v as i128)).sum() } else { 0 },
                min: if numeric { sorted.first().cloned() } else if vals.is_empty() { None } else { Some(0) },
                max: if numeric { sorted.last().cloned() } else if vals.is_empty() { None } else { Some(0) },
                sorted, distinct, sigma: n.opt.sigma4.map(|s| s as f64 / 4.0).unwrap_or(2.0),
            }
        }
        Agg::Terms { field, size, seg, mdc, order, missing } => {
            let (size, _seg, mdc, order) = terms_defaults(*size, *seg, *mdc, order);
            let pass = |k: i64| n.opt.include.as_ref().map(|i| i.matches(*field, k)).unwrap_or(true) && !n.opt.exclude.as_ref().map(|e| e.matches(*field, k)).unwrap_or(false);
            let g = group(docs, Sem { per_value: false, rendered_key_order: false }, |d| term_keys(*field, *missing, d).into_iter().filter(|k| pass(*k)).collect());
            let mut all: Vec<(i64, u64, Vec<SR>)> = g.iter().map(|(k, ids)| (*k, ids.len() as u64, sub(ids))).collect();
            if mdc == 0 && field.is_str() {
                // min_doc_count = 0 returns every term of the field (of the whole index)
                let present: BTreeSet<i64> = all.iter().map(|b| b.0).collect();
                for k in all_terms(*field) {
                    if !present.contains(&k) && pass(k) { all.push((k, 0, sub(&vec![]))); }
                }
            }
            all.retain(|b| b.1 >= mdc);
            match order {
                TOrd::CountDesc => all.sort_by(|a, b| b.1.cmp(&a.1).then(a.0.cmp(&b.0))),
                TOrd::CountAsc => all.sort_by(|a, b| a.1.cmp(&b.1).then(a.0.cmp(&b.0))),
                TOrd::KeyAsc if sem.rendered_key_order => all.sort_by(|a, b| rendered_key(*field, a.0).cmp(&rendered_key(*field, b.0))),
                TOrd::KeyDesc if sem.rendered_key_order => all.sort_by(|a, b| rendered_key(*field, b.0).cmp(&rendered_key(*field, a.0))),
                TOrd::KeyAsc => all.sort_by(|a, b| a.0.cmp(&b.0)),
                TOrd::KeyDesc => all.sort_by(|a, b| b.0.cmp(&a.0)),
            }
            let mut subkey = None;
            if let Some((name, prop, asc)) = &n.opt.sub_order {
                // the code sorts by the metric's f64 value (None = f64::MIN); ties: ascending key here
                let idx = n.subs.iter().position(|c| &c.name == name).expect("order target");
                let mut keyed: Vec<(f64, (i64, u64, Vec<SR>))> = all.into_iter().map(|b| (metric_value(&b.2[idx], prop).unwrap_or(f64::MIN), b)).collect();
                keyed.sort_by(|a, b| (if *asc { a.0.total_cmp(&b.0) } else { b.0.total_cmp(&a.0) }).then(a.1 .0.cmp(&b.1 .0)));
                subkey = Some((keyed.iter().map(|x| x.0).collect(), *asc));
                all = keyed.into_iter().map(|x| x.1).collect();
            }
            SR::Terms { field: *field, all, size, order, subkey }
        }
        Agg::Hist { field, interval, offset, mdc, hard, ext, .. } => {
            let off = offset.unwrap_or(0);
            let pos = |v: i64| floor_div(v - off, *interval);
            let g = group(docs, sem, |d| d[field.id()].iter().filter(|&&v| hard.map(|(a, b)| a <= v && v <= b).unwrap_or(true)).map(|&v| pos(v)).collect());
            let mdc = mdc.unwrap_or(0);
            if mdc > 0 {
                return SR::List(g.iter().filter(|(_, ids)| ids.len() as u64 >= mdc).map(|(k, ids)| (*k, ids.len() as u64, sub(ids))).collect(), false);
            }
            let mut lo = g.keys().next().cloned();
            let mut hi = g.keys().next_back().cloned();
            if let Some((a, b)) = ext {
                lo = Some(lo.map(|x| x.min(pos(*a))).unwrap_or(pos(*a)));
                hi = Some(hi.map(|x| x.max(pos(*b))).unwrap_or(pos(*b)));
            }
            let mut out = vec![];
            if let (Some(mut lo), Some(mut hi)) = (lo, hi) {
                if let Some((a, b)) = hard { lo = lo.max(pos(*a)); hi = hi.min(pos(*b)); }
                let mut p = lo;
                while p <= hi {
                    match g.get(&p) { Some(ids) => out.push((p, ids.len() as u64, sub(ids))), None => out.push((p, 0, sub(&vec![]))) }
                    p += 1;
                }
            }
            SR::List(out, false)
        }
        Agg::Range { field, ranges } => {
            let cuts = range_cuts(*field, ranges);
            let idx = |v: i64| cuts.iter().filter(|&&c| c <= v).count() as i64;
            let g = group(docs, sem, |d| d[field.id()].iter().map(|&v| idx(v)).collect());
            SR::List((0..=cuts.len() as i64).map(|k| match g.get(&k) { Some(ids) => (k, ids.len() as u64, sub(ids)), None => (k, 0, sub(&vec![])) }).collect(), absent)
        }
        Agg::Composite { sources, size, after } => {
            let mut m: BTreeMap<Vec<i64>, Vec<usize>> = BTreeMap::new();
            for (i, d) in docs.iter().enumerate() {
                let per: Vec<Vec<i64>> = sources.iter().map(|s| csrc_vals(s, d, sem.per_value)).collect();
                if per.iter().any(|v| v.is_empty()) { continue; }
                let mut combos: Vec<Vec<i64>> = vec![vec![]];
                for vs in &per {
                    combos = combos.into_iter().flat_map(|c| vs.iter().map(move |v| { let mut c2 = c.clone(); c2.push(*v); c2 })).collect();
                }
                for c in combos { m.entry(c).or_default().push(i); }
            }
            let mut all: Vec<(Vec<i64>, u64, Vec<SR>)> = m.iter().map(|(k, ids)| (k.clone(), ids.len() as u64, sub(ids))).collect();
            all.sort_by(|a, b| {
                for (i, s) in sources.iter().enumerate() {
                    let c = if s.desc { b.0[i].cmp(&a.0[i]) } else { a.0[i].cmp(&b.0[i]) };
                    if c != std::cmp::Ordering::Equal { return c; }
                }
                std::cmp::Ordering::Equal
            });
            if let Some(a) = after {
                // strictly after the given key in composite-key order
                all.retain(|b| {
                    for (i, s) in sources.iter().enumerate() {
                        let c = if s.desc { a[i].cmp(&b.0[i]) } else { b.0[i].cmp(&a[i]) };
                        if c != std::cmp::Ordering::Equal { return c == std::cmp::Ordering::Greater; }
                    }
                    false
                });
            }
            SR::Comp { name: n.name.clone(), sources: sources.clone(), all, size: *size as usize }
        }
        Agg::Filter { field, code } => {
            let ids: Vec<usize> = (0..docs.len()).filter(|&i| docs[i][field.id()].contains(code)).collect();
            SR::Filter(ids.len() as u64, sub(&ids))
        }
    }
}

/// value of a metric result as the code's `get_value` computes it
pub fn metric_value(s: &SR, prop: &str) -> Option<f64> {
    match s {
        SR::Metric { kind, field, count, sum, min, max, .. } => {
            let fac = field.metric_factor();
            let sumf = *sum as f64 * fac;
            let avg = if *count > 0 { Some(sumf / *count as f64) } else { None };
            match (kind, prop) {
                (MK::Count, _) | (MK::Stats, "count") => Some(*count as f64),
                // the final stage orders by the FINAL values, where an empty sum is 0 (not null)
                (MK::Sum, _) => Some(sumf),
                (MK::Stats, "sum") => Some(sumf),
                (MK::Min, _) | (MK::Stats, "min") => min.map(|v| v as f64 * fac),
                (MK::Max, _) | (MK::Stats, "max") => max.map(|v| v as f64 * fac),
                (MK::Avg, _) | (MK::Stats, "avg") => avg,
                _ => None,
            }
        }
        _ => None,
    }
}

/// the text the Lean driver prints for the same result (`showRes`)
pub fn srs_to_lean(srs: &[SR], ranks: &Ranks) -> String {
    fn buckets(bs: &[(i64, u64, Vec<SR>)], ranks: &Ranks, tf: Option<Fd>) -> String {
        bs.iter().map(|(k, c, s)| format!("{}:{c}:{}", tf.map(|f| ranks.rank(f, *k)).unwrap_or(*k), srs_to_lean(s, ranks))).collect::<Vec<_>>().join(";")
    }
    fn one(s: &SR, ranks: &Ranks) -> String {
        match s {
            SR::Hits(vs) => format!("H[{}]", vs.iter().map(|v| format!("{v}:{v}")).collect::<Vec<_>>().join(";")),
            SR::Metric { kind: MK::Percentiles | MK::Cardinality | MK::TopHits, .. } => "N".into(),
            SR::Metric { field, .. } if field.is_str() => "N".into(),
            SR::Metric { count, sum, sumsq, min, max, .. } => format!("M[{count},{sum},{sumsq},{},{}]", opt_s(*min), opt_s(*max)),
            SR::Terms { field, all, size, .. } => {
                let shown = &all[..(*size).min(all.len())];
                let other: u64 = all[(*size).min(all.len())..].iter().map(|b| b.1).sum();
                format!("T[{other},0;{}]", buckets(shown, ranks, Some(*field)))
            }
            SR::List(bs, _) => format!("L[{}]", buckets(bs, ranks, None)),
            SR::Filter(c, s) => format!("F[{c}:{}]", srs_to_lean(s, ranks)),
            SR::Comp { name, sources, all, size } => format!("L[{}]", all[..(*size).min(all.len())].iter()
                .map(|(k, c, s)| format!("{}:{c}:{}", ranks.comp_code(name, sources, k), srs_to_lean(s, ranks))).collect::<Vec<_>>().join(";")),
        }
    }
    match srs.len() {
        0 => "N".into(),
        1 => one(&srs[0], ranks),
        _ => format!("({})({})", one(&srs[0], ranks), srs_to_lean(&srs[1..], ranks)),
    }
}
fn opt_s(v: Option<i64>) -> String { v.map(|x| x.to_string()).unwrap_or("_".into()) }

/// number of buckets when uninstantiated ranges are shown with all their buckets
pub fn bucket_count_all(srs: &[SR]) -> u64 {
    srs.iter().map(|s| match s {
        SR::Terms { all, size, .. } => all[..(*size).min(all.len())].iter().map(|b| 1 + bucket_count_all(&b.2)).sum(),
        SR::List(bs, _) => bs.iter().map(|b| 1 + bucket_count_all(&b.2)).sum(),
        SR::Filter(_, s) => bucket_count_all(s),
        SR::Comp { all, size, .. } => all[..(*size).min(all.len())].iter().map(|b| 1 + bucket_count_all(&b.2)).sum(),
        _ => 0,
    }).sum()
}

/// number of buckets of the final result (AggregationResults::get_bucket_count)
pub fn bucket_count(srs: &[SR]) -> u64 {
    srs.iter().map(|s| match s {
        SR::Terms { all, size, .. } => all[..(*size).min(all.len())].iter().map(|b| 1 + bucket_count(&b.2)).sum(),
        SR::List(_, true) => 0,
        SR::List(bs, false) => bs.iter().map(|b| 1 + bucket_count(&b.2)).sum(),
        SR::Filter(_, s) => bucket_count(s),
        SR::Comp { all, size, .. } => all[..(*size).min(all.len())].iter().map(|b| 1 + bucket_count(&b.2)).sum(),
        _ => 0,
    }).sum()
}
