//! C14 — aggregations equal a direct computation and do not depend on partitioning.
//!
//! Real code: `Searcher::search(query, AggregationCollector)` / `DistributedAggregationCollector`
//! + `merge_fruits` + postcard round trips + `into_final_result`, on generated corpora indexed
//! under several segmentations and as separate indexes.
//! Oracles: (a) a direct evaluator in this file (`spec_eval`, exact integer arithmetic on the
//! model-coded documents) — also compared verbatim with the Lean `evalAgg`; (b) partition
//! independence of the final result; (c) limits yield `Err`, never a shortened result.
//! Parts: c14.rs (types, generators, run), c14_spec.rs (direct evaluator), c14_real.rs
//! (canonicalisation of real results and comparison).
use crate::rng::Rng;
use crate::Ctx;
use serde::{Deserialize, Serialize};
use serde_json::{json, Value};
use std::net::Ipv6Addr;

#[path = "c14_spec.rs"]
mod spec;
#[path = "c14_real.rs"]
mod real;
#[path = "c14_run.rs"]
mod runner;

pub const NF: usize = 12;

#[derive(Clone, Copy, PartialEq, Eq, Debug, PartialOrd, Ord, Serialize, Deserialize)]
pub enum Fd { U, I, Fl, D, B, Ip, Kw, Cat, JsN, JsS, Uid, Sel }

pub const ALL_FD: [Fd; NF] = [Fd::U, Fd::I, Fd::Fl, Fd::D, Fd::B, Fd::Ip, Fd::Kw, Fd::Cat, Fd::JsN, Fd::JsS, Fd::Uid, Fd::Sel];

impl Fd {
    pub fn id(self) -> usize { self as usize }
    pub fn name(self) -> &'static str {
        ["u", "i", "f", "d", "b", "ip", "kw", "cat", "js.n", "js.s", "uid", "sel"][self.id()]
    }
    /// model integer = real value * scale (f64 values are multiples of 1/4; dates are in ms)
    pub fn scale(self) -> i64 { if self == Fd::Fl { 4 } else { 1 } }
    /// real metric value (as the collectors see it, f64) of a model code
    pub fn metric_factor(self) -> f64 {
        match self { Fd::Fl => 0.25, Fd::D => 1_000_000.0, _ => 1.0 }
    }
    pub fn is_str(self) -> bool { matches!(self, Fd::Kw | Fd::Cat | Fd::JsS) }
    pub fn is_numeric(self) -> bool { matches!(self, Fd::U | Fd::I | Fd::Fl | Fd::JsN | Fd::Uid | Fd::Sel) }
}

/// a document: for every field the list of its values as model codes
pub type MDoc = Vec<Vec<i64>>;

pub fn kw_universe() -> Vec<String> {
    let mut v: Vec<String> = vec!["A1", "a", "b", "c", "é", "日本", "zzz_missing"].into_iter().map(String::from).collect();
    for i in 0..200 { v.push(format!("k{i:03}")); }
    v.sort();
    v
}
pub fn cat_universe() -> Vec<String> {
    let mut v: Vec<String> = ["alpha", "beta", "delta", "eps", "gamma", "zzz_missing"].iter().map(|s| s.to_string()).collect();
    v.sort();
    v
}
pub fn ip_universe() -> Vec<Ipv6Addr> {
    let mut v: Vec<Ipv6Addr> = ["10.0.0.1", "9.0.0.1", "192.168.1.1", "127.0.0.1", "255.255.255.255", "0.0.0.1"]
        .iter().map(|s| s.parse::<std::net::Ipv4Addr>().unwrap().to_ipv6_mapped()).collect();
    for s in ["::1", "2001:db8::1", "2001:db8::2", "fe80::1", "ffff::"] { v.push(s.parse().unwrap()); }
    v.sort_by_key(|a| u128::from(*a));
    v
}
pub fn universe(f: Fd) -> Vec<String> {
    match f {
        Fd::Kw => kw_universe(),
        Fd::Cat | Fd::JsS => cat_universe(),
        Fd::Ip => ip_universe().iter().map(|ip| match ip.to_ipv4_mapped() { Some(v4) => v4.to_string(), None => ip.to_string() }).collect(),
        _ => vec![],
    }
}
/// code of the reserved string used as the `missing` key of string terms aggregations
pub fn missing_code(f: Fd) -> i64 {
    universe(f).iter().position(|s| s == "zzz_missing").unwrap() as i64
}

pub fn fmt_date_ms(ms: i64) -> String {
    match time::OffsetDateTime::from_unix_timestamp_nanos(ms as i128 * 1_000_000) {
        Ok(dt) => dt.format(&time::format_description::well_known::Rfc3339).unwrap_or_else(|_| format!("unformattable date {ms} ms")),
        Err(_) => format!("date {ms} ms out of range"),
    }
}
pub fn parse_date_ms(s: &str) -> Option<i64> {
    let dt = time::OffsetDateTime::parse(s, &time::format_description::well_known::Rfc3339).ok()?;
    let ns = dt.unix_timestamp_nanos();
    if ns % 1_000_000 != 0 { return None; }
    Some((ns / 1_000_000) as i64)
}

pub fn doc_to_json(d: &MDoc) -> Value {
    let mut m = serde_json::Map::new();
    let mut js = serde_json::Map::new();
    let kw = kw_universe();
    let cat = cat_universe();
    let ips = ip_universe();
    for f in ALL_FD {
        let vs = &d[f.id()];
        if vs.is_empty() { continue; }
        let arr: Vec<Value> = vs.iter().map(|&c| match f {
            Fd::U | Fd::Uid | Fd::Sel => json!(c as u64),
            Fd::I | Fd::JsN => json!(c),
            Fd::Fl => json!(c as f64 / 4.0),
            Fd::D => json!(fmt_date_ms(c)),
            Fd::B => json!(c != 0),
            Fd::Ip => json!(ips[c as usize].to_string()),
            Fd::Kw => json!(kw[c as usize]),
            Fd::Cat | Fd::JsS => json!(cat[c as usize]),
        }).collect();
        match f {
            Fd::JsN => { js.insert("n".into(), Value::Array(arr)); }
            Fd::JsS => { js.insert("s".into(), Value::Array(arr)); }
            _ => { m.insert(f.name().into(), Value::Array(arr)); }
        }
    }
    if !js.is_empty() { m.insert("js".into(), Value::Object(js)); }
    Value::Object(m)
}

/// Order-preserving dense ranks of the values of every field (terms keys are sent to the Lean
/// model as ranks under field id `f + NF`, so that its key enumeration stays small).
pub struct Ranks(pub Vec<Vec<i64>>, pub Vec<(String, usize, CSrc, Vec<i64>)>);
impl Ranks {
    /// synthetic model field holding the ranks of source `j` of the composite node `name`
    pub fn comp_idx(&self, name: &str, j: usize) -> usize { self.1.iter().position(|c| c.0 == name && c.1 == j).expect("composite source") }
    pub fn comp_field(&self, name: &str, j: usize) -> usize { 2 * NF + self.comp_idx(name, j) }
    pub fn comp_base(&self, name: &str, j: usize) -> i64 { (self.1[self.comp_idx(name, j)].3.len() as i64).max(1) }
    /// mixed-radix code of a composite key (the Lean model's `compKeys`)
    pub fn comp_code(&self, name: &str, sources: &[CSrc], key: &[i64]) -> i64 {
        let mut code = 0i64;
        for (j, s) in sources.iter().enumerate() {
            let base = self.comp_base(name, j);
            let rank = self.1[self.comp_idx(name, j)].3.binary_search(&key[j]).map(|p| p as i64).unwrap_or(0);
            code = code * base + if s.desc { base - 1 - rank } else { rank };
        }
        code
    }
    pub fn new(docs: &[MDoc], nodes: &[Node]) -> Ranks {
        let mut comp = vec![];
        fn walk_comp(nodes: &[Node], docs: &[MDoc], out: &mut Vec<(String, usize, CSrc, Vec<i64>)>) {
            for n in nodes {
                if let Agg::Composite { sources, after, .. } = &n.agg {
                    for (j, s) in sources.iter().enumerate() {
                        let mut set: std::collections::BTreeSet<i64> = docs.iter().flat_map(|d| csrc_vals(s, d, false)).collect();
                        if let Some(a) = after { set.insert(a[j]); }
                        out.push((n.name.clone(), j, s.clone(), set.into_iter().collect()));
                    }
                }
                walk_comp(&n.subs, docs, out);
            }
        }
        walk_comp(nodes, docs, &mut comp);
        let mut sets: Vec<std::collections::BTreeSet<i64>> = vec![Default::default(); NF];
        for d in docs { for f in 0..NF { sets[f].extend(d[f].iter().cloned()); } }
        fn walk(nodes: &[Node], sets: &mut Vec<std::collections::BTreeSet<i64>>) {
            for n in nodes {
                if let Agg::Terms { field, missing: Some(m), .. } = &n.agg { sets[field.id()].insert(*m); }
                walk(&n.subs, sets);
            }
        }
        walk(nodes, &mut sets);
        Ranks(sets.into_iter().map(|s| s.into_iter().collect()).collect(), comp)
    }
    pub fn rank(&self, f: Fd, c: i64) -> i64 { self.0[f.id()].binary_search(&c).map(|p| p as i64).unwrap_or(-1) }
}

/// Lean wire format of a list of parts
pub fn parts_to_lean(docs: &[MDoc], parts: &[Vec<usize>], ranks: &Ranks) -> String {
    let enc_doc = |d: &MDoc| -> String {
        let mut items: Vec<String> = (0..NF).filter(|&f| !d[f].is_empty())
            .map(|f| format!("{}={}", f, d[f].iter().map(|v| v.to_string()).collect::<Vec<_>>().join(","))).collect();
        for f in ALL_FD {
            if !d[f.id()].is_empty() {
                items.push(format!("{}={}", f.id() + NF, d[f.id()].iter().map(|v| ranks.rank(f, *v).to_string()).collect::<Vec<_>>().join(",")));
            }
        }
        for (i, c) in ranks.1.iter().enumerate() {
            let vs = csrc_vals(&c.2, d, true);
            if !vs.is_empty() {
                items.push(format!("{}={}", 2 * NF + i, vs.iter().map(|v| c.3.binary_search(v).map(|p| p as i64).unwrap_or(0).to_string()).collect::<Vec<_>>().join(",")));
            }
        }
        if items.is_empty() { "e".into() } else { items.join("/") }
    };
    parts.iter().map(|p| if p.is_empty() { "-".to_string() } else { p.iter().map(|&i| enc_doc(&docs[i])).collect::<Vec<_>>().join(";") })
        .collect::<Vec<_>>().join("|")
}

// ------------------------------------------------------------------------------------------
// requests
// ------------------------------------------------------------------------------------------

#[derive(Clone, Copy, PartialEq, Eq, Debug, Serialize, Deserialize)]
pub enum MK { Count, Sum, Min, Max, Avg, Stats, ExtStats, Percentiles, Cardinality, TopHits }

#[derive(Clone, PartialEq, Debug, Serialize, Deserialize)]
pub enum TOrd { CountDesc, CountAsc, KeyAsc, KeyDesc }

#[derive(Clone, PartialEq, Debug, Serialize, Deserialize)]
pub enum Agg {
    /// `missing` in model units of the field; `desc`/`k` only for top_hits
    Metric { kind: MK, field: Fd, missing: Option<i64>, desc: bool, k: usize },
    Terms { field: Fd, size: Option<u32>, seg: Option<u32>, mdc: Option<u64>, order: Option<TOrd>, missing: Option<i64> },
    /// interval / offset / bounds in model units of the field (ms for dates)
    Hist { field: Fd, interval: i64, offset: Option<i64>, mdc: Option<u64>, hard: Option<(i64, i64)>, ext: Option<(i64, i64)>, date_hist: bool },
    Range { field: Fd, ranges: Vec<(Option<i64>, Option<i64>, Option<String>)> },
    Filter { field: Fd, code: i64 },
    /// composite: every source is a terms source (`interval = None`) or a histogram source
    /// `after`: the previous page's last key (source keys in model units), exclusive
    Composite { sources: Vec<CSrc>, size: u32, #[serde(default)] after: Option<Vec<i64>> },
}

#[derive(Clone, PartialEq, Debug, Serialize, Deserialize)]
pub struct CSrc { pub name: String, pub field: Fd, pub interval: Option<i64>, pub desc: bool }

/// composite key values of a document for one source (model codes; histogram: bucket start)
pub fn csrc_vals(src: &CSrc, d: &MDoc, per_value: bool) -> Vec<i64> {
    let mut v: Vec<i64> = d[src.field.id()].iter().map(|&x| match src.interval { Some(i) => x.div_euclid(i) * i, None => x }).collect();
    v.sort();
    if !per_value { v.dedup(); }
    v
}

/// include / exclude of a terms aggregation on a string field
#[derive(Clone, PartialEq, Debug, Serialize, Deserialize)]
pub enum IncExc {
    /// array of exact values (codes of the field's universe)
    Values(Vec<i64>),
    /// regex `<prefix>.*`
    Prefix(String),
    /// regex `.*<suffix>`
    Suffix(String),
}
impl IncExc {
    pub fn matches(&self, f: Fd, code: i64) -> bool {
        let s = &universe(f)[code as usize];
        match self { IncExc::Values(v) => v.contains(&code), IncExc::Prefix(p) => s.starts_with(p.as_str()), IncExc::Suffix(x) => s.ends_with(x.as_str()) }
    }
    fn to_json(&self, f: Fd) -> Value {
        match self {
            IncExc::Values(v) => json!(v.iter().map(|c| universe(f)[*c as usize].clone()).collect::<Vec<_>>()),
            IncExc::Prefix(p) => json!(format!("{p}.*")),
            IncExc::Suffix(x) => json!(format!(".*{x}")),
        }
    }
}

/// options that do not change the shape of the request tree
#[derive(Clone, PartialEq, Debug, Serialize, Deserialize, Default)]
pub struct Opt {
    /// histogram / range / percentiles: `keyed` output
    #[serde(default)] pub keyed: bool,
    #[serde(default)] pub include: Option<IncExc>,
    #[serde(default)] pub exclude: Option<IncExc>,
    /// terms: order by a metric sub-aggregation (name, property, ascending); overrides `order`
    #[serde(default)] pub sub_order: Option<(String, String, bool)>,
    /// extended_stats: `sigma` in quarters (std_deviation_bounds = mean ± sigma * std_deviation;
    /// the default is 2)
    #[serde(default)] pub sigma4: Option<i64>,
}

#[derive(Clone, PartialEq, Debug, Serialize, Deserialize)]
pub struct Node { pub name: String, pub agg: Agg, pub subs: Vec<Node>, #[serde(default)] pub opt: Opt }

/// code of the value that marks a deleted document in field `sel` (the index deletes `sel:99`)
pub const DELETED: i64 = 99;
pub fn is_deleted(d: &MDoc) -> bool { d[Fd::Sel.id()].contains(&DELETED) }

fn real_num(f: Fd, c: i64) -> Value {
    if f.scale() == 1 { json!(c) } else { json!(c as f64 / f.scale() as f64) }
}

fn ms_interval(ms: i64) -> String {
    if ms % 86_400_000 == 0 { format!("{}d", ms / 86_400_000) }
    else if ms % 3_600_000 == 0 { format!("{}h", ms / 3_600_000) }
    else if ms % 60_000 == 0 { format!("{}m", ms / 60_000) }
    else if ms % 1000 == 0 { format!("{}s", ms / 1000) }
    else { format!("{}ms", ms) }
}

pub fn nodes_to_json(nodes: &[Node]) -> Value {
    let mut m = serde_json::Map::new();
    for n in nodes {
        let mut o = serde_json::Map::new();
        match &n.agg {
            Agg::Metric { kind, field, missing, desc, k } => {
                let mut p = serde_json::Map::new();
                let name = match kind {
                    MK::Count => "value_count", MK::Sum => "sum", MK::Min => "min", MK::Max => "max", MK::Avg => "avg",
                    MK::Stats => "stats", MK::ExtStats => "extended_stats", MK::Percentiles => "percentiles",
                    MK::Cardinality => "cardinality", MK::TopHits => "top_hits",
                };
                if *kind == MK::TopHits {
                    p.insert("sort".into(), json!([{ field.name(): if *desc { "desc" } else { "asc" } }]));
                    p.insert("size".into(), json!(k));
                    p.insert("docvalue_fields".into(), json!([field.name()]));
                } else {
                    p.insert("field".into(), json!(field.name()));
                    if let Some(mv) = missing { p.insert("missing".into(), real_num(*field, *mv)); }
                    if *kind == MK::Percentiles && !n.opt.keyed { p.insert("keyed".into(), json!(false)); }
                    if *kind == MK::ExtStats { if let Some(s4) = n.opt.sigma4 { p.insert("sigma".into(), json!(s4 as f64 / 4.0)); } }
                }
                o.insert(name.into(), Value::Object(p));
            }
            Agg::Terms { field, size, seg, mdc, order, missing } => {
                let mut p = serde_json::Map::new();
                p.insert("field".into(), json!(field.name()));
                if let Some(s) = size { p.insert("size".into(), json!(s)); }
                if let Some(s) = seg { p.insert("segment_size".into(), json!(s)); }
                if let Some(s) = mdc { p.insert("min_doc_count".into(), json!(s)); }
                if let Some(o) = order {
                    p.insert("order".into(), match o {
                        TOrd::CountDesc => json!({"_count": "desc"}), TOrd::CountAsc => json!({"_count": "asc"}),
                        TOrd::KeyAsc => json!({"_key": "asc"}), TOrd::KeyDesc => json!({"_key": "desc"}),
                    });
                }
                if let Some(mc) = missing {
                    p.insert("missing".into(), if field.is_str() { json!(universe(*field)[*mc as usize]) } else { real_num(*field, *mc) });
                }
                if let Some((name, prop, asc)) = &n.opt.sub_order {
                    let target = if prop.is_empty() { name.clone() } else { format!("{name}.{prop}") };
                    p.insert("order".into(), json!({ target: if *asc { "asc" } else { "desc" } }));
                }
                if let Some(i) = &n.opt.include { p.insert("include".into(), i.to_json(*field)); }
                if let Some(e) = &n.opt.exclude { p.insert("exclude".into(), e.to_json(*field)); }
                p.insert("show_term_doc_count_error".into(), json!(true));
                o.insert("terms".into(), Value::Object(p));
            }
            Agg::Hist { field, interval, offset, mdc, hard, ext, date_hist } => {
                let mut p = serde_json::Map::new();
                p.insert("field".into(), json!(field.name()));
                if *date_hist {
                    p.insert("fixed_interval".into(), json!(ms_interval(*interval)));
                    if let Some(off) = offset {
                        p.insert("offset".into(), json!(format!("{}{}", if *off < 0 { "-" } else { "+" }, ms_interval(off.abs()))));
                    }
                } else {
                    p.insert("interval".into(), real_num(*field, *interval));
                    if let Some(off) = offset { p.insert("offset".into(), real_num(*field, *off)); }
                }
                if let Some(s) = mdc { p.insert("min_doc_count".into(), json!(s)); }
                if let Some((a, b)) = hard { p.insert("hard_bounds".into(), json!({"min": real_num(*field, *a), "max": real_num(*field, *b)})); }
                if let Some((a, b)) = ext { p.insert("extended_bounds".into(), json!({"min": real_num(*field, *a), "max": real_num(*field, *b)})); }
                if n.opt.keyed { p.insert("keyed".into(), json!(true)); }
                o.insert(if *date_hist { "date_histogram" } else { "histogram" }.into(), Value::Object(p));
            }
            Agg::Range { field, ranges } => {
                let rs: Vec<Value> = ranges.iter().map(|(a, b, k)| {
                    let mut r = serde_json::Map::new();
                    if let Some(a) = a { r.insert("from".into(), real_num(*field, *a)); }
                    if let Some(b) = b { r.insert("to".into(), real_num(*field, *b)); }
                    if let Some(k) = k { r.insert("key".into(), json!(k)); }
                    Value::Object(r)
                }).collect();
                o.insert("range".into(), if n.opt.keyed { json!({"field": field.name(), "ranges": rs, "keyed": true}) } else { json!({"field": field.name(), "ranges": rs}) });
            }
            Agg::Composite { sources, size, after } => {
                let srcs: Vec<Value> = sources.iter().map(|c| {
                    let ord = if c.desc { "desc" } else { "asc" };
                    let inner = match c.interval {
                        Some(i) => json!({"histogram": {"field": c.field.name(), "interval": real_num(c.field, i), "order": ord}}),
                        None => json!({"terms": {"field": c.field.name(), "order": ord}}),
                    };
                    json!({ c.name.clone(): inner })
                }).collect();
                let mut body = json!({"sources": srcs, "size": size});
                if let Some(a) = after {
                    // after-key values are "<type>:<value>" strings
                    let mut m = serde_json::Map::new();
                    for (c, v) in sources.iter().zip(a) {
                        let txt = if c.field.is_str() { format!("str:{}", universe(c.field)[*v as usize]) }
                            else if c.interval.is_some() { format!("f64:{}", *v as f64 / c.field.scale() as f64) }
                            else if c.field == Fd::U { format!("u64:{v}") } else { format!("i64:{v}") };
                        m.insert(c.name.clone(), json!(txt));
                    }
                    body["after"] = Value::Object(m);
                }
                o.insert("composite".into(), body);
            }
            Agg::Filter { field, code } => {
                let q = if field.is_str() { format!("{}:{}", field.name(), universe(*field)[*code as usize]) } else { format!("{}:{}", field.name(), code) };
                o.insert("filter".into(), json!(q));
            }
        }
        if !n.subs.is_empty() { o.insert("aggs".into(), nodes_to_json(&n.subs)); }
        m.insert(n.name.clone(), Value::Object(o));
    }
    Value::Object(m)
}

fn opt(v: Option<i64>) -> String { v.map(|x| x.to_string()).unwrap_or("_".into()) }

/// sorted distinct cut points of a range request (model units), as the code normalises them;
/// for unsigned fields a bound `<= 0` is the open end
pub fn range_cuts(field: Fd, ranges: &[(Option<i64>, Option<i64>, Option<String>)]) -> Vec<i64> {
    let mut cuts: Vec<i64> = vec![];
    for (a, b, _) in ranges {
        if let Some(a) = a { if !(field == Fd::U && *a <= 0) { cuts.push(*a); } }
        if let Some(b) = b { cuts.push(*b); }
    }
    cuts.sort();
    cuts.dedup();
    cuts
}

pub fn terms_defaults(size: Option<u32>, seg: Option<u32>, mdc: Option<u64>, order: &Option<TOrd>) -> (usize, usize, u64, TOrd) {
    let size = size.unwrap_or(10);
    let seg = seg.unwrap_or(size * 10).max(size);
    (size as usize, seg as usize, mdc.unwrap_or(1), order.clone().unwrap_or(TOrd::CountDesc))
}

/// Lean wire format of a request (unmodelled metric kinds become `N`)
pub fn nodes_to_lean(nodes: &[Node], counts_only: bool, ranks: &Ranks) -> String {
    fn one(n: &Node, counts_only: bool, ranks: &Ranks) -> String {
        let sub = nodes_to_lean(&n.subs, counts_only, ranks);
        match &n.agg {
            Agg::Metric { kind, field, missing, desc, k } => match kind {
                MK::TopHits => format!("TH,{},{},{},{}", field.id(), field.id(), k, if *desc { "d" } else { "a" }),
                MK::Percentiles | MK::Cardinality => "N".into(),
                _ if counts_only || field.is_str() => "N".into(),
                _ => format!("M,{},{}", field.id(), opt(*missing)),
            },
            Agg::Terms { field, size, seg, mdc, order, missing } => {
                let (size, seg, mdc, order) = terms_defaults(*size, *seg, *mdc, order);
                let o = match order { TOrd::CountDesc => "cd", TOrd::CountAsc => "ca", TOrd::KeyAsc => "ka", TOrd::KeyDesc => "kd" };
                format!("T,{},{},{},{},{},{},{}", field.id() + NF, opt(missing.map(|m| ranks.rank(*field, m))), size, seg, mdc, o, sub)
            }
            Agg::Hist { field, interval, offset, mdc, hard, ext, .. } => format!(
                "H,{},{},{},{},{},{},{},{},{}", field.id(), interval, offset.unwrap_or(0), mdc.unwrap_or(0),
                opt(hard.map(|h| h.0)), opt(hard.map(|h| h.1)), opt(ext.map(|h| h.0)), opt(ext.map(|h| h.1)), sub),
            Agg::Range { field, ranges } => {
                let cuts = range_cuts(*field, ranges);
                let mut s = format!("R,{},{}", field.id(), cuts.len());
                for c in &cuts { s.push_str(&format!(",{c}")); }
                format!("{s},{sub}")
            }
            Agg::Filter { field, code } => format!("F,{},{},{}", field.id(), code, sub),
            Agg::Composite { sources, size, after } => {
                let mut t = format!("C,{}", sources.len());
                for (j, c) in sources.iter().enumerate() { t.push_str(&format!(",{},{},{}", ranks.comp_field(&n.name, j), ranks.comp_base(&n.name, j), if c.desc { "d" } else { "a" })); }
                format!("{t},{size},{},{sub}", after.as_ref().map(|a| ranks.comp_code(&n.name, sources, a).to_string()).unwrap_or("_".into()))
            }
        }
    }
    match nodes.len() {
        0 => "N".into(),
        1 => one(&nodes[0], counts_only, ranks),
        _ => format!("B,{},{}", one(&nodes[0], counts_only, ranks), nodes_to_lean(&nodes[1..], counts_only, ranks)),
    }
}

// ------------------------------------------------------------------------------------------
// generators
// ------------------------------------------------------------------------------------------

pub struct Profile { pub n: usize, pub kw_card: usize, pub multi: u64, pub missing: u64, pub deleted: usize, pub near_unique: bool }

pub fn gen_corpus(rng: &mut Rng) -> (Vec<MDoc>, Profile) {
    let n = match rng.below(10) { 0 => 0, 1 => 1, 2 => 2, 3 | 4 => 5 + rng.usize_below(10), 5 | 6 | 7 => 20 + rng.usize_below(40), 8 => 128 + rng.usize_below(3), _ => 250 + rng.usize_below(100) };
    let kw_card = *rng.pick(&[3usize, 5, 12, 40, 200]);
    let multi = *rng.pick(&[0u64, 1, 3, 6]);      // of 10: probability of a multi-valued field
    let missing = *rng.pick(&[0u64, 1, 3, 7]);    // of 10: probability that a field is absent
    let base_ms: i64 = 1_600_000_000_000;
    let nip = ip_universe().len() as u64;
    // near-unique terms: almost every document has its own u / kw / js.n value, a few values occur
    // twice or three times (fewer than 2 documents per distinct term on average)
    let near_unique = n >= 5 && rng.chance(1, 4);
    let (multi, missing) = if near_unique { (0, *rng.pick(&[0u64, 1])) } else { (multi, missing) };
    let mut docs = vec![];
    for idx in 0..n {
        let mut d: MDoc = vec![vec![]; NF];
        for f in ALL_FD {
            if f == Fd::Uid { d[f.id()] = vec![idx as i64]; continue; }
            if f == Fd::Sel { d[f.id()] = vec![rng.below(3) as i64]; continue; }
            if rng.chance(missing, 10) { continue; }
            let k = if rng.chance(multi, 10) { 2 + rng.usize_below(3) } else { 1 };
            for _ in 0..k {
                let dupl = |rng: &mut Rng, idx: usize| -> i64 { if idx > 0 && rng.chance(1, 5) { rng.usize_below(idx) as i64 } else { idx as i64 } };
                let v: i64 = match f {
                    Fd::U if near_unique => dupl(&mut rng_clone(rng), idx),
                    Fd::JsN if near_unique => dupl(&mut rng_clone(rng), idx) - 20,
                    Fd::Kw if near_unique => kw_code(dupl(&mut rng_clone(rng), idx) as usize % 204),
                    Fd::U => match rng.below(4) { 0 => rng.below(5) as i64 * 10, 1 => rng.below(41) as i64, 2 => 9 + rng.below(3) as i64, _ => rng.below(200) as i64 },
                    Fd::I => match rng.below(3) { 0 => (rng.below(9) as i64 - 4) * 10, 1 => rng.below(61) as i64 - 30, _ => -(rng.below(3) as i64) - 9 },
                    Fd::Fl => rng.below(81) as i64 - 40,                       // quarters: -10.0 ..= 10.0
                    Fd::D => base_ms + match rng.below(3) { 0 => rng.below(6) as i64 * 60_000, 1 => rng.below(400) as i64 * 1000, _ => rng.below(200_000) as i64 * 500 - 3_600_000 },
                    Fd::B => rng.below(2) as i64,
                    Fd::Ip => rng.below(nip) as i64,
                    Fd::Kw => { let c = if rng.chance(1, 2) { rng.usize_below(kw_card.min(4)) } else { rng.usize_below(kw_card) }; kw_code(c) }
                    Fd::Cat | Fd::JsS => rng.below(5) as i64,
                    Fd::JsN => rng.below(21) as i64 - 5,
                    _ => 0,
                };
                d[f.id()].push(v);
            }
        }
        docs.push(d);
    }
    // a third of the corpora have deleted documents (aggregations see live documents only)
    let mut deleted = 0;
    if n >= 3 && rng.chance(1, 3) {
        let p = *rng.pick(&[1u64, 3, 5]);
        for d in docs.iter_mut() { if rng.chance(p, 10) { d[Fd::Sel.id()].push(DELETED); deleted += 1; } }
    }
    (docs, Profile { n, kw_card, multi, missing, deleted, near_unique })
}

/// an independent stream derived from the generator state (advances `rng` once)
fn rng_clone(rng: &mut Rng) -> Rng { rng.fork() }

pub fn kw_code_pub(i: usize) -> i64 { kw_code(i) }

/// i-th usable keyword (skips the reserved missing key)
fn kw_code(i: usize) -> i64 {
    let u = kw_universe();
    let usable: Vec<usize> = (0..u.len()).filter(|&j| u[j] != "zzz_missing").collect();
    usable[i % usable.len()] as i64
}

fn gen_metric(rng: &mut Rng) -> Agg {
    let kind = *rng.pick(&[MK::Count, MK::Sum, MK::Min, MK::Max, MK::Avg, MK::Stats, MK::Stats, MK::ExtStats, MK::Percentiles, MK::Cardinality, MK::TopHits]);
    let field = match kind {
        MK::TopHits => Fd::Uid,
        MK::Cardinality => *rng.pick(&[Fd::Kw, Fd::Cat, Fd::U, Fd::I, Fd::JsN]),
        MK::Percentiles => *rng.pick(&[Fd::U, Fd::Fl, Fd::I, Fd::JsN]),
        MK::Count => *rng.pick(&[Fd::U, Fd::I, Fd::Fl, Fd::Kw, Fd::JsN, Fd::D]),
        MK::Min | MK::Max => *rng.pick(&[Fd::U, Fd::I, Fd::Fl, Fd::JsN, Fd::D]),
        _ => *rng.pick(&[Fd::U, Fd::I, Fd::Fl, Fd::JsN]),
    };
    let missing = if field.is_numeric() && field != Fd::Uid && !matches!(kind, MK::Cardinality | MK::TopHits) && rng.chance(1, 4) {
        Some(match field { Fd::U => rng.below(50) as i64, Fd::Fl => rng.below(41) as i64 - 20, _ => rng.below(21) as i64 - 10 })
    } else { None };
    Agg::Metric { kind, field, missing, desc: rng.chance(1, 2), k: 1 + rng.usize_below(4) }
}

fn gen_bucket(rng: &mut Rng, depth: usize) -> Agg {
    match rng.below(10) {
        0..=3 => {
            let field = *rng.pick(&[Fd::Kw, Fd::Kw, Fd::Cat, Fd::U, Fd::I, Fd::B, Fd::Ip, Fd::D, Fd::JsS, Fd::JsN, Fd::Fl]);
            let size = match rng.below(5) { 0 => None, 1 | 2 => Some(1 + rng.below(3) as u32), 3 => Some(5), _ => Some(300) };
            let seg = if depth == 0 && rng.chance(1, 4) { Some(*rng.pick(&[1u32, 2, 3, 5, 8, 20])) } else { None };
            let mdc = match rng.below(5) { 0 => Some(2), 1 => Some(1), 2 if field.is_str() && depth == 0 => Some(0), _ => None };
            let order = match rng.below(7) { 0 => None, 1 => Some(TOrd::CountDesc), 2 | 3 => Some(TOrd::CountAsc), 4 | 5 => Some(TOrd::KeyAsc), _ => Some(TOrd::KeyDesc) };
            let missing = if rng.chance(1, 4) {
                if field.is_str() { Some(missing_code(field)) }
                else if matches!(field, Fd::U | Fd::JsN) { Some(rng.below(30) as i64) }
                else if field == Fd::I { Some(rng.below(21) as i64 - 10) }
                else { None }
            } else { None };
            Agg::Terms { field, size, seg, mdc, order, missing }
        }
        4..=6 => {
            let field = *rng.pick(&[Fd::U, Fd::I, Fd::Fl, Fd::JsN, Fd::D, Fd::D]);
            let date_hist = field == Fd::D && rng.chance(2, 3);
            let interval = if field == Fd::D { *rng.pick(&[1000i64, 30_000, 60_000, 3_600_000, 86_400_000, 2000]) }
                else if field == Fd::Fl { *rng.pick(&[1i64, 2, 4, 10, 20]) } else { *rng.pick(&[1i64, 2, 5, 10, 25]) };
            let offset = if rng.chance(1, 3) {
                let o = rng.below(interval as u64 * 2 + 1) as i64 - interval;
                if field == Fd::D { Some((o / 500) * 500) } else { Some(o) }
            } else { None };
            let (lo, hi) = match field { Fd::U => (0i64, 200i64), Fd::D => (1_600_000_000_000 - 3_600_000, 1_600_000_000_000 + 100_000_000), Fd::Fl => (-40, 40), _ => (-30, 30) };
            let span = hi - lo;
            let pick_bounds = |rng: &mut Rng, wide: bool| -> (i64, i64) {
                let a = lo + rng.below(span as u64 + 1) as i64 - if wide { span / 4 } else { 0 };
                let b = a + rng.below((span / 2) as u64 + 1) as i64;
                (a, b)
            };
            let hard = if rng.chance(1, 4) { Some(pick_bounds(rng, false)) } else { None };
            let mdc = match rng.below(4) { 0 => Some(1), 1 => Some(2), 2 => Some(0), _ => None };
            let mut ext = if mdc.unwrap_or(0) == 0 && rng.chance(1, 3) { Some(pick_bounds(rng, true)) } else { None };
            if let (Some(h), Some(e)) = (hard, ext) {
                // the request is only valid when the extended bounds lie inside the hard bounds
                let e2 = (e.0.max(h.0), e.1.min(h.1));
                ext = if e2.0 <= e2.1 { Some(e2) } else { None };
            }
            // keep the number of filled buckets moderate
            let width = match (ext, hard) { (Some(e), _) => e.1 - e.0, _ => span };
            let interval = if width / interval > 2000 { (width / 500).max(interval) } else { interval };
            // date keys are computed in f64 nanoseconds: only whole seconds stay exact
            let interval = if field == Fd::D { if date_hist { round_date_interval(interval.max(1000)) } else { (interval.max(1000) / 1000) * 1000 } } else { interval };
            Agg::Hist { field, interval, offset: offset.map(|o| o % interval), mdc, hard, ext, date_hist }
        }
        7 | 8 => {
            let field = *rng.pick(&[Fd::U, Fd::I, Fd::Fl, Fd::JsN]);
            let (lo, hi) = match field { Fd::U => (1i64, 60i64), Fd::Fl => (-40, 40), _ => (-30, 30) };
            let mut pts: Vec<i64> = (0..2 + rng.usize_below(5)).map(|_| lo + rng.below((hi - lo + 1) as u64) as i64).collect();
            pts.sort();
            pts.dedup();
            let mut ranges = vec![];
            if rng.chance(1, 2) { ranges.push((None, Some(pts[0]), None)); }
            for w in pts.windows(2) {
                if rng.chance(3, 4) { ranges.push((Some(w[0]), Some(w[1]), if rng.chance(1, 4) { Some(format!("r{}", w[0])) } else { None })); }
            }
            if rng.chance(1, 2) || ranges.is_empty() { ranges.push((Some(*pts.last().unwrap()), None, None)); }
            rng.shuffle(&mut ranges);
            Agg::Range { field, ranges }
        }
        9 if rng.chance(2, 3) => {
            let k = 1 + rng.usize_below(2);
            let sources = (0..k).map(|i| {
                let field = *rng.pick(&[Fd::Cat, Fd::Kw, Fd::U, Fd::I, Fd::JsN]);
                let interval = if field.is_numeric() && rng.chance(1, 2) { Some(*rng.pick(&[5i64, 10, 25])) } else { None };
                CSrc { name: format!("s{i}"), field, interval, desc: rng.chance(1, 3) }
            }).collect();
            let sources: Vec<CSrc> = sources;
            let after = if rng.chance(1, 3) {
                Some(sources.iter().map(|c| {
                    let v: i64 = match c.field { Fd::Cat => rng.below(5) as i64, Fd::Kw => kw_code(rng.usize_below(8)), Fd::U => rng.below(60) as i64, _ => rng.below(41) as i64 - 20 };
                    match c.interval { Some(i) => v.div_euclid(i) * i, None => v }
                }).collect())
            } else { None };
            Agg::Composite { sources, size: *rng.pick(&[1u32, 2, 5, 50]), after }
        }
        _ => {
            if rng.chance(1, 2) { Agg::Filter { field: Fd::Sel, code: rng.below(4) as i64 } }
            else { Agg::Filter { field: Fd::Cat, code: rng.below(5) as i64 } }
        }
    }
}

fn round_date_interval(ms: i64) -> i64 {
    for unit in [86_400_000i64, 3_600_000, 60_000, 1000] { if ms >= unit { return (ms / unit) * unit; } }
    1000
}

pub fn gen_nodes(rng: &mut Rng, depth: usize, max_depth: usize, counter: &mut usize) -> Vec<Node> {
    let n = if depth == 0 { 1 + rng.usize_below(3) } else { rng.usize_below(3) };
    let mut out = vec![];
    for _ in 0..n {
        *counter += 1;
        let name = format!("a{}", *counter);
        let bucket = depth + 1 < max_depth && rng.chance(if depth == 0 { 7 } else { 5 }, 10);
        if bucket {
            let agg = gen_bucket(rng, depth);
            let subs = gen_nodes(rng, depth + 1, max_depth, counter);
            let mut node = Node { name, agg, subs, opt: Opt::default() };
            gen_opt(rng, &mut node);
            out.push(node);
        } else if depth + 1 == max_depth || rng.chance(7, 10) {
            let mut node = Node { name, agg: gen_metric(rng), subs: vec![], opt: Opt::default() };
            node.opt.keyed = rng.chance(2, 3);
            if matches!(node.agg, Agg::Metric { kind: MK::ExtStats, .. }) && rng.chance(2, 3) { node.opt.sigma4 = Some(*rng.pick(&[0i64, 2, 4, 6, 12, 13])); }
            out.push(node);
        } else {
            let mut node = Node { name, agg: gen_bucket(rng, depth), subs: vec![], opt: Opt::default() };
            gen_opt(rng, &mut node);
            out.push(node);
        }
    }
    out
}

/// false when the request uses something the Lean model does not cover
pub fn lean_modelled(nodes: &[Node]) -> bool {
    nodes.iter().all(|n| !matches!(&n.agg, Agg::Terms { field, mdc: Some(0), .. } if field.is_str())
        && n.opt.include.is_none() && n.opt.exclude.is_none() && n.opt.sub_order.is_none() && lean_modelled(&n.subs))
}

/// keyed output, include / exclude, order by a metric sub-aggregation
fn gen_opt(rng: &mut Rng, node: &mut Node) {
    match &mut node.agg {
        Agg::Hist { .. } | Agg::Range { .. } => node.opt.keyed = rng.chance(1, 4),
        Agg::Terms { field, missing, mdc, order, .. } => {
            if field.is_str() && missing.is_none() && rng.chance(1, 2) {
                let u = universe(*field);
                let pick = |rng: &mut Rng| -> IncExc {
                    match rng.below(3) {
                        0 => IncExc::Values((0..1 + rng.usize_below(4)).map(|_| rng.usize_below(u.len()) as i64).collect()),
                        1 => IncExc::Prefix(if *field == Fd::Kw { (*rng.pick(&["k0", "k1", "k00", "a", "z"])).to_string() } else { (*rng.pick(&["a", "b", "de", "g"])).to_string() }),
                        _ => IncExc::Suffix((*rng.pick(&["1", "a", "ta", "5", "s"])).to_string()),
                    }
                };
                if rng.chance(2, 3) { node.opt.include = Some(pick(rng)); }
                if node.opt.include.is_none() || rng.chance(1, 3) { node.opt.exclude = Some(pick(rng)); }
            }
            if rng.chance(1, 2) && *mdc != Some(0) {
                // order by a metric child
                let cands: Vec<(String, String)> = node.subs.iter().filter_map(|c| match &c.agg {
                    Agg::Metric { kind: MK::Count | MK::Sum | MK::Min | MK::Max | MK::Avg, field, .. } if !field.is_str() && *field != Fd::D => Some((c.name.clone(), String::new())),
                    Agg::Metric { kind: MK::Stats, field, .. } if !field.is_str() => Some((c.name.clone(), (*rng.pick(&["count", "sum", "min", "max", "avg"])).to_string())),
                    _ => None,
                }).collect();
                if !cands.is_empty() {
                    let (name, prop) = rng.pick(&cands).clone();
                    node.opt.sub_order = Some((name, prop, rng.chance(1, 2)));
                    *order = None;
                }
            }
        }
        _ => {}
    }
}

pub fn depth_of(nodes: &[Node]) -> usize {
    nodes.iter().map(|n| 1 + depth_of(&n.subs)).max().unwrap_or(0)
}
pub fn has_bucket(nodes: &[Node]) -> bool {
    nodes.iter().any(|n| !matches!(n.agg, Agg::Metric { .. }))
}

/// random partition of `0..n` into `k` parts (parts may be empty)
pub fn gen_partition(rng: &mut Rng, n: usize, k: usize, contiguous: bool) -> Vec<Vec<usize>> {
    let mut parts = vec![vec![]; k];
    if contiguous {
        let mut cuts: Vec<usize> = (0..k - 1).map(|_| rng.usize_below(n + 1)).collect();
        cuts.sort();
        let mut p = 0;
        for i in 0..n { while p < k - 1 && i >= cuts[p] { p += 1; } parts[p].push(i); }
    } else {
        for i in 0..n { parts[rng.usize_below(k)].push(i); }
    }
    parts
}

pub fn run(ctx: &mut Ctx) {
    runner::run(ctx);
}
