//! Drives the real aggregation code: indexes, searches, distributed merges, limits.
use super::real::{canon, canon_opt, compare, cr_counts_lean, normalise_ties, same_result, CmpCtx, CR};
use super::spec::{bucket_count, spec_eval, srs_to_lean, term_keys, Sem, SR};
use super::*;
use std::collections::BTreeSet;
use std::panic::{catch_unwind, AssertUnwindSafe};
use std::sync::Mutex;

pub static LAST_PANIC: Mutex<String> = Mutex::new(String::new());
fn last_panic() -> String { LAST_PANIC.lock().map(|s| s.clone()).unwrap_or_default() }
use tantivy::aggregation::agg_req::Aggregations;
use tantivy::aggregation::intermediate_agg_result::IntermediateAggregationResults;
use tantivy::aggregation::{AggContextParams, AggregationCollector, AggregationLimitsGuard, DistributedAggregationCollector};
use tantivy::indexer::NoMergePolicy;
use tantivy::query::{AllQuery, Query, TermQuery};
use tantivy::schema::{IndexRecordOption, JsonObjectOptions, Schema, FAST, INDEXED, STRING};
use tantivy::{Index, IndexWriter, TantivyDocument, Term};

#[derive(Clone, Copy, PartialEq, Debug, Serialize, Deserialize)]
pub enum Q { All, Sel(u64), Cat(i64) }

impl Q {
    fn matches(&self, d: &MDoc) -> bool {
        !is_deleted(d) && match self { Q::All => true, Q::Sel(v) => d[Fd::Sel.id()].contains(&(*v as i64)), Q::Cat(c) => d[Fd::Cat.id()].contains(c) }
    }
    fn build(&self, schema: &Schema) -> Box<dyn Query> {
        match self {
            Q::All => Box::new(AllQuery),
            Q::Sel(v) => Box::new(TermQuery::new(Term::from_field_u64(schema.get_field("sel").unwrap(), *v), IndexRecordOption::Basic)),
            Q::Cat(c) => Box::new(TermQuery::new(Term::from_field_text(schema.get_field("cat").unwrap(), &cat_universe()[*c as usize]), IndexRecordOption::Basic)),
        }
    }
}

pub fn schema() -> Schema {
    let mut sb = Schema::builder();
    sb.add_u64_field("u", FAST);
    sb.add_i64_field("i", FAST);
    sb.add_f64_field("f", FAST);
    sb.add_date_field("d", tantivy::schema::DateOptions::from(FAST).set_precision(tantivy::schema::DateTimePrecision::Milliseconds));
    sb.add_bool_field("b", FAST);
    sb.add_ip_addr_field("ip", FAST);
    sb.add_text_field("kw", STRING | FAST);
    sb.add_text_field("cat", STRING | FAST);
    sb.add_json_field("js", JsonObjectOptions::default().set_fast(None));
    sb.add_u64_field("uid", FAST);
    sb.add_u64_field("sel", FAST | INDEXED);
    sb.build()
}

pub fn build_index(docs: &[MDoc], parts: &[Vec<usize>]) -> Index {
    let schema = schema();
    let index = Index::create_in_ram(schema.clone());
    let mut w: IndexWriter = index.writer_with_num_threads(1, 20_000_000).unwrap();
    w.set_merge_policy(Box::new(NoMergePolicy));
    for p in parts {
        if p.is_empty() { continue; }
        for &i in p {
            let d = TantivyDocument::parse_json(&schema, &doc_to_json(&docs[i]).to_string()).unwrap();
            w.add_document(d).unwrap();
        }
        w.commit().unwrap();
    }
    if docs.iter().any(is_deleted) {
        w.delete_term(Term::from_field_u64(schema.get_field("sel").unwrap(), DELETED as u64));
        w.commit().unwrap();
    }
    drop(w);
    index
}

fn ctx_params(index: &Index, mem: Option<u64>, buckets: Option<u32>) -> AggContextParams {
    AggContextParams::new(AggregationLimitsGuard::new(mem, buckets), index.tokenizers().clone())
}

#[derive(Debug, Clone, PartialEq)]
pub enum Out { Ok(Value), Err(String), Panic(String) }

fn err_class(e: &tantivy::TantivyError) -> String {
    let s = format!("{e:?}");
    if s.contains("BucketLimitExceeded") { "bucket-limit".into() }
    else if s.contains("MemoryExceeded") { "memory-limit".into() }
    else { format!("error: {}", &s[..s.len().min(160)]) }
}

pub fn search_final(index: &Index, q: Q, aggs: &Aggregations, mem: Option<u64>, buckets: Option<u32>) -> Out {
    let r = catch_unwind(AssertUnwindSafe(|| {
        let searcher = index.reader().unwrap().searcher();
        let coll = AggregationCollector::from_aggs(aggs.clone(), ctx_params(index, mem, buckets));
        searcher.search(&*q.build(&index.schema()), &coll)
    }));
    match r {
        Ok(Ok(res)) => Out::Ok(serde_json::to_value(&res).unwrap()),
        Ok(Err(e)) => Out::Err(err_class(&e)),
        Err(_) => Out::Panic(last_panic()),
    }
}

pub fn search_fruit(index: &Index, q: Q, aggs: &Aggregations) -> Result<IntermediateAggregationResults, String> {
    catch_unwind(AssertUnwindSafe(|| {
        let searcher = index.reader().unwrap().searcher();
        let coll = DistributedAggregationCollector::from_aggs(aggs.clone(), ctx_params(index, None, None));
        searcher.search(&*q.build(&index.schema()), &coll).map_err(|e| err_class(&e))
    })).unwrap_or_else(|_| Err(format!("panic: {}", last_panic())))
}

fn roundtrip(f: &IntermediateAggregationResults) -> Result<IntermediateAggregationResults, String> {
    let bytes = postcard::to_allocvec(f).map_err(|e| format!("postcard serialise: {e}"))?;
    postcard::from_bytes(&bytes).map_err(|e| format!("postcard deserialise: {e}"))
}

/// merge the fruits along a random binary schedule (permuted, regrouped, some through postcard)
fn merge_schedule(rng: &mut Rng, mut fruits: Vec<IntermediateAggregationResults>, serialise: bool) -> Result<Option<IntermediateAggregationResults>, String> {
    rng.shuffle(&mut fruits);
    while fruits.len() > 1 {
        let i = rng.usize_below(fruits.len());
        let mut a = fruits.swap_remove(i);
        let j = rng.usize_below(fruits.len());
        let mut b = fruits.swap_remove(j);
        if serialise && rng.chance(1, 2) { a = roundtrip(&a)?; }
        if serialise && rng.chance(1, 2) { b = roundtrip(&b)?; }
        let merged = catch_unwind(AssertUnwindSafe(move || { a.merge_fruits(b).map(|_| a).map_err(|e| err_class(&e)) })).unwrap_or(Err("panic in merge_fruits".into()))?;
        fruits.push(merged);
    }
    match fruits.pop() {
        Some(f) => Ok(Some(if serialise { roundtrip(&f)? } else { f })),
        None => Ok(None),
    }
}

fn finalise(f: IntermediateAggregationResults, aggs: &Aggregations) -> Out {
    match catch_unwind(AssertUnwindSafe(|| f.into_final_result(aggs.clone(), AggregationLimitsGuard::new(None, None)))) {
        Ok(Ok(res)) => Out::Ok(serde_json::to_value(&res).unwrap()),
        Ok(Err(e)) => Out::Err(err_class(&e)),
        Err(_) => Out::Panic(last_panic()),
    }
}

/// names of the terms nodes that some segment may truncate (distinct keys > segment_size)
fn has_composite(nodes: &[Node]) -> bool {
    nodes.iter().any(|n| matches!(n.agg, Agg::Composite { .. }) || has_composite(&n.subs))
}

fn may_truncate(nodes: &[Node], docs: &[MDoc], parts: &[Vec<usize>], q: Q, out: &mut Vec<String>) {
    for n in nodes {
        if let Agg::Terms { field, size, seg, mdc, order, missing } = &n.agg {
            let (_, seg, mdc, _) = terms_defaults(*size, *seg, *mdc, order);
            for p in parts {
                let mut keys: BTreeSet<i64> = BTreeSet::new();
                for &i in p {
                    if q.matches(&docs[i]) || mdc == 0 { keys.extend(term_keys(*field, *missing, &docs[i])); }
                }
                if keys.len() > seg { out.push(n.name.clone()); break; }
            }
        }
        may_truncate(&n.subs, docs, parts, q, out);
    }
}

fn has_count_ordered_terms(nodes: &[Node]) -> bool {
    nodes.iter().any(|n| matches!(&n.agg, Agg::Terms { order, .. } if n.opt.sub_order.is_some() || matches!(order, None | Some(TOrd::CountDesc) | Some(TOrd::CountAsc))) || has_count_ordered_terms(&n.subs))
}

pub struct Corpus {
    pub docs: Vec<MDoc>,
    /// segmentations of the same documents; `.0` = partition, `.1` = one index with these segments
    pub segs: Vec<(Vec<Vec<usize>>, Index)>,
    /// one partition indexed as separate indexes
    pub split: (Vec<Vec<usize>>, Vec<Index>),
}

pub fn build_corpus(rng: &mut Rng, docs: Vec<MDoc>, nseg: usize) -> Corpus {
    let n = docs.len();
    let mut segs = vec![];
    let all: Vec<usize> = (0..n).collect();
    segs.push((vec![all.clone()], build_index(&docs, &[all.clone()])));
    for s in 1..nseg {
        let k = 2 + rng.usize_below(5);
        let parts = gen_partition(rng, n, k, s % 2 == 0);
        let idx = build_index(&docs, &parts);
        segs.push((parts, idx));
    }
    let k = 1 + rng.usize_below(4);
    let contiguous = rng.chance(1, 2);
    let parts = gen_partition(rng, n, k, contiguous);
    let idxs = parts.iter().map(|p| build_index(&docs, &[p.clone()])).collect();
    Corpus { docs, segs, split: (parts, idxs) }
}

fn key_of(whr: &str, nodes: &[Node]) -> String {
    // attribution by the kind of the innermost aggregation named in the path
    fn find<'a>(nodes: &'a [Node], name: &str) -> Option<&'a Node> {
        for n in nodes { if n.name == name { return Some(n); } if let Some(x) = find(&n.subs, name) { return Some(x); } }
        None
    }
    let last = whr.split('>').filter(|s| s.starts_with('a')).last().unwrap_or("");
    let kind = match find(nodes, last).map(|n| &n.agg) {
        Some(Agg::Metric { kind, .. }) => format!("metric-{kind:?}").to_lowercase(),
        Some(Agg::Terms { .. }) => "terms".into(),
        Some(Agg::Hist { date_hist: true, .. }) => "date-histogram".into(),
        Some(Agg::Hist { .. }) => "histogram".into(),
        Some(Agg::Range { .. }) => "range".into(),
        Some(Agg::Filter { .. }) => "filter".into(),
        Some(Agg::Composite { .. }) => "composite".into(),
        None => "result".into(),
    };
    format!("C14:{kind}-differs-from-direct-computation")
}

pub struct CaseIn<'a> { pub docs: &'a [MDoc], pub nodes: &'a [Node], pub q: Q }
fn c_in<'a>(docs: &'a [MDoc], nodes: &'a [Node], q: Q) -> CaseIn<'a> { CaseIn { docs, nodes, q } }

fn case_json(c: &CaseIn, parts: &[Vec<usize>], what: &str) -> Value {
    json!({"kind": what, "docs": c.docs, "nodes": c.nodes, "query": c.q, "parts": parts,
           "request": nodes_to_json(c.nodes), "docs_json": c.docs.iter().map(doc_to_json).collect::<Vec<_>>()})
}

/// oracle (a) on one real result; returns the canonical result when it could be canonicalised
fn judge_real(ctx: &mut Ctx, c: &CaseIn, parts: &[Vec<usize>], out: &Out, specs: &Specs, how: &str) -> Option<Vec<CR>> {
    if parts.iter().any(|p| !p.is_empty() && p.iter().all(|&i| is_deleted(&c.docs[i]))) {
        ctx.report.count("skipped:segment-with-only-deleted-documents");
        return None;
    }
    let no_segments = parts.iter().all(|p| p.is_empty());
    let srs = if no_segments { &specs.absent } else { &specs.base };
    let v = match out {
        Out::Ok(v) => v,
        Out::Err(e) => {
            let absent = e.contains("Overlapping ranges") && range_absent_column_signature(c.nodes, c.docs, parts);
            if (e.contains("limit") || e.contains("error")) && date_hist_below_mdc0_terms(c.nodes, false) && parts.iter().filter(|p| !p.is_empty()).count() > 1 {
                ctx.report.violation("oracle", "C14:date-flag-lost-when-histogram-merged-into-empty-from-req", format!("{how}: a valid request failed: {e} — gap filling of a date histogram whose date flag was lost runs with the millisecond interval over nanosecond keys"), case_json(c, parts, "final"));
                return None;
            }
            ctx.report.violation("oracle", if absent { "C14:metric-missing-cast-to-u64-in-segment-without-column" } else { "C14:valid-request-rejected" },
                format!("{how}: a valid request failed: {e}{}", if absent { " — negative range bounds collapse to 0 on the u64-typed substitute of an absent column" } else { "" }), case_json(c, parts, "final"));
            return None;
        }
        Out::Panic(msg) => {
            let sorted_msg = msg.contains("fetch_block requires docs sorted");
            let matching: Vec<&MDoc> = c.docs.iter().filter(|d| c.q.matches(d)).collect();
            let dup = sorted_msg && (specs.alts[0] != specs.base || dup_push_signature(c.nodes, &matching));
            if msg.contains("composite/collector.rs") && msg.contains("subtract with overflow") {
                ctx.report.violation("oracle", "C14:composite-memory-accounting-underflow", format!("{how}: aggregation panicked: {msg} — SegmentCompositeCollector::collect computes `get_memory_consumption() - mem_pre` after a bucket was evicted from the full top-`size` map (the map shrank): overflow panic with overflow checks, a wrapped huge value and a spurious MemoryExceeded error without them"), case_json(c, parts, "final"));
                return None;
            }
            if sorted_msg && !dup && terms_missing_with_subs(c.nodes) {
                ctx.report.violation("oracle", "C14:terms-missing-passes-documents-out-of-order", format!("{how}: aggregation panicked: {msg} — a terms aggregation with `missing` appends the substituted documents after the others, so its sub-aggregations receive doc ids out of order"), case_json(c, parts, "final"));
                return None;
            }
            if msg.contains("composite/collector.rs") && msg.contains("index out of bounds") && nested_composite(c.nodes, false) {
                ctx.report.violation("oracle", "C14:composite-sub-aggregation-panics-on-unvisited-parent-bucket", format!("{how}: aggregation panicked: {msg} — a composite below another bucket aggregation is asked for the result of a parent bucket that received no document (SegmentCompositeCollector::add_intermediate_aggregation_result indexes parent_buckets without prepare_max_bucket)"), case_json(c, parts, "final"));
                return None;
            }
            ctx.report.violation("oracle", if dup { "C14:histogram-range-doc-count-counts-values" } else { "C14:panic" },
                format!("{how}: aggregation panicked: {msg}{}", if dup { " — a histogram / range bucket got the same document twice (two values of a multi-valued document in one bucket) and passed it twice to its sub-aggregation" } else { "" }), case_json(c, parts, "final"));
            return None;
        }
    };
    let crs = match canon_opt(c.nodes, v, no_segments) {
        Ok(x) => x,
        Err(e) => {
            if e.contains("date histogram key") && e.contains("key_as_string \"\"") && date_flag_signature(c.nodes, c.docs, parts, false) {
                ctx.report.violation("oracle", "C14:date-flag-lost-when-histogram-merged-into-empty-from-req", format!("{how}: {e} — a `histogram` on a date field below terms(min_doc_count: 0): the zero-count term of one segment carries `empty_from_req(Histogram)` with is_date_agg = false, merge_fruits keeps the left flag, so the merged buckets are finalised as plain numbers (keys in nanoseconds, no key_as_string, interval not scaled)"), case_json(c, parts, "final"));
                return None;
            }
            let key = if range_absent_column_signature(c.nodes, c.docs, parts) { "C14:metric-missing-cast-to-u64-in-segment-without-column" } else { "C14:malformed-result" };
            ctx.report.violation("oracle", key, format!("{how}: {e}{}", if key != "C14:malformed-result" { " — a range with a negative / fractional bound over a segment without any value of the field (the absent column is typed u64 and the bound is converted as u64)" } else { "" }), case_json(c, parts, "final"));
            return None;
        }
    };
    let mut mt = vec![];
    may_truncate(c.nodes, c.docs, parts, c.q, &mut mt);
    if !mt.is_empty() { ctx.report.count("terms:segment-truncation-possible"); }
    // exactly one segment holds documents: truncation cannot change the shown buckets
    let single_segment = parts.iter().filter(|p| !p.is_empty()).count() == 1;
    // expected error bound of top-level terms nodes in that case: the count of bucket number
    // `segment_size` (0-based) in request order among ALL buckets of the segment (before min_doc_count)
    let mut seg_cut: std::collections::BTreeMap<String, u64> = Default::default();
    if single_segment {
        let matching: Vec<&MDoc> = c.docs.iter().filter(|d| c.q.matches(d)).collect();
        for n in c.nodes.iter() {
            if let Agg::Terms { field, size, seg, mdc, order, missing } = &n.agg {
                let (_, segsz, _, ord) = terms_defaults(*size, *seg, *mdc, order);
                if n.opt.sub_order.is_some() || n.opt.include.is_some() || n.opt.exclude.is_some() || *mdc == Some(0) { continue; }
                let mut counts: std::collections::BTreeMap<i64, u64> = Default::default();
                for d in &matching { for k in term_keys(*field, *missing, d) { *counts.entry(k).or_insert(0) += 1; } }
                let mut v: Vec<(i64, u64)> = counts.into_iter().collect();
                match ord {
                    TOrd::CountDesc => v.sort_by(|a, b| b.1.cmp(&a.1)),
                    TOrd::CountAsc => v.sort_by(|a, b| a.1.cmp(&b.1)),
                    TOrd::KeyAsc => v.sort_by(|a, b| a.0.cmp(&b.0)),
                    TOrd::KeyDesc => v.sort_by(|a, b| b.0.cmp(&a.0)),
                }
                // under the rendered key order of ip / date / f64 keys the cut position is not the column order's: skip
                if matches!(ord, TOrd::KeyAsc | TOrd::KeyDesc) && matches!(field, Fd::Ip | Fd::D | Fd::Fl) { continue; }
                if v.len() > segsz { seg_cut.insert(n.name.clone(), v[segsz].1); }
            }
        }
    }
    let mut cx = CmpCtx { no_segments, may_truncate: mt.clone(), single_segment, seg_cut_count: seg_cut.clone(), skip_err_bound: false, skip_subs_at: vec![], skip_metrics: vec![], lenient_empty_composite: false, notes: vec![] };
    for ti in 0..c.nodes.len() {
    let (tn, tc) = (&c.nodes[ti..ti + 1], &crs[ti..ti + 1]);
    if let Err((whr, what)) = compare(tn, tc, &srs[ti..ti + 1], &mut cx) {
        // attribution: does the failure disappear under exactly one of the recorded deviations?
        let mut explained = None;
        if !no_segments {
            for (i, alt) in specs.alts.iter().enumerate() {
                let mut cx2 = CmpCtx { no_segments, may_truncate: mt.clone(), single_segment, seg_cut_count: seg_cut.clone(), skip_err_bound: false, skip_subs_at: vec![], skip_metrics: vec![], lenient_empty_composite: false, notes: vec![] };
                if alt[ti] != specs.base[ti] && compare(tn, tc, &alt[ti..ti + 1], &mut cx2).is_ok() { explained = Some(i); break; }
            }
        }
        if explained.is_none() && !no_segments && specs.alts[0][ti] != specs.base[ti] {
            // per-value counting whose effect on the sub-aggregations differs by kind (some
            // collectors deduplicate the repeated document, some do not): keys and counts of
            // the affected histogram / range nodes must equal the per-value counts, their
            // sub-results are not compared
            let mut dup = vec![];
            dup_nodes(tn, &specs.base[ti..ti + 1], &specs.alts[0][ti..ti + 1], &mut dup);
            for (i, alt) in [(0usize, &specs.alts[0]), (2usize, &specs.alts[2])] {
                let mut cx3 = CmpCtx { no_segments, may_truncate: mt.clone(), single_segment, seg_cut_count: seg_cut.clone(), skip_err_bound: true, skip_subs_at: dup.clone(), skip_metrics: suspicious_metrics(c.nodes, c.docs, parts, false), lenient_empty_composite: composite_below_mdc0_terms(c.nodes, false), notes: vec![] };
                if compare(tn, tc, &alt[ti..ti + 1], &mut cx3).is_ok() { explained = Some(i); break; }
            }
        }
        let missing_sig = metric_missing_signature(c.nodes, c.docs, parts, &whr);
        match explained {
            Some(0) if key_of(&whr, c.nodes).contains("composite") => ctx.report.violation("oracle", "C14:composite-counts-repeated-values", format!("{how}: at {whr}: {what} — equals the count per combination of VALUES: a document with a repeated value (or two values in one histogram source bucket) is counted once per repetition"), case_json(c, parts, "final")),
            Some(0) => ctx.report.violation("oracle", "C14:histogram-range-doc-count-counts-values", format!("{how}: at {whr}: {what} — equals the per-value count (a multi-valued document with two values in one bucket is counted twice)"), case_json(c, parts, "final")),
            Some(1) => ctx.report.violation("oracle", "C14:terms-key-order-of-rendered-keys", format!("{how}: at {whr}: {what} — equals the order of the rendered keys (ip / date keys compared as strings, integral f64 keys before fractional ones) instead of the column order"), case_json(c, parts, "final")),
            Some(_) => {
                ctx.report.violation("oracle", "C14:histogram-range-doc-count-counts-values", format!("{how}: at {whr}: {what} — explained by per-value counting together with rendered key order"), case_json(c, parts, "final"));
                ctx.report.violation("oracle", "C14:terms-key-order-of-rendered-keys", format!("{how}: at {whr}: {what} — explained by per-value counting together with rendered key order"), case_json(c, parts, "final"));
            }
            None if tophits_flush_signature(c.nodes, &whr, c.docs.iter().filter(|d| c.q.matches(d)).count()) => ctx.report.violation("oracle", "C14:top-hits-lost-after-intermediate-flush", format!("{how}: at {whr}: {what} — top_hits below a bucket aggregation over >= 2048 collected documents: the sub-aggregation buffer is flushed in batches and TopHitsSegmentCollector::prepare_max_bucket resizes (shrinks) its bucket vector to the current batch's highest bucket id"), case_json(c, parts, "final")),
            None if what.contains("composite buckets []") && composite_below_mdc0_terms(c.nodes, false) => ctx.report.violation("oracle", "C14:composite-lost-when-merged-into-empty-from-req", format!("{how}: at {whr}: {what} — the composite sits below a terms aggregation with min_doc_count = 0: a zero-count term of one segment carries `empty_from_req(Composite)` (target_size 0); merging another segment's buckets INTO it trims them to 0"), case_json(c, parts, "final")),
            None if metric_under_terms_missing(c.nodes, &whr) => ctx.report.violation("oracle", "C14:terms-missing-passes-documents-out-of-order", format!("{how}: at {whr}: {what} — a metric with `missing` below a terms aggregation with `missing`: the terms collector appends the substituted documents after the others, the sub-aggregation receives doc ids out of order and find_missing_docs (which assumes ascending ids) substitutes `missing` for documents that have a value"), case_json(c, parts, "final")),
            None if sub_order_missing_signature(c.nodes, c.docs, parts, &whr) => ctx.report.violation("oracle", "C14:metric-missing-cast-to-u64-in-segment-without-column", format!("{how}: at {whr}: {what} — the terms aggregation is ordered by a metric whose negative / fractional `missing` is converted as u64 in a segment without the column"), case_json(c, parts, "final")),
            None if missing_sig => ctx.report.violation("oracle", "C14:metric-missing-cast-to-u64-in-segment-without-column", format!("{how}: at {whr}: {what} — the metric has a negative / fractional `missing` and a segment holds no value of the field (the column is absent there and `missing` is converted as u64)"), case_json(c, parts, "final")),
            None => ctx.report.violation("oracle", &key_of(&whr, c.nodes), format!("{how}: at {whr}: {what}"), case_json(c, parts, "final")),
        }
    }
    }
    for n in cx.notes { ctx.report.count(&format!("checked:{n}")); }
    Some(crs)
}

/// the direct results under the base semantics and under the recorded deviations
pub struct Specs { pub base: Vec<SR>, pub absent: Vec<SR>, pub alts: Vec<Vec<SR>> }

pub fn make_specs(nodes: &[Node], matching: &[&MDoc], docs: &[MDoc]) -> Specs {
    let at = all_terms_fn(docs);
    let ev = |pv: bool, rk: bool, absent: bool| spec_eval(nodes, matching, &at, Sem { per_value: pv, rendered_key_order: rk }, absent);
    Specs { base: ev(false, false, false), absent: ev(false, false, true), alts: vec![ev(true, false, false), ev(false, true, false), ev(true, true, false)] }
}

/// signature of the `missing`-on-absent-column defect: the failing node (or one below the
/// failing path) is a metric with a negative or fractional `missing`, and some non-empty
/// segment has no value of that field
fn metric_missing_signature(nodes: &[Node], docs: &[MDoc], parts: &[Vec<usize>], whr: &str) -> bool {
    fn find<'a>(nodes: &'a [Node], name: &str) -> Option<&'a Node> {
        for n in nodes { if n.name == name { return Some(n); } if let Some(x) = find(&n.subs, name) { return Some(x); } }
        None
    }
    let last = whr.split('>').filter(|s| s.starts_with('a')).last().unwrap_or("");
    match find(nodes, last).map(|n| &n.agg) {
        Some(Agg::Metric { field, missing: Some(m), .. }) => {
            let bad_missing = *m < 0 || (*field == Fd::Fl && m % 4 != 0);
            bad_missing && parts.iter().any(|p| !p.is_empty() && p.iter().all(|&i| docs[i][field.id()].is_empty()))
        }
        _ => false,
    }
}

/// histogram / range nodes whose buckets differ between per-document and per-value counting
fn dup_nodes(nodes: &[Node], base: &[SR], pv: &[SR], out: &mut Vec<String>) {
    for ((n, b), p) in nodes.iter().zip(base).zip(pv) {
        match (b, p) {
            (SR::List(bb, _), SR::List(pb, _)) => {
                if bb.len() != pb.len() || bb.iter().zip(pb).any(|(x, y)| x.0 != y.0 || x.1 != y.1) { out.push(n.name.clone()); }
                for (x, y) in bb.iter().zip(pb) { dup_nodes(&n.subs, &x.2, &y.2, out); }
            }
            (SR::Terms { all: ba, .. }, SR::Terms { all: pa, .. }) => for x in ba { if let Some(y) = pa.iter().find(|y| y.0 == x.0) { dup_nodes(&n.subs, &x.2, &y.2, out); } },
            (SR::Filter(_, bs), SR::Filter(_, ps)) => dup_nodes(&n.subs, bs, ps, out),
            (SR::Comp { all: ba, .. }, SR::Comp { all: pa, .. }) => {
                if ba.len() != pa.len() || ba.iter().zip(pa).any(|(x, y)| x.0 != y.0 || x.1 != y.1) { out.push(n.name.clone()); }
                for x in ba { if let Some(y) = pa.iter().find(|y| y.0 == x.0) { dup_nodes(&n.subs, &x.2, &y.2, out); } }
            }
            _ => {}
        }
    }
}

fn any_metric_missing_signature(nodes: &[Node], docs: &[MDoc], parts: &[Vec<usize>]) -> bool {
    nodes.iter().any(|n| metric_missing_signature(std::slice::from_ref(n), docs, parts, &n.name) || any_metric_missing_signature(&n.subs, docs, parts))
}

fn no_count_cut(srs: &[SR]) -> bool {
    srs.iter().all(|s| match s {
        SR::Terms { all, size, order, subkey, .. } => ((subkey.is_none() && !matches!(order, TOrd::CountDesc | TOrd::CountAsc)) || all.len() <= *size) && all.iter().all(|b| no_count_cut(&b.2)),
        SR::List(bs, _) => bs.iter().all(|b| no_count_cut(&b.2)),
        SR::Filter(_, s) => no_count_cut(s),
        SR::Comp { all, .. } => all.iter().all(|b| no_count_cut(&b.2)),
        _ => true,
    })
}

/// the failing node is a top_hits below a bucket aggregation and at least FLUSH_THRESHOLD (2048)
/// documents are collected, so that the buffered sub-aggregation is flushed more than once
fn tophits_flush_signature(nodes: &[Node], whr: &str, matching: usize) -> bool {
    fn find<'a>(nodes: &'a [Node], name: &str) -> Option<&'a Node> {
        for n in nodes { if n.name == name { return Some(n); } if let Some(x) = find(&n.subs, name) { return Some(x); } }
        None
    }
    let names: Vec<&str> = whr.split('>').filter(|s| s.starts_with('a')).collect();
    let last = names.last().cloned().unwrap_or("");
    names.len() >= 2 && matching >= 2048 && matches!(find(nodes, last).map(|n| &n.agg), Some(Agg::Metric { kind: MK::TopHits, .. }))
}

/// the request has a composite aggregation below a terms aggregation with `min_doc_count: 0`
fn composite_below_mdc0_terms(nodes: &[Node], below: bool) -> bool {
    nodes.iter().any(|n| (below && matches!(n.agg, Agg::Composite { .. })) || composite_below_mdc0_terms(&n.subs, below || matches!(n.agg, Agg::Terms { mdc: Some(0), .. })))
}

/// the request has a plain `histogram` on the date field below a terms aggregation with `min_doc_count: 0`
fn date_hist_below_mdc0_terms(nodes: &[Node], below: bool) -> bool {
    nodes.iter().any(|n| (below && matches!(n.agg, Agg::Hist { field: Fd::D, date_hist: false, .. })) || date_hist_below_mdc0_terms(&n.subs, below || matches!(n.agg, Agg::Terms { mdc: Some(0), .. })))
}

/// a plain `histogram` on the date field that can meet `empty_from_req` (below terms with
/// min_doc_count 0 or below a gap-filling histogram) or a segment without any date value
fn date_flag_signature(nodes: &[Node], docs: &[MDoc], parts: &[Vec<usize>], below: bool) -> bool {
    let absent = parts.iter().any(|p| !p.is_empty() && p.iter().all(|&i| docs[i][Fd::D.id()].is_empty()));
    nodes.iter().any(|n| ((below || absent) && matches!(n.agg, Agg::Hist { field: Fd::D, date_hist: false, .. }))
        || date_flag_signature(&n.subs, docs, parts, below || matches!(n.agg, Agg::Terms { mdc: Some(0), .. }) || matches!(n.agg, Agg::Hist { mdc: None | Some(0), .. })))
}

/// some histogram / range / composite node with sub-aggregations gets a matching document twice
fn dup_push_signature(nodes: &[Node], matching: &[&MDoc]) -> bool {
    nodes.iter().any(|n| {
        let here = !n.subs.is_empty() && matching.iter().any(|d| {
            let keys: Vec<i64> = match &n.agg {
                Agg::Hist { field, interval, offset, .. } => d[field.id()].iter().map(|v| (v - offset.unwrap_or(0)).div_euclid(*interval)).collect(),
                Agg::Range { field, ranges } => { let cuts = range_cuts(*field, ranges); d[field.id()].iter().map(|v| cuts.iter().filter(|c| **c <= *v).count() as i64).collect() }
                _ => vec![],
            };
            let mut k2 = keys.clone(); k2.sort(); k2.dedup();
            k2.len() != keys.len()
        });
        here || dup_push_signature(&n.subs, matching)
    })
}

/// a terms aggregation with `missing` that has sub-aggregations
fn terms_missing_with_subs(nodes: &[Node]) -> bool {
    nodes.iter().any(|n| (matches!(n.agg, Agg::Terms { missing: Some(_), .. }) && !n.subs.is_empty()) || terms_missing_with_subs(&n.subs))
}

fn find_node<'a>(nodes: &'a [Node], name: &str) -> Option<&'a Node> {
    for n in nodes { if n.name == name { return Some(n); } if let Some(x) = find_node(&n.subs, name) { return Some(x); } }
    None
}

/// the failing node is a metric with `missing` and one of its ancestors is a terms aggregation with `missing`
fn metric_under_terms_missing(nodes: &[Node], whr: &str) -> bool {
    let names: Vec<&str> = whr.split('>').filter(|s| s.starts_with('a')).collect();
    let last = match names.last() { Some(l) => *l, None => return false };
    let is_metric = matches!(find_node(nodes, last).map(|n| &n.agg), Some(Agg::Metric { missing: Some(_), .. }));
    is_metric && names[..names.len() - 1].iter().any(|a| matches!(find_node(nodes, a).map(|n| &n.agg), Some(Agg::Terms { missing: Some(_), .. })))
}

/// the failing node is a terms aggregation ordered by a metric child that has the absent-column signature
fn sub_order_missing_signature(nodes: &[Node], docs: &[MDoc], parts: &[Vec<usize>], whr: &str) -> bool {
    let names: Vec<&str> = whr.split('>').filter(|s| s.starts_with('a')).collect();
    names.iter().any(|a| match find_node(nodes, a) {
        Some(n) => match &n.opt.sub_order { Some((target, _, _)) => metric_missing_signature(nodes, docs, parts, target), None => false },
        None => false,
    })
}

/// metrics that carry the signature of a known finding other than the one being tested
fn suspicious_metrics(nodes: &[Node], docs: &[MDoc], parts: &[Vec<usize>], below_terms_missing: bool) -> Vec<String> {
    let mut out = vec![];
    for n in nodes {
        if let Agg::Metric { missing: Some(_), .. } = &n.agg {
            if below_terms_missing || metric_missing_signature(std::slice::from_ref(n), docs, parts, &n.name) { out.push(n.name.clone()); }
        }
        out.extend(suspicious_metrics(&n.subs, docs, parts, below_terms_missing || matches!(n.agg, Agg::Terms { missing: Some(_), .. })));
    }
    out
}

/// the request has a composite aggregation below another bucket aggregation
fn nested_composite(nodes: &[Node], below_bucket: bool) -> bool {
    nodes.iter().any(|n| (below_bucket && matches!(n.agg, Agg::Composite { .. })) || nested_composite(&n.subs, below_bucket || !matches!(n.agg, Agg::Metric { .. })))
}

fn range_absent_column_signature(nodes: &[Node], docs: &[MDoc], parts: &[Vec<usize>]) -> bool {
    nodes.iter().any(|n| {
        let here = match &n.agg {
            Agg::Range { field, ranges } => {
                let bad = ranges.iter().any(|(a, b, _)| [a, b].iter().any(|x| x.map(|v| v <= 0 || (*field == Fd::Fl && v % 4 != 0)).unwrap_or(false)));
                bad && parts.iter().any(|p| !p.is_empty() && p.iter().all(|&i| docs[i][field.id()].is_empty()))
            }
            _ => false,
        };
        here || range_absent_column_signature(&n.subs, docs, parts)
    })
}

pub fn all_terms_fn(docs: &[MDoc]) -> impl Fn(Fd) -> Vec<i64> + '_ {
    move |f: Fd| { let s: BTreeSet<i64> = docs.iter().flat_map(|d| d[f.id()].clone()).collect(); s.into_iter().collect() }
}

/// one (corpus, request, query) evaluated on every segmentation
pub fn check_request(ctx: &mut Ctx, rng: &mut Rng, corpus: &Corpus, nodes: &[Node], q: Q) {
    let c = CaseIn { docs: &corpus.docs, nodes, q };
    let req_json = nodes_to_json(nodes);
    let aggs: Aggregations = match serde_json::from_value(req_json.clone()) {
        Ok(a) => a,
        Err(e) => { ctx.report.violation("oracle", "C14:request-grammar-rejected", format!("generated request does not parse: {e}"), case_json(&c, &[], "final")); return; }
    };
    let matching: Vec<&MDoc> = corpus.docs.iter().filter(|d| q.matches(d)).collect();
    let specs = make_specs(nodes, &matching, &corpus.docs);
    let srs = specs.base.clone();
    let srs_pv = specs.alts[0].clone();
    ctx.report.count(&format!("query:{}", match q { Q::All => "all", Q::Sel(_) => "term-sel", Q::Cat(_) => "term-cat" }));
    ctx.report.count(&format!("depth:{}", depth_of(nodes)));
    count_kinds(ctx, nodes);

    // model: Lean evalAgg = direct evaluator (exact text)
    let modelled = lean_modelled(nodes);
    let ranks = Ranks::new(&corpus.docs, nodes);
    let matching_ids: Vec<usize> = (0..corpus.docs.len()).filter(|&i| q.matches(&corpus.docs[i])).collect();
    if modelled {
        let line = format!("C14 spec {} {}", nodes_to_lean(nodes, false, &ranks), parts_to_lean(&corpus.docs, &[matching_ids.clone()], &ranks));
        let m = ctx.model.ask(&line);
        let mine = srs_to_lean(&srs, &ranks);
        // and the per-value specification (what the mechanism computes for every input)
        let mpv = ctx.model.ask(&format!("C14 specpv {} {}", nodes_to_lean(nodes, false, &ranks), parts_to_lean(&corpus.docs, &[matching_ids.clone()], &ranks)));
        let minepv = srs_to_lean(&srs_pv, &ranks);
        ctx.report.count("model:evalAggPV-compared");
        if mpv != minepv {
            ctx.report.violation("model", "C14:lean-evalAggPV-differs-from-harness-evaluator", format!("lean {} vs harness {}", &mpv[..mpv.len().min(300)], &minepv[..minepv.len().min(300)]), case_json(&c, &[matching_ids.clone()], "spec"));
        }
        if m != mine {
            ctx.report.violation("model", "C14:lean-evalAgg-differs-from-harness-evaluator", format!("lean {} vs harness {}", &m[..m.len().min(300)], &mine[..mine.len().min(300)]), case_json(&c, &[matching_ids.clone()], "spec"));
        }
    }

    // model: the Lean normalisation of range requests (extend_validate_ranges) = the cut points the
    // harness evaluates with (which are compared with the real buckets' from / to / key)
    fn range_nodes<'a>(nodes: &'a [Node], out: &mut Vec<&'a Node>) { for n in nodes { if matches!(n.agg, Agg::Range { .. }) { out.push(n); } range_nodes(&n.subs, out); } }
    let mut rnodes = vec![];
    range_nodes(nodes, &mut rnodes);
    for n in rnodes {
        if let Agg::Range { field, ranges } = &n.agg {
            let o = |x: Option<i64>| x.map(|v| v.to_string()).unwrap_or("_".into());
            let enc: Vec<String> = ranges.iter().map(|(a, b, _)| {
                let a = match a { Some(a) if *field == Fd::U && *a <= 0 => None, x => *x };
                format!("{}:{}", o(a), o(*b))
            }).collect();
            let m = ctx.model.ask(&format!("C14 normranges {}", enc.join(";")));
            let cuts = range_cuts(*field, ranges);
            let mine = if cuts.is_empty() { "-".to_string() } else { cuts.iter().map(|c| c.to_string()).collect::<Vec<_>>().join(",") };
            ctx.report.count("model:range-normalisation-compared");
            if m != mine {
                ctx.report.violation("model", "C14:lean-range-normalisation-differs", format!("lean {m} vs harness {mine}"), case_json(&c_in(&corpus.docs, nodes, q), &[], "spec"));
            }
        }
    }

    // model: the Lean extended_stats accumulator (Welford + Chan over exact rationals, sigma carried
    // in the fruit) on the values of every segment = the exact count / Σv / Σv² / M2 and the request's sigma
    for (n, sr) in nodes.iter().zip(srs.iter()) {
        if let (Agg::Metric { kind: MK::ExtStats, field, missing, .. }, SR::Metric { count, sum, sumsq, .. }) = (&n.agg, sr) {
            if field.is_str() { continue; }
            let parts = &corpus.segs[corpus.segs.len() - 1].0;
            let enc: Vec<String> = parts.iter().map(|p| {
                let vs: Vec<String> = p.iter().filter(|&&i| q.matches(&corpus.docs[i])).flat_map(|&i| super::spec::metric_vals(*field, *missing, &corpus.docs[i])).map(|v| v.to_string()).collect();
                if vs.is_empty() { "-".to_string() } else { vs.join(",") }
            }).collect();
            let s4 = n.opt.sigma4.unwrap_or(8);
            let m = ctx.model.ask(&format!("C14 extstats {s4} {}", enc.join("|")));
            let frac = |num: i128, den: i128| -> String {
                fn gcd(a: i128, b: i128) -> i128 { if b == 0 { a.abs() } else { gcd(b, a % b) } }
                let g = gcd(num, den).max(1);
                let (mut a, mut b) = (num / g, den / g);
                if b < 0 { a = -a; b = -b; }
                if b == 1 { a.to_string() } else { format!("{a}/{b}") }
            };
            let c = *count as i128;
            let m2 = if c == 0 { "0".to_string() } else { frac(c * *sumsq - *sum * *sum, c) };
            let sigma = if c == 0 { "2".to_string() } else { frac(s4 as i128, 4) };
            let mine = format!("{count} {sum} {sumsq} {m2} {sigma}");
            ctx.report.count("model:extstats-accumulator-compared");
            if m != mine {
                ctx.report.violation("model", "C14:lean-extstats-accumulator-differs", format!("lean {m} vs exact {mine}"), case_json(&c_in(&corpus.docs, nodes, q), parts, "final"));
            }
        }
    }

    // (a) every segmentation against the direct computation, (b) all of them identical
    let mut finals: Vec<(String, Vec<CR>, Vec<Vec<usize>>)> = vec![];
    for (si, (parts, index)) in corpus.segs.iter().enumerate() {
        let out = search_final(index, q, &aggs, None, None);
        let nsegs = parts.iter().filter(|p| !p.is_empty()).count();
        let canon_text = format!("{}|{:?}|{:?}|{}", req_json, q, parts, corpus.docs.len());
        let nontrivial = matching.len() >= 2 && (nsegs >= 2 || si == 0) && (has_bucket(nodes) || depth_of(nodes) >= 1);
        ctx.report.case(&canon_text, nontrivial && nsegs >= 2);
        ctx.report.count(&format!("segments:{}", nsegs.min(6)));
        if let Some(crs) = judge_real(ctx, &c, parts, &out, &specs, &format!("searcher.search over {nsegs} segment(s)")) {
            // model: Lean merge model = real on keys / counts / sum_other / error bound
            if modelled && si > 0 && (si == 1 || rng.chance(1, 3)) {
                let mut mt = vec![];
                may_truncate(nodes, &corpus.docs, parts, q, &mut mt);
                let deterministic = (mt.is_empty() || !has_count_ordered_terms(nodes)) && specs.alts[1] == specs.base && no_count_cut(&specs.base);
                if deterministic {
                    let mparts: Vec<Vec<usize>> = parts.iter().filter(|p| !p.is_empty()).map(|p| p.iter().cloned().filter(|&i| q.matches(&corpus.docs[i])).collect()).collect();
                    let line = format!("C14 merged {} {}", nodes_to_lean(nodes, true, &ranks), parts_to_lean(&corpus.docs, &mparts, &ranks));
                    let m = if mparts.is_empty() { ctx.model.ask(&format!("C14 whole {} -", nodes_to_lean(nodes, true, &ranks))) } else { ctx.model.ask(&line) };
                    let mut crs2 = crs.clone();
                    normalise_ties(nodes, &mut crs2);
                    let mine = cr_counts_lean(nodes, &crs2, &ranks);
                    ctx.report.count("model:merged-compared");
                    // a single top-level composite: the model with per-segment eviction gives the same page
                    if nodes.len() == 1 && matches!(nodes[0].agg, Agg::Composite { .. }) && !mparts.is_empty() {
                        let mt = ctx.model.ask(&format!("C14 mergedtrim {} {}", nodes_to_lean(nodes, true, &ranks), parts_to_lean(&corpus.docs, &mparts, &ranks)));
                        ctx.report.count("model:composite-eviction-compared");
                        if mt != m {
                            ctx.report.violation("model", "C14:lean-composite-eviction-visible", format!("with eviction {} vs without {}", &mt[..mt.len().min(300)], &m[..m.len().min(300)]), case_json(&c, parts, "final"));
                        }
                    }
                    // a composite anywhere in the request: eviction at every composite node of every segment is invisible
                    if has_composite(nodes) && !mparts.is_empty() {
                        let rq = nodes_to_lean(nodes, true, &ranks);
                        let ev = ctx.model.ask(&format!("C14 mergedevict {} {}", rq, parts_to_lean(&corpus.docs, &mparts, &ranks)));
                        let all: Vec<Vec<usize>> = vec![mparts.iter().flatten().cloned().collect()];
                        let wh = ctx.model.ask(&format!("C14 whole {} {}", rq, parts_to_lean(&corpus.docs, &all, &ranks)));
                        ctx.report.count("model:composite-eviction-anywhere-compared");
                        if ev != wh {
                            ctx.report.violation("model", "C14:lean-nested-composite-eviction-visible", format!("evicted {} vs whole {}", &ev[..ev.len().min(300)], &wh[..wh.len().min(300)]), case_json(&c, parts, "final"));
                        }
                        // no terms node can be truncated: the complete segment model (cut + eviction) is exact
                        let fu = ctx.model.ask(&format!("C14 mergedfull {} {}", rq, parts_to_lean(&corpus.docs, &mparts, &ranks)));
                        if mt.is_empty() {
                            ctx.report.count("model:full-segment-model-compared");
                            if fu != wh {
                                ctx.report.violation("model", "C14:lean-full-segment-model-not-exact", format!("full {} vs whole {}", &fu[..fu.len().min(300)], &wh[..wh.len().min(300)]), case_json(&c, parts, "final"));
                            }
                        }
                        // C14_full_model_eq_cut_model: eviction is invisible on top of any terms truncation
                        ctx.report.count("model:full-model-vs-cut-model-compared");
                        if fu != m {
                            ctx.report.violation("model", "C14:lean-full-model-differs-from-cut-model", format!("full {} vs cut-only {}", &fu[..fu.len().min(300)], &m[..m.len().min(300)]), case_json(&c, parts, "final"));
                        }
                        // the complete segment model (cut + eviction) = the real result, truncated or not
                        if m == mine && srs == srs_pv && !corpus.docs.is_empty() {
                            ctx.report.count("model:full-segment-model-vs-real-compared");
                            if fu != mine {
                                ctx.report.violation("model", "C14:lean-full-segment-model-differs-from-real", format!("lean {} vs real {}", &fu[..fu.len().min(300)], &mine[..mine.len().min(300)]), case_json(&c, parts, "final"));
                            }
                        }
                    }
                    // a single top-level terms ordered by _key (ascending or descending): exact under truncation (Lean decides applicability)
                    if nodes.iter().any(|n| matches!(n.agg, Agg::Terms { .. } | Agg::Filter { .. })) && !mparts.is_empty() {
                        let ka = ctx.model.ask(&format!("C14 keyasc {} {}", nodes_to_lean(nodes, true, &ranks), parts_to_lean(&corpus.docs, &mparts, &ranks)));
                        if ka == "same" {
                            ctx.report.count("model:terms-key-order-exact-compared");
                        } else if ka != "n/a" {
                            ctx.report.violation("model", "C14:lean-terms-key-order-not-exact", ka[..ka.len().min(400)].to_string(), case_json(&c, parts, "final"));
                        }
                    }
                    if m != mine && srs == srs_pv && !corpus.docs.is_empty() {
                        ctx.report.violation("model", "C14:lean-merge-model-differs-from-real", format!("lean {} vs real {}", &m[..m.len().min(300)], &mine[..mine.len().min(300)]), case_json(&c, parts, "final"));
                    }
                }
            }
            finals.push((format!("{nsegs} segments"), crs, parts.clone()));
        }
    }
    // separate indexes: distributed collector, merge_fruits in random schedules, postcard
    let (sparts, sidx) = &corpus.split;
    let mut fruits = vec![];
    let mut fruit_err = None;
    for idx in sidx {
        match search_fruit(idx, q, &aggs) { Ok(f) => fruits.push(f), Err(e) => fruit_err = Some(e) }
    }
    if let Some(e) = fruit_err {
        let matching_docs: Vec<&MDoc> = corpus.docs.iter().filter(|d| q.matches(d)).collect();
        let dup = e.contains("fetch_block requires docs sorted") && (specs.alts[0] != specs.base || dup_push_signature(nodes, &matching_docs));
        let absent = e.contains("Overlapping ranges") && range_absent_column_signature(nodes, &corpus.docs, sparts);
        let memu = e.contains("composite/collector.rs") && e.contains("subtract with overflow");
        let unsorted = e.contains("fetch_block requires docs sorted") && !dup && terms_missing_with_subs(nodes);
        let comp = e.contains("composite/collector.rs") && e.contains("index out of bounds") && nested_composite(nodes, false);
        ctx.report.violation("oracle", if memu { "C14:composite-memory-accounting-underflow" } else if unsorted { "C14:terms-missing-passes-documents-out-of-order" } else if comp { "C14:composite-sub-aggregation-panics-on-unvisited-parent-bucket" } else if dup { "C14:histogram-range-doc-count-counts-values" } else if absent { "C14:metric-missing-cast-to-u64-in-segment-without-column" } else { "C14:valid-request-rejected" }, format!("DistributedAggregationCollector failed: {e}"), case_json(&c, sparts, "distributed"));
    } else {
        for round in 0..3 {
            let serialise = round > 0;
            let how = format!("{} separate indexes, merge_fruits schedule {round}{}", sidx.len(), if serialise { " with postcard round trips" } else { "" });
            let mut r2 = rng.fork();
            match merge_schedule(&mut r2, fruits.clone(), serialise) {
                Err(e) => ctx.report.violation("oracle", if e.contains("postcard") { "C14:postcard-roundtrip-fails" } else { "C14:merge-fruits-fails" }, format!("{how}: {e}"), case_json(&c, sparts, "distributed")),
                Ok(None) => {}
                Ok(Some(f)) => {
                    ctx.report.traces_validated_against_impl += 1;
                    ctx.report.count(if serialise { "merge:schedule-with-postcard" } else { "merge:schedule" });
                    let out = finalise(f, &aggs);
                    if let Some(crs) = judge_real(ctx, &c, sparts, &out, &specs, &how) {
                        finals.push((how, crs, sparts.clone()));
                    }
                }
            }
        }
    }
    // (b) identical final results
    let mut normed: Vec<Vec<CR>> = finals.iter().map(|f| { let mut x = f.1.clone(); normalise_ties(nodes, &mut x); x }).collect();
    let mut mt_any = vec![];
    for f in &finals { may_truncate(nodes, &corpus.docs, &f.2, q, &mut mt_any); }
    if mt_any.is_empty() && normed.len() > 1 {
        let first = normed.remove(0);
        for (i, other) in normed.iter().enumerate() {
            if let Err(e) = same_result(&first, other) {
                let key = if any_metric_missing_signature(nodes, &corpus.docs, &finals[i + 1].2) || any_metric_missing_signature(nodes, &corpus.docs, &finals[0].2) { "C14:metric-missing-cast-to-u64-in-segment-without-column" }
                    else if e.contains("composite") && composite_below_mdc0_terms(nodes, false) { "C14:composite-lost-when-merged-into-empty-from-req" }
                    else if e.contains("top_hits") && matching.len() >= 2048 { "C14:top-hits-lost-after-intermediate-flush" }
                    else if specs.alts[0] != specs.base { "C14:histogram-range-doc-count-counts-values" }
                    else if has_count_ordered_terms(nodes) && (e.contains("buckets") || e.contains("sum_other")) && !no_count_cut(&specs.base) { "C14:terms-count-ties-partition-dependent" } else { "C14:result-depends-on-partition" };
                ctx.report.violation("oracle", key, format!("same documents, {} vs {}: {e}", finals[0].0, finals[i + 1].0), case_json(&c, &finals[i + 1].2, "partition"));
                break;
            }
        }
        ctx.report.count("partition:compared");
    }
    if ctx.report.samples.len() < 4 && depth_of(nodes) >= 2 && matching.len() > 3 {
        ctx.report.sample(json!({"docs": corpus.docs.len(), "matching": matching.len(), "request": req_json, "query": format!("{q:?}"),
            "segmentations": corpus.segs.iter().map(|s| s.0.iter().map(|p| p.len()).collect::<Vec<_>>()).collect::<Vec<_>>(),
            "direct_result_lean_text": srs_to_lean(&srs, &ranks).chars().take(400).collect::<String>()}));
    }
}

fn count_kinds(ctx: &mut Ctx, nodes: &[Node]) {
    for n in nodes {
        let k = match &n.agg {
            Agg::Metric { kind, field, missing, .. } => format!("agg:{kind:?}:{}{}", field.name(), if missing.is_some() { "+missing" } else { "" }).to_lowercase(),
            Agg::Terms { field, order, seg, mdc, missing, .. } => format!("agg:terms:{}:{:?}{}{}{}", field.name(), order.clone().unwrap_or(TOrd::CountDesc), if seg.is_some() { "+segsize" } else { "" }, if *mdc == Some(0) { "+mdc0" } else { "" }, if missing.is_some() { "+missing" } else { "" }).to_lowercase(),
            Agg::Hist { field, date_hist, hard, ext, offset, mdc, .. } => format!("agg:{}:{}{}{}{}{}", if *date_hist { "date_histogram" } else { "histogram" }, field.name(), if hard.is_some() { "+hard" } else { "" }, if ext.is_some() { "+ext" } else { "" }, if offset.is_some() { "+offset" } else { "" }, if mdc.unwrap_or(0) > 0 { "+mdc" } else { "" }),
            Agg::Range { field, .. } => format!("agg:range:{}", field.name()),
            Agg::Filter { field, .. } => format!("agg:filter:{}", field.name()),
            Agg::Composite { sources, after, .. } => format!("agg:composite{}:{}", if after.is_some() { "+after" } else { "" }, sources.iter().map(|c| format!("{}{}", c.field.name(), if c.interval.is_some() { "-hist" } else { "" })).collect::<Vec<_>>().join("+")),
        };
        ctx.report.count(&k);
        if n.opt.keyed && matches!(n.agg, Agg::Hist { .. } | Agg::Range { .. }) { ctx.report.count("opt:keyed"); }
        if n.opt.include.is_some() { ctx.report.count("opt:terms-include"); }
        if n.opt.exclude.is_some() { ctx.report.count("opt:terms-exclude"); }
        if n.opt.sub_order.is_some() { ctx.report.count("opt:terms-order-by-sub-aggregation"); }
        count_kinds(ctx, &n.subs);
    }
}

/// (c) limits: Err or the complete result, never a shortened one
pub fn check_limits(ctx: &mut Ctx, rng: &mut Rng, corpus: &Corpus, nodes: &[Node], q: Q) {
    let c = CaseIn { docs: &corpus.docs, nodes, q };
    let aggs: Aggregations = match serde_json::from_value(nodes_to_json(nodes)) { Ok(a) => a, Err(_) => return };
    let (parts, index) = &corpus.segs[rng.usize_below(corpus.segs.len())];
    let full = match search_final(index, q, &aggs, None, None) { Out::Ok(v) => v, _ => return };
    let full_cr = match canon(nodes, &full) { Ok(c) => c, Err(_) => return };
    let matching: Vec<&MDoc> = corpus.docs.iter().filter(|d| q.matches(d)).collect();
    let at = all_terms_fn(&corpus.docs);
    let srs = spec_eval(nodes, &matching, &at, Sem { per_value: false, rendered_key_order: false }, false);
    let srs_pv = spec_eval(nodes, &matching, &at, Sem { per_value: true, rendered_key_order: false }, false);
    let nb = count_cr_buckets(&full_cr);
    let limits: Vec<u32> = vec![0, 1, nb.saturating_sub(1) as u32, nb as u32, nb as u32 + 1, rng.below(nb + 2) as u32];
    for l in limits {
        let out = search_final(index, q, &aggs, None, Some(l));
        ctx.report.case(&format!("limit|{l}|{}|{:?}|{:?}", nodes_to_json(nodes), q, parts), nb > 0);
        match &out {
            Out::Err(e) if e == "bucket-limit" => {
                ctx.report.count("limit:bucket-err");
                if nb <= l as u64 {
                    ctx.report.violation("oracle", "C14:bucket-limit-spurious-error", format!("bucket limit {l} but the result has only {nb} buckets"), case_json(&c, parts, "limit"));
                }
            }
            Out::Ok(v) => {
                ctx.report.count("limit:bucket-ok");
                let same = canon(nodes, v).map(|cr| same_result(&cr, &full_cr).is_ok()).unwrap_or(false);
                if nb > l as u64 || !same {
                    ctx.report.violation("oracle", "C14:bucket-limit-not-enforced", format!("bucket limit {l}, full result has {nb} buckets, got Ok (identical to the full result: {same})"), case_json(&c, parts, "limit"));
                }
            }
            other => ctx.report.violation("oracle", "C14:limit-unexpected-outcome", format!("bucket limit {l}: {other:?}"), case_json(&c, parts, "limit")),
        }
        // the Lean guard model agrees on ok / err
        let ranks = Ranks::new(&corpus.docs, nodes);
        let one_part: Vec<Vec<usize>> = vec![(0..corpus.docs.len()).collect()];
        if lean_modelled(nodes) && srs == srs_pv && !spec_has_ties_or_trunc(nodes, &corpus.docs, parts, q) && !spec_has_ties_or_trunc(nodes, &corpus.docs, &one_part, q) {
            let mparts: Vec<Vec<usize>> = vec![(0..corpus.docs.len()).filter(|&i| q.matches(&corpus.docs[i])).collect()];
            let m = ctx.model.ask(&format!("C14 limit {l} {} {}", nodes_to_lean(nodes, true, &ranks), parts_to_lean(&corpus.docs, &mparts, &ranks)));
            let model_err = m.starts_with("err");
            let real_err = matches!(out, Out::Err(_));
            // the model reports an uninstantiated range with all its (empty) buckets: compare
            // only when both conventions give the same number of buckets
            let spec_nb = bucket_count(&srs);
            if spec_nb == nb && super::spec::bucket_count_all(&srs) == nb && model_err != real_err {
                ctx.report.violation("model", "C14:lean-limit-guard-differs", format!("bucket limit {l}: lean {} vs real {:?}", &m[..m.len().min(80)], real_err), case_json(&c, parts, "limit"));
            }
        }
    }
    for mem in [1u64, 200, 5_000, 100_000] {
        let out = search_final(index, q, &aggs, Some(mem), None);
        ctx.report.case(&format!("mem|{mem}|{}|{:?}|{:?}", nodes_to_json(nodes), q, parts), true);
        match &out {
            Out::Err(e) if e == "memory-limit" => ctx.report.count("limit:memory-err"),
            Out::Ok(v) => {
                ctx.report.count("limit:memory-ok");
                if !canon(nodes, v).map(|cr| same_result(&cr, &full_cr).is_ok()).unwrap_or(false) {
                    ctx.report.violation("oracle", "C14:memory-limit-shortened-result", format!("memory limit {mem}: Ok but different from the unlimited result"), case_json(&c, parts, "limit"));
                }
            }
            other => ctx.report.violation("oracle", "C14:limit-unexpected-outcome", format!("memory limit {mem}: {other:?}"), case_json(&c, parts, "limit")),
        }
    }
}

fn spec_has_ties_or_trunc(nodes: &[Node], docs: &[MDoc], parts: &[Vec<usize>], q: Q) -> bool {
    let mut mt = vec![];
    may_truncate(nodes, docs, parts, q, &mut mt);
    !mt.is_empty()
}

fn count_cr_buckets(crs: &[CR]) -> u64 {
    crs.iter().map(|c| match c {
        CR::Terms { buckets, .. } => buckets.iter().map(|b| 1 + count_cr_buckets(&b.2)).sum(),
        CR::List(bs) => bs.iter().map(|b| 1 + count_cr_buckets(&b.2)).sum(),
        CR::Filter(_, s) => count_cr_buckets(s),
        CR::Comp(bs) => bs.iter().map(|b| 1 + count_cr_buckets(&b.2)).sum(),
        _ => 0,
    }).sum()
}

/// run one recorded (documents, request, query, partition) and return the violations it raises
fn run_case(ctx: &mut Ctx, docs: &[MDoc], nodes: &[Node], q: Q, parts: &[Vec<usize>], limits: bool) -> Vec<crate::report::Violation> {
    let saved = std::mem::replace(&mut ctx.report, crate::report::Report::new("C14", "shrink", 0));
    let mut rng = Rng::new(7);
    let n = docs.len();
    let all: Vec<usize> = (0..n).collect();
    let parts: Vec<Vec<usize>> = if parts.is_empty() { vec![all.clone()] } else { parts.to_vec() };
    let segs = vec![(vec![all.clone()], build_index(docs, &[all])), (parts.clone(), build_index(docs, &parts))];
    let idxs = parts.iter().map(|p| build_index(docs, &[p.clone()])).collect();
    let corpus = Corpus { docs: docs.to_vec(), segs, split: (parts, idxs) };
    check_request(ctx, &mut rng, &corpus, nodes, q);
    if limits { check_limits(ctx, &mut rng, &corpus, nodes, q); }
    let scratch = std::mem::replace(&mut ctx.report, saved);
    scratch.violations
}

fn remove_docs(docs: &[MDoc], parts: &[Vec<usize>], drop: &dyn Fn(usize) -> bool) -> (Vec<MDoc>, Vec<Vec<usize>>) {
    let mut map = vec![usize::MAX; docs.len()];
    let mut nd = vec![];
    for i in 0..docs.len() { if !drop(i) { map[i] = nd.len(); nd.push(docs[i].clone()); } }
    let np = parts.iter().map(|p| p.iter().filter(|&&i| map[i] != usize::MAX).map(|&i| map[i]).collect()).collect();
    (nd, np)
}

/// all requests obtained by deleting one node or by emptying / hoisting one node's sub-aggregations
fn smaller_requests(nodes: &[Node]) -> Vec<Vec<Node>> {
    let mut out = vec![];
    for i in 0..nodes.len() {
        if nodes.len() > 1 { let mut v = nodes.to_vec(); v.remove(i); out.push(v); }
        if !nodes[i].subs.is_empty() {
            out.push(nodes[i].subs.clone());
            let mut v = nodes.to_vec(); v[i].subs = vec![]; out.push(v);
            for s in smaller_requests(&nodes[i].subs) { let mut v = nodes.to_vec(); v[i].subs = s; out.push(v); }
        }
    }
    out
}

/// drop an order-by-sub-aggregation whose target is no longer a child
fn sanitize(nodes: &mut [Node]) {
    for n in nodes.iter_mut() {
        if let Some((name, _, _)) = &n.opt.sub_order {
            if !n.subs.iter().any(|c| &c.name == name) { n.opt.sub_order = None; }
        }
        sanitize(&mut n.subs);
    }
}

/// delta debugging over documents, values and request nodes, keeping a violation with `key`
fn shrink(ctx: &mut Ctx, case: &Value, key: &str) -> Option<(Value, String)> {
    let mut docs: Vec<MDoc> = serde_json::from_value(case["docs"].clone()).ok()?;
    let mut nodes: Vec<Node> = serde_json::from_value(case["nodes"].clone()).ok()?;
    let q: Q = serde_json::from_value(case["query"].clone()).ok()?;
    let mut parts: Vec<Vec<usize>> = serde_json::from_value(case["parts"].clone()).ok()?;
    let limits = case["kind"] == "limit";
    let mut trials = 0;
    let mut what = run_case(ctx, &docs, &nodes, q, &parts, limits).into_iter().find(|v| v.key == key)?.what;
    let mut progress = true;
    while progress && trials < 400 {
        progress = false;
        for mut cand in smaller_requests(&nodes) {
            sanitize(&mut cand);
            trials += 1;
            if let Some(v) = run_case(ctx, &docs, &cand, q, &parts, limits).into_iter().find(|v| v.key == key) { nodes = cand; what = v.what; progress = true; break; }
        }
        let mut chunk = (docs.len() + 1) / 2;
        while chunk >= 1 && !docs.is_empty() && trials < 400 {
            let mut start = 0;
            while start < docs.len() && trials < 400 {
                let (nd, np) = remove_docs(&docs, &parts, &|i| i >= start && i < start + chunk);
                trials += 1;
                if let Some(v) = run_case(ctx, &nd, &nodes, q, &np, limits).into_iter().find(|v| v.key == key) { docs = nd; parts = np; what = v.what; progress = true; } else { start += chunk; }
            }
            if chunk == 1 { break; }
            chunk = (chunk + 1) / 2;
        }
        // drop single field values
        for i in 0..docs.len() {
            for f in 0..NF {
                if f == Fd::Uid.id() || docs[i][f].is_empty() || trials >= 400 { continue; }
                let mut nd = docs.clone();
                nd[i][f].pop();
                trials += 1;
                if let Some(v) = run_case(ctx, &nd, &nodes, q, &parts, limits).into_iter().find(|v| v.key == key) { docs = nd; what = v.what; progress = true; }
            }
        }
    }
    parts.retain(|p| !p.is_empty());
    let c = CaseIn { docs: &docs, nodes: &nodes, q };
    let mut cj = case_json(&c, &parts, case["kind"].as_str().unwrap_or("final"));
    cj["shrunk_in_trials"] = json!(trials);
    Some((cj, what))
}

/// replace the first violation of every key by a minimal one
fn shrink_violations(ctx: &mut Ctx) {
    // keys already recorded in KNOWN_FINDINGS.txt keep their generated witness (no need to
    // minimise them again on every run)
    let known = std::fs::read_to_string("KNOWN_FINDINGS.txt").unwrap_or_default();
    let mut seen: Vec<String> = known.lines().filter(|l| l.starts_with("known:")).filter_map(|l| l.split_whitespace().find_map(|t| t.strip_prefix("key=")).map(String::from)).collect();
    let limit = seen.len() + 6;
    for i in 0..ctx.report.violations.len() {
        let key = ctx.report.violations[i].key.clone();
        if seen.contains(&key) || seen.len() >= limit { continue; }
        seen.push(key.clone());
        let case = ctx.report.violations[i].case.clone();
        if case["docs"].as_array().map(|d| d.len()).unwrap_or(0) > 600 { continue; }
        if let Some((c, what)) = shrink(ctx, &case, &key) {
            ctx.report.violations[i].case = c;
            ctx.report.violations[i].what = format!("[minimised] {what}");
        }
    }
}

/// no histogram of the request spans more than 3000 positions over the corpus values and bounds
fn hist_width_ok(nodes: &[Node], docs: &[MDoc]) -> bool {
    nodes.iter().all(|n| {
        let ok = match &n.agg {
            Agg::Hist { field, interval, ext, mdc, .. } if mdc.unwrap_or(0) == 0 => {
                let mut lo = docs.iter().flat_map(|d| d[field.id()].iter().cloned()).min();
                let mut hi = docs.iter().flat_map(|d| d[field.id()].iter().cloned()).max();
                if let Some((a, b)) = ext { lo = Some(lo.map(|x| x.min(*a)).unwrap_or(*a)); hi = Some(hi.map(|x| x.max(*b)).unwrap_or(*b)); }
                match (lo, hi) { (Some(lo), Some(hi)) => (hi - lo) / interval <= 3000, _ => true }
            }
            _ => true,
        };
        ok && hist_width_ok(&n.subs, docs)
    })
}

/// hand-written corpus: 2100 documents so that the sub-aggregation buffer of a histogram is
/// flushed twice, the last batch touching only the first bucket
fn probe_tophits_flush(ctx: &mut Ctx) {
    let mut docs: Vec<MDoc> = vec![];
    for i in 0..2100usize {
        let mut d: MDoc = vec![vec![]; NF];
        d[Fd::U.id()] = vec![if i < 2000 { (i % 10) as i64 * 10 } else { 0 }];
        d[Fd::Uid.id()] = vec![i as i64];
        d[Fd::Sel.id()] = vec![0];
        docs.push(d);
    }
    let nodes = vec![Node { name: "a1".into(), agg: Agg::Hist { field: Fd::U, interval: 10, offset: None, mdc: Some(1), hard: None, ext: None, date_hist: false },
        subs: vec![Node { name: "a2".into(), agg: Agg::Metric { kind: MK::TopHits, field: Fd::Uid, missing: None, desc: true, k: 1 }, subs: vec![], opt: Opt::default() }], opt: Opt::default() }];
    let all: Vec<usize> = (0..docs.len()).collect();
    let halves = vec![(0..1000).collect::<Vec<usize>>(), (1000..2100).collect()];
    let segs = vec![(vec![all.clone()], build_index(&docs, &[all.clone()])), (halves.clone(), build_index(&docs, &halves))];
    let idxs = vec![build_index(&docs, &[all.clone()])];
    let corpus = Corpus { docs, segs, split: (vec![all], idxs) };
    let mut rng = Rng::new(1);
    ctx.report.count("probe:top-hits-two-flushes");
    check_request(ctx, &mut rng, &corpus, &nodes, Q::All);
}

/// hand-written corpus for the lost date flag: terms(min_doc_count 0) > histogram(date field),
/// the zero-count term of the first segment meets the same term with a date in the second
fn probe_date_flag(ctx: &mut Ctx) {
    let mut d0: MDoc = vec![vec![]; NF];
    d0[Fd::Kw.id()] = vec![1, 9];
    d0[Fd::Uid.id()] = vec![0];
    let mut d1: MDoc = vec![vec![]; NF];
    d1[Fd::Kw.id()] = vec![9];
    d1[Fd::D.id()] = vec![1_600_000_000_000];
    d1[Fd::Uid.id()] = vec![1];
    d1[Fd::Sel.id()] = vec![0];
    let docs = vec![d0, d1];
    let nodes = vec![Node { name: "a1".into(), agg: Agg::Terms { field: Fd::Kw, size: None, seg: None, mdc: Some(0), order: None, missing: None },
        subs: vec![Node { name: "a2".into(), agg: Agg::Hist { field: Fd::D, interval: 60_000, offset: None, mdc: Some(1), hard: None, ext: None, date_hist: false }, subs: vec![], opt: Opt::default() }], opt: Opt::default() }];
    let parts = vec![vec![0usize], vec![1usize]];
    let all = vec![0usize, 1];
    let segs = vec![(vec![all.clone()], build_index(&docs, &[all.clone()])), (parts.clone(), build_index(&docs, &parts))];
    let idxs = parts.iter().map(|p| build_index(&docs, &[p.clone()])).collect();
    let corpus = Corpus { docs, segs, split: (parts, idxs) };
    let mut rng = Rng::new(1);
    ctx.report.count("probe:date-flag-under-mdc0-terms");
    check_request(ctx, &mut rng, &corpus, &nodes, Q::Sel(0));
}

/// generated family: a PLAIN `histogram` (not `date_histogram`) on the date field — the request is
/// in milliseconds, the column in nanoseconds, `normalize_histogram_req` converts interval, offset
/// and BOTH kinds of bounds before anything reads them — with hard_bounds / extended_bounds /
/// offset / min_doc_count 0, 1, default, at top level and below a terms aggregation, over 1, 2 and
/// 3 segments that all hold dates (so that none of the recorded date-flag situations applies:
/// no absent column, no min_doc_count-0 terms parent, no gap-filling parent).  Single-valued
/// documents: the per-value counting finding cannot explain anything here.  Judged by the exact
/// direct evaluator like every generated request.
fn probe_plain_histogram_on_dates(ctx: &mut Ctx) {
    let base_ms = 1_600_000_000_000i64;
    let rounds = ctx.budget(3, 12);
    for round in 0..rounds {
        let mut rng = Rng::new(0xD47E_0000 + round);
        let n = 12 + rng.usize_below(20);
        let mut docs: Vec<MDoc> = vec![];
        for i in 0..n {
            let mut d: MDoc = vec![vec![]; NF];
            // whole seconds within ~2 minutes, a few repeated
            d[Fd::D.id()] = vec![base_ms + rng.below(120) as i64 * 1000];
            d[Fd::Kw.id()] = vec![kw_code_pub(rng.usize_below(3))];
            d[Fd::Uid.id()] = vec![i as i64];
            d[Fd::Sel.id()] = vec![0];
            docs.push(d);
        }
        let all: Vec<usize> = (0..n).collect();
        let two = vec![all[..n / 2].to_vec(), all[n / 2..].to_vec()];
        let three = vec![all.iter().cloned().filter(|i| i % 3 == 0).collect::<Vec<_>>(), all.iter().cloned().filter(|i| i % 3 == 1).collect(), all.iter().cloned().filter(|i| i % 3 == 2).collect()];
        let corpus = mk_corpus(docs, vec![vec![all.clone()], two, three]);
        let reqs = ctx.budget(8, 16);
        for _ in 0..reqs {
            let interval = *rng.pick(&[1000i64, 2000, 5000, 10_000, 60_000]);
            let lo = base_ms + rng.below(60) as i64 * 1000 - *rng.pick(&[0i64, 300, 500]);
            let hi = lo + 1000 + rng.below(70) as i64 * 1000 + *rng.pick(&[0i64, 250, 999]);
            let hard = if rng.chance(3, 4) { Some((lo, hi)) } else { None };
            let mdc = match rng.below(3) { 0 => Some(0u64), 1 => Some(1), _ => None };
            let ext = if mdc.unwrap_or(0) == 0 && rng.chance(1, 2) {
                let (a, b) = match hard { Some((l, h)) => (l + rng.below(((h - l) / 2) as u64 + 1) as i64, h - rng.below(((h - l) / 2) as u64 + 1) as i64), None => (base_ms - 20_000 + rng.below(40) as i64 * 1000, base_ms + 100_000 + rng.below(60) as i64 * 1000) };
                if a <= b { Some((a, b)) } else { None }
            } else { None };
            let offset = if rng.chance(1, 2) { Some(((rng.below(interval as u64 * 2 + 1) as i64 - interval) / 500 * 500) % interval) } else { None };
            let hist = Node { name: "h".into(), agg: Agg::Hist { field: Fd::D, interval, offset, mdc, hard, ext, date_hist: false }, subs: vec![], opt: Opt::default() };
            let nodes = if rng.chance(1, 2) { vec![hist] } else {
                vec![Node { name: "t".into(), agg: Agg::Terms { field: Fd::Kw, size: Some(10), seg: None, mdc: None, order: Some(TOrd::KeyAsc), missing: None }, subs: vec![hist], opt: Opt::default() }]
            };
            ctx.report.count(&format!("probe:plain-histogram-on-date-field{}{}{}{}", if hard.is_some() { "+hard" } else { "" }, if ext.is_some() { "+ext" } else { "" }, if offset.is_some() { "+offset" } else { "" }, if nodes[0].name == "t" { ":below-terms" } else { "" }));
            check_request(ctx, &mut rng, &corpus, &nodes, Q::All);
        }
    }
}

fn mk_corpus(docs: Vec<MDoc>, partitions: Vec<Vec<Vec<usize>>>) -> Corpus {
    let segs = partitions.iter().map(|p| (p.clone(), build_index(&docs, p))).collect();
    let split_parts = partitions.last().cloned().unwrap_or_default();
    let idxs = split_parts.iter().map(|p| build_index(&docs, &[p.clone()])).collect();
    Corpus { docs, segs, split: (split_parts, idxs) }
}

/// hand-written corpus: near-unique terms (300 distinct values of `u`, 240 once, 60 twice) with a
/// small `size`: every `_count` / `_key` order, one segment (exact) and two segments (bounds)
fn probe_near_unique_terms(ctx: &mut Ctx) {
    let mut docs: Vec<MDoc> = vec![];
    for i in 0..360usize {
        let mut d: MDoc = vec![vec![]; NF];
        d[Fd::U.id()] = vec![if i < 300 { i as i64 } else { (i - 300) as i64 * 5 }];
        d[Fd::Kw.id()] = vec![kw_code_pub(if i < 200 { i } else { (i * 7) % 200 })];
        d[Fd::Uid.id()] = vec![i as i64];
        d[Fd::Sel.id()] = vec![(i % 3) as i64];
        docs.push(d);
    }
    let all: Vec<usize> = (0..docs.len()).collect();
    let halves = vec![(0..150).collect::<Vec<usize>>(), (150..360).collect()];
    let corpus = mk_corpus(docs, vec![vec![all], halves]);
    let mut rng = Rng::new(2);
    let mut k = 0;
    for field in [Fd::U, Fd::Kw] {
        for order in [TOrd::CountAsc, TOrd::CountDesc, TOrd::KeyAsc, TOrd::KeyDesc] {
            for (size, seg) in [(Some(5u32), None), (Some(2), Some(7u32)), (None, Some(30))] {
                k += 1;
                let nodes = vec![Node { name: format!("a{k}"), agg: Agg::Terms { field, size, seg, mdc: None, order: Some(order.clone()), missing: None }, subs: vec![], opt: Opt::default() }];
                ctx.report.count("probe:near-unique-terms");
                check_request(ctx, &mut rng, &corpus, &nodes, if k % 2 == 0 { Q::All } else { Q::Sel(0) });
            }
        }
    }
}

/// hand-written corpus: extended_stats with a non-default sigma below terms(min_doc_count 0); the
/// zero-count placeholder bucket of one partition is merged with real buckets in both orders
fn probe_sigma_placeholder(ctx: &mut Ctx) {
    let mk = |kw: usize, sel: i64, u: Option<i64>, uid: i64| -> MDoc {
        let mut d: MDoc = vec![vec![]; NF];
        d[Fd::Kw.id()] = vec![kw_code_pub(kw)];
        d[Fd::Sel.id()] = vec![sel];
        if let Some(u) = u { d[Fd::U.id()] = vec![u]; }
        d[Fd::Uid.id()] = vec![uid];
        d
    };
    let docs = vec![mk(0, 1, Some(9), 0), mk(1, 0, Some(7), 1), mk(1, 0, Some(7), 2), mk(0, 0, Some(1), 3), mk(0, 0, Some(2), 4), mk(0, 0, Some(3), 5), mk(0, 0, Some(4), 6)];
    let a = vec![0usize, 1, 2];
    let b = vec![3usize, 4, 5, 6];
    let corpus = mk_corpus(docs, vec![vec![(0..7).collect()], vec![b.clone(), a.clone()], vec![a, b]]);
    let mut rng = Rng::new(3);
    for s4 in [12i64, 4, 1] {
        let mut ext = Node { name: "a2".into(), agg: Agg::Metric { kind: MK::ExtStats, field: Fd::U, missing: None, desc: false, k: 1 }, subs: vec![], opt: Opt::default() };
        ext.opt.sigma4 = Some(s4);
        let nodes = vec![Node { name: "a1".into(), agg: Agg::Terms { field: Fd::Kw, size: None, seg: None, mdc: Some(0), order: Some(TOrd::KeyAsc), missing: None }, subs: vec![ext], opt: Opt::default() }];
        ctx.report.count("probe:extended-stats-sigma-placeholder");
        check_request(ctx, &mut rng, &corpus, &nodes, Q::Sel(0));
    }
}

fn gen_query(rng: &mut Rng) -> Q {
    match rng.below(4) { 0 | 1 => Q::All, 2 => Q::Sel(rng.below(3)), _ => Q::Cat(rng.below(5) as i64) }
}

pub fn replay(ctx: &mut Ctx, case: &Value) {
    let docs: Vec<MDoc> = serde_json::from_value(case["docs"].clone()).unwrap_or_default();
    let nodes: Vec<Node> = serde_json::from_value(case["nodes"].clone()).unwrap_or_default();
    let q: Q = serde_json::from_value(case["query"].clone()).unwrap_or(Q::All);
    let parts: Vec<Vec<usize>> = serde_json::from_value(case["parts"].clone()).unwrap_or_default();
    let mut rng = Rng::new(ctx.seed);
    let n = docs.len();
    let all: Vec<usize> = (0..n).collect();
    let parts = if parts.is_empty() { vec![all.clone()] } else { parts };
    let segs = vec![(vec![all.clone()], build_index(&docs, &[all])), (parts.clone(), build_index(&docs, &parts))];
    let idxs = parts.iter().map(|p| build_index(&docs, &[p.clone()])).collect();
    let corpus = Corpus { docs, segs, split: (parts, idxs) };
    check_request(ctx, &mut rng, &corpus, &nodes, q);
    if case["kind"] == "limit" { check_limits(ctx, &mut rng, &corpus, &nodes, q); }
    // show what the code returns (one segment / the recorded partition) next to the direct result
    if let Ok(aggs) = serde_json::from_value::<Aggregations>(nodes_to_json(&nodes)) {
        for (parts, index) in &corpus.segs {
            let out = search_final(index, q, &aggs, None, None);
            ctx.report.notes.push(format!("replay: parts {:?}: {}", parts, match out { Out::Ok(v) => v.to_string().chars().take(3000).collect::<String>(), other => format!("{other:?}") }));
        }
    }
    ctx.report.notes.push("replay: re-ran the recorded (documents, request, query, partition)".into());
}

pub fn run(ctx: &mut Ctx) {
    ctx.report.rule = "case = (corpus, request tree, query, segmentation); non-trivial = at least 2 matching documents, \
        at least 2 segments and a bucket aggregation or depth >= 1; distinct by (request JSON, query, partition, corpus size)".into();
    ctx.report.correspondence_obligations = vec![
        "searcher.search(AggregationCollector) result = direct evaluation over the matching documents (counts, keys, min, max exact; sums 1e-9; sketches within documented error)".into(),
        "Lean evalAgg text = harness direct evaluator text (exact)".into(),
        "Lean evalAggPV text = harness per-value evaluator text (exact; the per-value evaluator is what the real result is attributed with for multi-valued documents)".into(),
        "Lean merge model (collectSeg / mergeFruits / finalize) = real keys, counts, sum_other_doc_count, doc_count_error_upper_bound".into(),
        "final result identical for every segmentation, for separate indexes merged in random schedules and through postcard".into(),
        "bucket / memory limits: Err or the complete result; Lean guard model agrees".into(),
        "Lean normRanges (extend_validate_ranges: sort, extend, reject overlaps, fill holes) = the cut points whose buckets are compared with the real from / to / key".into(),
        "Lean extended_stats accumulator (Welford + Chan over Rat, sigma in the fruit) = exact count, sum, sum of squares, M2 and the request's sigma (the real f64 result is compared with the same exact values)".into(),
    ];
    std::panic::set_hook(Box::new(|info| {
        if let Ok(mut s) = LAST_PANIC.lock() { *s = info.to_string().chars().take(300).collect(); }
        // a panic of the harness itself (relative source path) is not caught anywhere: show it
        if info.location().map(|l| !l.file().starts_with('/')).unwrap_or(true) { eprintln!("harness panic: {info}"); }
    }));
    if let Some(case) = ctx.replay.clone() {
        replay(ctx, &case);
        return;
    }
    // request defaults regenerated from the source (Gen/Agg.lean) = the harness' reading of them
    for (size, seg, mdc) in [(None, None, None), (Some(3u32), None, None), (Some(5), Some(2u32), Some(0u64)), (Some(1), Some(40), Some(2))] {
        let o = |x: Option<u64>| x.map(|v| v.to_string()).unwrap_or("_".into());
        let m = ctx.model.ask(&format!("C14 defaults {} {} {}", o(size.map(|x| x as u64)), o(seg.map(|x| x as u64)), o(mdc)));
        let (s, g, d, _) = terms_defaults(size, seg, mdc, &None);
        let mine = format!("{s} {g} {d} {}", tantivy::aggregation::DEFAULT_BUCKET_LIMIT);
        ctx.report.case(&format!("defaults|{size:?}|{seg:?}|{mdc:?}"), false);
        if m != mine {
            ctx.report.violation("model", "C14:request-defaults-differ", format!("lean (from Gen) {m} vs harness / DEFAULT_BUCKET_LIMIT {mine}"), json!({"kind": "defaults"}));
        }
    }
    probe_tophits_flush(ctx);
    probe_date_flag(ctx);
    probe_near_unique_terms(ctx);
    probe_sigma_placeholder(ctx);
    probe_plain_histogram_on_dates(ctx);
    let corpora = ctx.budget(60, 2000);
    let reqs_per = ctx.budget(7, 12);
    for ci in 0..corpora {
        let mut rng = ctx.rng.fork();
        let (docs, prof) = gen_corpus(&mut rng);
        ctx.report.count(&format!("corpus:docs:{}", match prof.n { 0 => "0", 1 => "1", 2 => "2", 3..=19 => "3-19", 20..=127 => "20-127", 128..=130 => "128-130", _ => "250+" }));
        ctx.report.count(&format!("corpus:kw-cardinality:{}", prof.kw_card));
        ctx.report.count(&format!("corpus:multi-valued-p{}", prof.multi));
        ctx.report.count(&format!("corpus:missing-p{}", prof.missing));
        ctx.report.count(if prof.deleted > 0 { "corpus:with-deleted-documents" } else { "corpus:no-deletes" });
        if prof.near_unique { ctx.report.count("corpus:near-unique-terms"); }
        let nseg = 1 + (ci as usize % 6).max(1).min(if ctx.thorough() { 6 } else { 4 });
        let corpus = build_corpus(&mut rng, docs, nseg);
        for ri in 0..reqs_per {
            let mut counter = 0;
            let max_depth = 1 + rng.usize_below(3);
            let mut nodes = gen_nodes(&mut rng, 0, max_depth, &mut counter);
            let q = gen_query(&mut rng);
            // keep results small: regenerate requests with more than 3000 buckets
            for _ in 0..20 {
                let matching: Vec<&MDoc> = corpus.docs.iter().filter(|d| q.matches(d)).collect();
                let at = all_terms_fn(&corpus.docs);
                if hist_width_ok(&nodes, &corpus.docs) && super::spec::bucket_count_all(&spec_eval(&nodes, &matching, &at, Sem { per_value: true, rendered_key_order: false }, false)) <= 3000 { break; }
                ctx.report.count("gen:request-too-large-regenerated");
                counter = 0;
                let md = 1 + rng.usize_below(3);
                nodes = gen_nodes(&mut rng, 0, md, &mut counter);
            }
            check_request(ctx, &mut rng, &corpus, &nodes, q);
            if ri % 3 == 0 { check_limits(ctx, &mut rng, &corpus, &nodes, q); }
        }
    }
    shrink_violations(ctx);
}
