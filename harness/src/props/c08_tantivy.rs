//! C08 through tantivy: `SegmentReader::fast_fields()` after indexing / deleting / merging.
use super::{oracle};
use crate::rng::Rng;
use crate::Ctx;
use serde_json::{json, Value};
use std::collections::HashMap;
use std::fmt::Debug;
use std::net::Ipv6Addr;
use std::ops::Bound;
use tantivy::collector::Count;
use tantivy::columnar::{Column, MonotonicallyMappableToU128, MonotonicallyMappableToU64};
use tantivy::query::RangeQuery;
use tantivy::schema::{DateOptions, DateTimePrecision, IpAddrOptions, NumericOptions, Schema, BytesOptions, TextFieldIndexing, TextOptions, Value as _, FAST, INDEXED, STORED, STRING};
use tantivy::{DateTime, Index, IndexWriter, TantivyDocument, Term};

#[derive(Clone, Debug, Default)]
struct Rec {
    id: u64,
    u: Vec<u64>,
    i: Vec<i64>,
    f: Vec<f64>,
    b: Vec<bool>,
    d: Vec<i64>,
    ds: Vec<i64>,
    ip: Vec<u128>,
    s: Vec<String>,
    by: Vec<Vec<u8>>,
    jn: Vec<i64>,
    js: Vec<String>,
}

fn count_k(rng: &mut Rng, profile: u64) -> usize {
    match profile {
        0 => 1,
        1 => rng.chance(1, 2) as usize,
        2 => rng.usize_below(4),
        3 => rng.chance(9, 10) as usize,
        _ => if rng.chance(1, 30) { 3 } else { 1 },
    }
}

fn check_col<T: PartialOrd + Copy + Debug + Send + Sync + 'static>(
    ctx: &mut Ctx, rng: &mut Rng, col: &Column<T>, exp: &[Option<Vec<T>>], key: &dyn Fn(T) -> u128, what: &str, case: &Value,
) {
    if col.num_docs() as usize != exp.len() {
        oracle(ctx, "C08:ff-num-docs", format!("{what}: num_docs {} but max_doc {}", col.num_docs(), exp.len()), case);
        return;
    }
    let (mn, mx) = (key(col.min_value()), key(col.max_value()));
    for (d, e) in exp.iter().enumerate() {
        let Some(e) = e else { continue };
        let got: Vec<T> = col.values_for_doc(d as u32).collect();
        if got.len() != e.len() || got.iter().zip(e).any(|(a, b)| key(*a) != key(*b)) {
            oracle(ctx, "C08:ff-row-values", format!("{what}: doc {d} returns {got:?}, indexed {e:?}"), case);
            return;
        }
        if col.first(d as u32).map(|x| key(x)) != e.first().map(|x| key(*x)) {
            oracle(ctx, "C08:ff-first", format!("{what}: first({d}) = {:?}, indexed {:?}", col.first(d as u32), e.first()), case);
            return;
        }
        for v in e {
            if key(*v) < mn || key(*v) > mx {
                oracle(ctx, "C08:ff-minmax-bound", format!("{what}: value {v:?} of doc {d} outside [min_value {:?}, max_value {:?}]", col.min_value(), col.max_value()), case);
                return;
            }
        }
    }
    let all: Vec<T> = exp.iter().flatten().flatten().copied().collect();
    if all.is_empty() { return; }
    for _ in 0..3 {
        let a = all[rng.usize_below(all.len())];
        let b = all[rng.usize_below(all.len())];
        let (lo, hi) = if key(a) <= key(b) { (a, b) } else { (b, a) };
        let mut docs = vec![];
        col.get_docids_for_value_range(lo..=hi, 0..exp.len() as u32, &mut docs);
        if docs.windows(2).any(|w| w[0] >= w[1]) {
            oracle(ctx, "C08:ff-range-lookup-order", format!("{what}: get_docids_for_value_range result not strictly increasing"), case);
            return;
        }
        let got: Vec<u32> = docs.into_iter().filter(|d| exp[*d as usize].is_some()).collect();
        let brute: Vec<u32> = (0..exp.len()).filter(|&d| exp[d].as_ref().map(|e| e.iter().any(|v| key(*v) >= key(lo) && key(*v) <= key(hi))).unwrap_or(false)).map(|d| d as u32).collect();
        if got != brute {
            oracle(ctx, "C08:ff-range-lookup", format!("{what}: get_docids_for_value_range({lo:?}..={hi:?}) (alive docs) = {} docs, brute force {}", got.len(), brute.len()), case);
            return;
        }
    }
}

pub fn case_tantivy(ctx: &mut Ctx, seed: u64, case: &Value) {
    let mut rng = Rng(seed);
    let mut sb = Schema::builder();
    let f_id = sb.add_u64_field("id", FAST | STORED | INDEXED);
    let f_u = sb.add_u64_field("u", FAST);
    let f_i = sb.add_i64_field("i", FAST | INDEXED);
    let f_f = sb.add_f64_field("f", NumericOptions::default().set_fast());
    let f_b = sb.add_bool_field("b", FAST);
    let f_d = sb.add_date_field("d", DateOptions::default().set_fast().set_precision(DateTimePrecision::Nanoseconds));
    let f_ds = sb.add_date_field("ds", DateOptions::default().set_fast());
    let f_ip = sb.add_ip_addr_field("ip", IpAddrOptions::default().set_fast());
    let f_s = sb.add_text_field("s", STRING | FAST);
    let f_s2 = sb.add_text_field("s2", TextOptions::default().set_fast(None).set_indexing_options(TextFieldIndexing::default().set_tokenizer("raw")));
    let f_by = sb.add_bytes_field("by", BytesOptions::default().set_fast());
    let f_j = sb.add_json_field("j", FAST);
    let schema = sb.build();
    let index = Index::create_in_ram(schema);
    let mut w: IndexWriter = index.writer_with_num_threads(1, 20_000_000).unwrap();
    let profiles: Vec<u64> = (0..12).map(|_| rng.below(5)).collect();
    let words = ["alpha", "beta", "", "gamma δ", "Ωmega", "z", "alpha beta", "\u{10348}"];
    let mut recs: HashMap<u64, Rec> = HashMap::new();
    let mut next_id = 0u64;
    let rounds = 1 + rng.usize_below(3);
    let mut deleted_any = false;
    let cut = if rng.chance(1, 3) { 40 + rng.below(100) as u32 } else { 0 };
    tantivy::verif::set_segment_cut_docs(cut);
    for _ in 0..rounds {
        let n = match rng.below(5) { 0 => 1, 1 => 70, 2 => 513, _ => rng.usize_below(400) };
        for _ in 0..n {
            let mut r = Rec { id: next_id, ..Default::default() };
            next_id += 1;
            let base = super::p2(&mut rng, 50);
            for _ in 0..count_k(&mut rng, profiles[0]) { r.u.push(match rng.below(6) { 0 => u64::MAX, 1 => 0, _ => base + rng.below(1000) * 10 }); }
            for _ in 0..count_k(&mut rng, profiles[1]) { r.i.push(match rng.below(6) { 0 => i64::MIN, 1 => i64::MAX, 2 => -1, _ => (rng.next_u64() >> rng.below(64)) as i64 - 500 }); }
            for _ in 0..count_k(&mut rng, profiles[2]) { r.f.push(*rng.pick(&[0.0f64, -0.0, 1.5, -1.5, f64::INFINITY, f64::NEG_INFINITY, 1e-310, 3.25e200, -7.0])); }
            for _ in 0..count_k(&mut rng, profiles[3]) { r.b.push(rng.chance(1, 2)); }
            for _ in 0..count_k(&mut rng, profiles[4]) { r.d.push(match rng.below(5) { 0 => i64::MIN, 1 => i64::MAX, _ => 1_700_000_000_000_000_000 + rng.below(1 << 40) as i64 }); }
            for _ in 0..count_k(&mut rng, profiles[5]) { r.ds.push(1_700_000_000_123_456_789 - rng.below(1 << 50) as i64); }
            for _ in 0..count_k(&mut rng, profiles[6]) { r.ip.push(match rng.below(4) { 0 => std::net::Ipv4Addr::from(rng.next_u64() as u32).to_ipv6_mapped().to_u128(), 1 => u128::MAX, 2 => 0, _ => ((rng.next_u64() as u128) << 64) | rng.below(1000) as u128 }); }
            for _ in 0..count_k(&mut rng, profiles[7]) { r.s.push(format!("{}{}", rng.pick(&words), rng.below(20))); }
            for _ in 0..count_k(&mut rng, profiles[8]) { let n = rng.usize_below(5); r.by.push(rng.bytes(n)); }
            for _ in 0..count_k(&mut rng, profiles[9]) { r.jn.push(rng.below(100_000) as i64 - 50_000); }
            for _ in 0..count_k(&mut rng, profiles[10]) { r.js.push(format!("v{}", rng.below(30))); }
            let mut doc = TantivyDocument::default();
            doc.add_u64(f_id, r.id);
            for v in &r.u { doc.add_u64(f_u, *v); }
            for v in &r.i { doc.add_i64(f_i, *v); }
            for v in &r.f { doc.add_f64(f_f, *v); }
            for v in &r.b { doc.add_bool(f_b, *v); }
            for v in &r.d { doc.add_date(f_d, DateTime::from_timestamp_nanos(*v)); }
            for v in &r.ds { doc.add_date(f_ds, DateTime::from_timestamp_nanos(*v)); }
            for v in &r.ip { doc.add_ip_addr(f_ip, Ipv6Addr::from_u128(*v)); }
            for v in &r.s { doc.add_text(f_s, v); doc.add_text(f_s2, v); }
            for v in &r.by { doc.add_bytes(f_by, v); }
            if !r.jn.is_empty() || !r.js.is_empty() {
                let mut attrs = serde_json::Map::new();
                if r.jn.len() == 1 { attrs.insert("n".into(), json!(r.jn[0])); } else if !r.jn.is_empty() { attrs.insert("n".into(), json!(r.jn)); }
                if r.js.len() == 1 { attrs.insert("s".into(), json!(r.js[0])); } else if !r.js.is_empty() { attrs.insert("s".into(), json!(r.js)); }
                let obj: std::collections::BTreeMap<String, tantivy::schema::OwnedValue> = [("attrs".to_string(), tantivy::schema::OwnedValue::from(serde_json::Value::Object(attrs)))].into_iter().collect();
                doc.add_object(f_j, obj);
            }
            w.add_document(doc).unwrap();
            recs.insert(r.id, r);
        }
        w.commit().unwrap();
        if next_id > 0 && rng.chance(1, 2) {
            let ndel = 1 + rng.usize_below(1 + next_id as usize / 4);
            for _ in 0..ndel {
                let id = rng.below(next_id);
                w.delete_term(Term::from_field_u64(f_id, id));
                recs.remove(&id);
            }
            deleted_any = true;
            w.commit().unwrap();
        }
    }
    tantivy::verif::set_segment_cut_docs(0);
    let mut merged = false;
    if rng.chance(1, 2) {
        let ids = index.searchable_segment_ids().unwrap();
        if ids.len() >= 2 || (deleted_any && !ids.is_empty()) {
            let _ = w.merge(&ids).wait();
            merged = true;
        }
    }
    w.wait_merging_threads().unwrap();
    let reader = index.reader().unwrap();
    let searcher = reader.searcher();
    let nseg = searcher.segment_readers().len();
    ctx.report.count(&format!("tantivy:segments:{}", nseg.min(4)));
    if merged { ctx.report.count("tantivy:merged"); }
    if deleted_any { ctx.report.count("tantivy:deletes"); }
    ctx.report.case(&format!("tantivy|{seed}"), nseg >= 2 || deleted_any || merged);
    let mut seen = 0usize;
    for (ord, sr) in searcher.segment_readers().iter().enumerate() {
        let max_doc = sr.max_doc() as usize;
        let store = sr.get_store_reader(4).unwrap();
        // doc -> record through the stored id (alive docs only)
        let mut exp: Vec<Option<&Rec>> = vec![None; max_doc];
        for d in sr.doc_ids_alive() {
            let doc: TantivyDocument = store.get(d).unwrap();
            let id = doc.get_first(f_id).and_then(|v| v.as_u64()).unwrap();
            match recs.get(&id) {
                Some(r) => { exp[d as usize] = Some(r); seen += 1; }
                None => { oracle(ctx, "C08:ff-deleted-doc-alive", format!("segment {ord}: doc {d} with id {id} is alive but was deleted"), case); return; }
            }
        }
        let ff = sr.fast_fields();
        let what = |f: &str| format!("segment {ord}/{nseg} (max_doc {max_doc}{}) field {f}", if merged { ", merged" } else { "" });
        macro_rules! rows { ($get:expr) => { exp.iter().map(|e| e.map($get)).collect::<Vec<_>>() }; }
        match ff.u64("id") { Ok(c) => check_col(ctx, &mut rng, &c, &rows!(|r: &Rec| vec![r.id]), &|x| x as u128, &what("id"), case), Err(e) => oracle(ctx, "C08:ff-open", format!("id: {e}"), case) }
        match ff.u64("u") { Ok(c) => check_col(ctx, &mut rng, &c, &rows!(|r: &Rec| r.u.clone()), &|x| x as u128, &what("u"), case), Err(e) => oracle(ctx, "C08:ff-open", format!("u: {e}"), case) }
        match ff.i64("i") { Ok(c) => check_col(ctx, &mut rng, &c, &rows!(|r: &Rec| r.i.clone()), &|x| x.to_u64() as u128, &what("i"), case), Err(e) => oracle(ctx, "C08:ff-open", format!("i: {e}"), case) }
        match ff.f64("f") { Ok(c) => check_col(ctx, &mut rng, &c, &rows!(|r: &Rec| r.f.clone()), &|x| x.to_u64() as u128, &what("f"), case), Err(e) => oracle(ctx, "C08:ff-open", format!("f: {e}"), case) }
        match ff.bool("b") { Ok(c) => check_col(ctx, &mut rng, &c, &rows!(|r: &Rec| r.b.clone()), &|x| x as u128, &what("b"), case), Err(e) => oracle(ctx, "C08:ff-open", format!("b: {e}"), case) }
        match ff.date("d") { Ok(c) => check_col(ctx, &mut rng, &c, &rows!(|r: &Rec| r.d.iter().map(|x| DateTime::from_timestamp_nanos(*x)).collect()), &|x| x.to_u64() as u128, &what("d"), case), Err(e) => oracle(ctx, "C08:ff-open", format!("d: {e}"), case) }
        match ff.date("ds") { Ok(c) => check_col(ctx, &mut rng, &c, &rows!(|r: &Rec| r.ds.iter().map(|x| DateTime::from_timestamp_nanos(*x).truncate(DateTimePrecision::Seconds)).collect()), &|x| x.to_u64() as u128, &what("ds (seconds precision)"), case), Err(e) => oracle(ctx, "C08:ff-open", format!("ds: {e}"), case) }
        match ff.ip_addr("ip") { Ok(c) => check_col(ctx, &mut rng, &c, &rows!(|r: &Rec| r.ip.iter().map(|x| Ipv6Addr::from_u128(*x)).collect()), &|x| x.to_u128(), &what("ip"), case), Err(e) => oracle(ctx, "C08:ff-open", format!("ip: {e}"), case) }
        // string / bytes columns: ordinals -> dictionary
        for name in ["s", "s2"] {
            match ff.str(name) {
                Ok(Some(sc)) => {
                    let mut prev: Option<String> = None;
                    for ord in 0..sc.num_terms() as u64 {
                        let mut s = String::new();
                        if !sc.ord_to_str(ord, &mut s).unwrap_or(false) { oracle(ctx, "C08:ff-dict-ord-missing", format!("{}: ord {ord} missing", what(name)), case); break; }
                        if let Some(p) = &prev { if p.as_bytes() >= s.as_bytes() { oracle(ctx, "C08:ff-dict-not-sorted", format!("{}: dictionary not strictly increasing at ord {ord}", what(name)), case); break; } }
                        prev = Some(s);
                    }
                    for (d, e) in exp.iter().enumerate() {
                        let Some(r) = e else { continue };
                        let got: Vec<String> = sc.term_ords(d as u32).map(|o| { let mut s = String::new(); sc.ord_to_str(o, &mut s).unwrap(); s }).collect();
                        if got != r.s {
                            oracle(ctx, "C08:ff-str-values", format!("{}: doc {d} returns {got:?}, indexed {:?}", what(name), r.s), case);
                            break;
                        }
                    }
                }
                Ok(None) => { if exp.iter().flatten().any(|r| !r.s.is_empty()) { oracle(ctx, "C08:ff-column-missing", format!("{}: no str column although values were indexed", what(name)), case); } }
                Err(e) => oracle(ctx, "C08:ff-open", format!("{name}: {e}"), case),
            }
        }
        match ff.bytes("by") {
            Ok(Some(bc)) => {
                for (d, e) in exp.iter().enumerate() {
                    let Some(r) = e else { continue };
                    let got: Vec<Vec<u8>> = bc.term_ords(d as u32).map(|o| { let mut b = vec![]; bc.ord_to_bytes(o, &mut b).unwrap(); b }).collect();
                    if got != r.by {
                        oracle(ctx, "C08:ff-bytes-values", format!("{}: doc {d} returns {got:?}, indexed {:?}", what("by"), r.by), case);
                        break;
                    }
                }
            }
            Ok(None) => { if exp.iter().flatten().any(|r| !r.by.is_empty()) { oracle(ctx, "C08:ff-column-missing", format!("{}: no bytes column although values were indexed", what("by")), case); } }
            Err(e) => oracle(ctx, "C08:ff-open", format!("by: {e}"), case),
        }
        // JSON sub-paths
        match ff.column_opt::<i64>("j.attrs.n") {
            Ok(Some(c)) => check_col(ctx, &mut rng, &c, &rows!(|r: &Rec| r.jn.clone()), &|x| x.to_u64() as u128, &what("j.attrs.n"), case),
            Ok(None) => { if exp.iter().flatten().any(|r| !r.jn.is_empty()) { oracle(ctx, "C08:ff-column-missing", format!("{}: JSON sub-path column missing", what("j.attrs.n")), case); } }
            Err(e) => oracle(ctx, "C08:ff-open", format!("j.attrs.n: {e}"), case),
        }
        match ff.str("j.attrs.s") {
            Ok(Some(sc)) => {
                for (d, e) in exp.iter().enumerate() {
                    let Some(r) = e else { continue };
                    let got: Vec<String> = sc.term_ords(d as u32).map(|o| { let mut s = String::new(); sc.ord_to_str(o, &mut s).unwrap(); s }).collect();
                    if got != r.js { oracle(ctx, "C08:ff-json-str-values", format!("{}: doc {d} returns {got:?}, indexed {:?}", what("j.attrs.s"), r.js), case); break; }
                }
            }
            Ok(None) => { if exp.iter().flatten().any(|r| !r.js.is_empty()) { oracle(ctx, "C08:ff-column-missing", format!("{}: JSON sub-path str column missing", what("j.attrs.s")), case); } }
            Err(e) => oracle(ctx, "C08:ff-open", format!("j.attrs.s: {e}"), case),
        }
    }
    if seen != recs.len() {
        oracle(ctx, "C08:ff-doc-count", format!("{seen} alive documents found, {} expected", recs.len()), case);
    }
    // range queries (fast-only field `u`, indexed+fast `i`, f64, date, ip) = brute force over the live records
    let live: Vec<&Rec> = recs.values().collect();
    if !live.is_empty() {
        for _ in 0..3 {
            let a = live[rng.usize_below(live.len())];
            let b = live[rng.usize_below(live.len())];
            if let (Some(x), Some(y)) = (a.u.first(), b.u.first()) {
                let (lo, hi) = (*x.min(y), *x.max(y));
                let q = RangeQuery::new(Bound::Included(Term::from_field_u64(f_u, lo)), Bound::Included(Term::from_field_u64(f_u, hi)));
                let got = searcher.search(&q, &Count).unwrap();
                let brute = live.iter().filter(|r| r.u.iter().any(|v| *v >= lo && *v <= hi)).count();
                if got != brute { oracle(ctx, "C08:range-query-u64", format!("RangeQuery u in [{lo}, {hi}] on a fast-only field: {got} docs, brute force {brute}"), case); }
            }
            if let (Some(x), Some(y)) = (a.i.first(), b.i.first()) {
                let (lo, hi) = (*x.min(y), *x.max(y));
                let q = RangeQuery::new(Bound::Included(Term::from_field_i64(f_i, lo)), Bound::Excluded(Term::from_field_i64(f_i, hi)));
                let got = searcher.search(&q, &Count).unwrap();
                let brute = live.iter().filter(|r| r.i.iter().any(|v| *v >= lo && *v < hi)).count();
                if got != brute { oracle(ctx, "C08:range-query-i64", format!("RangeQuery i in [{lo}, {hi}): {got} docs, brute force {brute}"), case); }
            }
            if let (Some(x), Some(y)) = (a.f.first(), b.f.first()) {
                let (lo, hi) = if x.to_u64() <= y.to_u64() { (*x, *y) } else { (*y, *x) };
                let q = RangeQuery::new(Bound::Included(Term::from_field_f64(f_f, lo)), Bound::Included(Term::from_field_f64(f_f, hi)));
                let got = searcher.search(&q, &Count).unwrap();
                let brute = live.iter().filter(|r| r.f.iter().any(|v| v.to_u64() >= lo.to_u64() && v.to_u64() <= hi.to_u64())).count();
                if got != brute { oracle(ctx, "C08:range-query-f64", format!("RangeQuery f in [{lo:?}, {hi:?}]: {got} docs, brute force {brute}"), case); }
            }
            if let (Some(x), Some(y)) = (a.ip.first(), b.ip.first()) {
                let (lo, hi) = (*x.min(y), *x.max(y));
                let q = RangeQuery::new(Bound::Included(Term::from_field_ip_addr(f_ip, Ipv6Addr::from_u128(lo))), Bound::Included(Term::from_field_ip_addr(f_ip, Ipv6Addr::from_u128(hi))));
                let got = searcher.search(&q, &Count).unwrap();
                let brute = live.iter().filter(|r| r.ip.iter().any(|v| *v >= lo && *v <= hi)).count();
                if got != brute { oracle(ctx, "C08:range-query-ip", format!("RangeQuery ip in [{lo:#x}, {hi:#x}]: {got} docs, brute force {brute}"), case); }
            }
            if let (Some(x), Some(y)) = (a.d.first(), b.d.first()) {
                let (lo, hi) = (*x.min(y), *x.max(y));
                let q = RangeQuery::new(Bound::Included(Term::from_field_date(f_d, DateTime::from_timestamp_nanos(lo))), Bound::Included(Term::from_field_date(f_d, DateTime::from_timestamp_nanos(hi))));
                let got = searcher.search(&q, &Count).unwrap();
                let brute = live.iter().filter(|r| r.d.iter().any(|v| *v >= lo && *v <= hi)).count();
                if got != brute { oracle(ctx, "C08:range-query-date", format!("RangeQuery d in [{lo}, {hi}]: {got} docs, brute force {brute}"), case); }
            }
        }
    }
    if ctx.report.samples.len() < 6 {
        ctx.report.sample(json!({"section": "tantivy", "documents_alive": recs.len(), "segments": nseg, "merged": merged, "deletes": deleted_any, "segment_cut_docs": cut}));
    }
}
