//! C07 — the inverted index records exactly the terms, documents, frequencies, positions.
//!
//! Part (a): generated collections are indexed by the real `IndexWriter` into one segment and
//! everything is read back through `SegmentReader::inverted_index` (term stream, doc_freq,
//! postings by advance and by seek programs, positions, total_num_tokens, fieldnorms) and
//! compared (oracle) with an independent Rust inversion of the analysed corpus and (model) with
//! the Lean model's `invert` of the same analysed corpus.
//! Part (b): the codecs underneath (VInt, bit widths, fieldnorm table, postings blocks + skip
//! data, seek, positions, in-block search) are cross-checked against the Lean model byte for
//! byte, and against their own round trip (oracle).
use crate::c07_util::*;
use crate::model::{hex, nat_list, unhex};
use crate::report::fnv;
use crate::rng::Rng;
use crate::Ctx;
use serde_json::{json, Value as J};
use std::collections::BTreeSet;
use std::panic::{catch_unwind, AssertUnwindSafe};
use tantivy::directory::OwnedBytes;
use tantivy::fieldnorm::FieldNormReader;
use tantivy::positions::{PositionReader, PositionSerializer};
use tantivy::postings::serializer::PostingsSerializer;
use tantivy::postings::{Postings, SegmentPostings};
use tantivy::schema::{Field, IndexRecordOption};
use tantivy::verif::{c07_open_block_postings, c07_search_block, c07_segment_postings};
use tantivy::{DocSet, Term, TERMINATED};
use tantivy_common::{BinarySerializable, VInt};

fn panic_msg(p: Box<dyn std::any::Any + Send>) -> String {
    if let Some(s) = p.downcast_ref::<&str>() {
        s.to_string()
    } else if let Some(s) = p.downcast_ref::<String>() {
        s.clone()
    } else {
        "panic".into()
    }
}

fn short(s: &str) -> String {
    if s.len() > 160 { format!("{}…({} chars)", &s[..160], s.len()) } else { s.to_string() }
}

// ------------------------------------------------------------------------------------------
// model availability
// ------------------------------------------------------------------------------------------
#[derive(Default, Clone)]
struct Avail {
    missing: BTreeSet<&'static str>,
}

const OPS: [(&str, &str); 15] = [
    ("vint32_enc", "C07 vint32_enc 0"),
    ("vint32_dec", "C07 vint32_dec 80"),
    ("seekfull", "C07 seekfull basic 1 81 A"),
    ("invert", "C07 invert basic 61:0:1"),
    ("vint_enc", "C07 vint_enc 0"),
    ("vint_dec", "C07 vint_dec 80"),
    ("numbits", "C07 numbits 0"),
    ("fn_to_id", "C07 fn_to_id 0"),
    ("id_to_fn", "C07 id_to_fn 0"),
    ("enc", "C07 enc basic 1 1"),
    ("dec", "C07 dec basic 1 81"),
    ("seek", "C07 seek basic 1 81 A"),
    ("pos_enc", "C07 pos_enc 1"),
    ("pos_read", "C07 pos_read 8001 0 1"),
    ("blocksearch", ""),
];

fn probe(ctx: &mut Ctx) -> Avail {
    let mut a = Avail::default();
    for (op, req) in OPS {
        let req = if op == "blocksearch" {
            format!("C07 blocksearch {} 5", nat_list(&(0..128u32).collect::<Vec<_>>()))
        } else {
            req.to_string()
        };
        let r = ctx.model.ask(&req);
        if r == "bad-op" || r.is_empty() {
            a.missing.insert(op);
            ctx.report.count(&format!("model:unavailable:{op}"));
        }
    }
    if !a.missing.is_empty() {
        let list: Vec<&str> = a.missing.iter().cloned().collect();
        ctx.report.notes.push(format!("model ops unavailable: {}", list.join(",")));
        if a.missing.contains("invert") {
            ctx.report.notes.push("model invert unavailable".into());
        }
        ctx.report.violation(
            "model",
            "C07:model-unavailable",
            format!("the Lean driver answers bad-op for: {}", list.join(",")),
            json!({"kind": "probe"}),
        );
    }
    a
}

impl Avail {
    fn has(&self, op: &str) -> bool {
        !self.missing.contains(op)
    }
}

// ------------------------------------------------------------------------------------------
// seek programs
// ------------------------------------------------------------------------------------------
#[derive(Clone, Copy, Debug, PartialEq, Eq)]
enum Op {
    A,
    S(u32),
}

fn program_text(p: &[Op]) -> String {
    p.iter().map(|o| match o { Op::A => "A".to_string(), Op::S(t) => format!("S{t}") }).collect::<Vec<_>>().join(",")
}

fn parse_program(s: &str) -> Option<Vec<Op>> {
    if s.is_empty() || s == "-" {
        return Some(vec![]);
    }
    s.split(',').map(|t| if t == "A" { Some(Op::A) } else { t.strip_prefix('S').and_then(|n| n.parse().ok()).map(Op::S) }).collect()
}

/// index into `docs` after each op (docs.len() = terminated); the cursor starts at index 0
fn simulate(docs: &[u32], prog: &[Op]) -> Vec<usize> {
    let mut cur = 0usize;
    let mut out = vec![];
    for op in prog {
        match *op {
            Op::A => {
                if cur < docs.len() {
                    cur += 1;
                }
            }
            Op::S(t) => {
                while cur < docs.len() && docs[cur] < t {
                    cur += 1;
                }
            }
        }
        out.push(cur);
    }
    out
}

fn gen_program(rng: &mut Rng, docs: &[u32]) -> Vec<Op> {
    let n = docs.len();
    let nops = 2 + rng.usize_below(if n > 128 { 24 } else { 11 });
    let mut after_end = 0;
    let mut prog = vec![];
    let mut cur = 0usize;
    let doc_at = |i: usize| if i < n { docs[i] } else { TERMINATED };
    for _ in 0..nops {
        let cur_doc = doc_at(cur);
        let op = if rng.chance(2, 5) {
            Op::A
        } else {
            let t = match rng.below(12) {
                0 => cur_doc,
                1 if prog.len() + 3 >= nops || rng.chance(1, 4) => TERMINATED,
                9 | 10 | 11 if cur < n => {
                    // a near jump, often across the next block boundary
                    let i = cur + rng.usize_below((n - cur).min(140));
                    doc_at(i)
                }
                2 | 3 if cur < n => {
                    // a block boundary of the list at or after the cursor
                    let cands: Vec<usize> = [126usize, 127, 128, 129, 254, 255, 256, 257, 383, 384, 385, n - 1]
                        .iter().cloned().filter(|i| *i >= cur && *i < n).collect();
                    doc_at(*rng.pick(&cands))
                }
                4 if cur < n => {
                    let i = cur + rng.usize_below(n - cur);
                    doc_at(i)
                }
                5 if cur < n => {
                    let i = cur + rng.usize_below((n - cur).min(4));
                    doc_at(i).saturating_add(1).min(TERMINATED)
                }
                6 if cur < n => {
                    let i = cur + rng.usize_below(n - cur);
                    doc_at(i).saturating_sub(1).max(cur_doc)
                }
                7 if rng.chance(1, 3) => cur_doc.saturating_add(1 << rng.below(31)).min(TERMINATED),
                _ => cur_doc.saturating_add(rng.below(300) as u32).min(TERMINATED),
            };
            Op::S(t.max(cur_doc))
        };
        let start = cur.min(n);
        cur = start + simulate(&docs[start..], &[op])[0];
        prog.push(op);
        if cur >= n {
            after_end += 1;
            if after_end >= 2 {
                break;
            }
        }
    }
    prog
}

/// drive a real SegmentPostings with a program: (doc, tf, positions) after each op
fn run_program(sp: &mut SegmentPostings, prog: &[Op], with_positions: bool) -> Vec<(u32, u32, Vec<u32>)> {
    let mut out = vec![];
    let mut buf = vec![];
    for op in prog {
        let d = match *op {
            Op::A => sp.advance(),
            Op::S(t) => sp.seek(t),
        };
        let d2 = sp.doc();
        if d != d2 {
            out.push((d, u32::MAX, vec![d2]));
            continue;
        }
        if d == TERMINATED {
            out.push((d, 0, vec![]));
        } else {
            let tf = sp.term_freq();
            buf.clear();
            if with_positions {
                sp.positions(&mut buf);
            }
            out.push((d, tf, buf.clone()));
        }
    }
    out
}

fn expected_program(list: &[(u32, u32, Vec<u32>)], prog: &[Op]) -> Vec<(u32, u32, Vec<u32>)> {
    let docs: Vec<u32> = list.iter().map(|p| p.0).collect();
    simulate(&docs, prog).into_iter().map(|i| if i < list.len() { list[i].clone() } else { (TERMINATED, 0, vec![]) }).collect()
}

fn read_all(sp: &mut SegmentPostings, with_positions: bool) -> Vec<(u32, u32, Vec<u32>)> {
    let mut out = vec![];
    let mut buf = vec![];
    let mut d = sp.doc();
    while d != TERMINATED {
        let tf = sp.term_freq();
        buf.clear();
        if with_positions {
            sp.positions(&mut buf);
        }
        out.push((d, tf, buf.clone()));
        let prev = d;
        d = sp.advance();
        if d != TERMINATED && d <= prev {
            out.push((d, u32::MAX, vec![]));
            break;
        }
        if out.len() > 20_000_000 {
            break;
        }
    }
    out
}

fn first_diff<T: PartialEq + std::fmt::Debug>(a: &[T], b: &[T]) -> String {
    for i in 0..a.len().max(b.len()) {
        if a.get(i) != b.get(i) {
            return format!("index {i}: expected {:?} got {:?} (lengths {} vs {})", a.get(i), b.get(i), a.len(), b.len());
        }
    }
    "equal".into()
}

// ------------------------------------------------------------------------------------------
// part (b): codecs
// ------------------------------------------------------------------------------------------
fn check_vint(ctx: &mut Ctx, av: &Avail, n: u64) {
    let case = json!({"kind": "vint", "n": n.to_string()});
    ctx.report.case(&format!("vint|{n}"), true);
    ctx.report.count("codec:vint");
    let mut real = vec![];
    VInt(n).serialize_into_vec(&mut real);
    ctx.report.count(&format!("vint-bytes:{}", real.len()));
    // oracle: round trip, consumed = len, also with trailing junk
    let mut with_junk = real.clone();
    with_junk.extend_from_slice(&[0x55, 0x80]);
    let mut cur: &[u8] = &with_junk;
    match VInt::deserialize(&mut cur) {
        Ok(v) if v.0 == n && with_junk.len() - cur.len() == real.len() => {}
        other => ctx.report.violation("oracle", "C07:codec-roundtrip", format!("VInt({n}) -> {} -> {:?}", hex(&real), other.map(|v| v.0).map_err(|e| e.to_string())), case.clone()),
    }
    if av.has("vint_enc") {
        let m = ctx.model.ask(&format!("C07 vint_enc {n}"));
        if m != hex(&real) {
            ctx.report.violation("model", "C07:model-vint", format!("vint_enc {n}: real {} model {m}", hex(&real)), case.clone());
        }
    }
    if av.has("vint_dec") {
        let m = ctx.model.ask(&format!("C07 vint_dec {}", hex(&with_junk)));
        if m != format!("{n} {}", real.len()) {
            ctx.report.violation("model", "C07:model-vint", format!("vint_dec {}: real {n} {} model {m}", hex(&with_junk), real.len()), case.clone());
        }
        // truncated inputs: every proper prefix has no stop byte
        for cut in 0..real.len() {
            let pre = &real[..cut];
            let mut cur: &[u8] = pre;
            let r = VInt::deserialize(&mut cur);
            let m = ctx.model.ask(&format!("C07 vint_dec {}", hex(pre)));
            ctx.report.count("codec:vint-truncated");
            if r.is_ok() {
                ctx.report.violation("oracle", "C07:codec-roundtrip", format!("VInt::deserialize accepts truncated {}", hex(pre)), case.clone());
            } else if m != "err" {
                ctx.report.violation("model", "C07:model-vint", format!("vint_dec of truncated {}: real Err, model {m}", hex(pre)), case.clone());
            }
        }
    }
}

fn check_numbits(ctx: &mut Ctx, av: &Avail, n: u64) {
    ctx.report.case(&format!("numbits|{n}"), true);
    ctx.report.count("codec:numbits");
    let real = tantivy_bitpacker::compute_num_bits(n);
    if av.has("numbits") {
        let m = ctx.model.ask(&format!("C07 numbits {n}"));
        if m != real.to_string() {
            ctx.report.violation("model", "C07:model-numbits", format!("compute_num_bits({n}) = {real}, model {m}"), json!({"kind": "numbits", "n": n.to_string()}));
        }
    }
}

fn check_fieldnorm_id(ctx: &mut Ctx, av: &Avail, id: u8) {
    ctx.report.case(&format!("id_to_fn|{id}"), true);
    ctx.report.count("codec:id_to_fn");
    let case = json!({"kind": "fieldnorm-id", "id": id});
    let f = FieldNormReader::id_to_fieldnorm(id);
    if FieldNormReader::fieldnorm_to_id(f) != id {
        ctx.report.violation("oracle", "C07:fieldnorm-bracket", format!("fieldnorm_to_id(id_to_fieldnorm({id})={f}) = {}", FieldNormReader::fieldnorm_to_id(f)), case.clone());
    }
    if id > 0 && FieldNormReader::id_to_fieldnorm(id - 1) >= f {
        ctx.report.violation("oracle", "C07:fieldnorm-bracket", format!("id_to_fieldnorm not strictly increasing at {id}"), case.clone());
    }
    if av.has("id_to_fn") {
        let m = ctx.model.ask(&format!("C07 id_to_fn {id}"));
        if m != f.to_string() {
            ctx.report.violation("model", "C07:model-fieldnorm", format!("id_to_fieldnorm({id}) = {f}, model {m}"), case);
        }
    }
}

fn check_fieldnorm_n(ctx: &mut Ctx, av: &Avail, n: u32) {
    ctx.report.case(&format!("fn_to_id|{n}"), true);
    ctx.report.count("codec:fn_to_id");
    let case = json!({"kind": "fieldnorm-n", "n": n});
    let id = FieldNormReader::fieldnorm_to_id(n);
    let back = FieldNormReader::id_to_fieldnorm(id);
    let next_ok = id == 255 || FieldNormReader::id_to_fieldnorm(id + 1) > n;
    if back > n || !next_ok {
        ctx.report.violation("oracle", "C07:fieldnorm-bracket", format!("fieldnorm_to_id({n}) = {id}: id_to_fieldnorm(id) = {back} must be the largest table entry <= n"), case.clone());
    }
    if n > 0 && FieldNormReader::fieldnorm_to_id(n - 1) > id {
        ctx.report.violation("oracle", "C07:fieldnorm-bracket", format!("fieldnorm_to_id not monotone at {n}"), case.clone());
    }
    if av.has("fn_to_id") {
        let m = ctx.model.ask(&format!("C07 fn_to_id {n}"));
        if m != id.to_string() {
            ctx.report.violation("model", "C07:model-fieldnorm", format!("fieldnorm_to_id({n}) = {id}, model {m}"), case);
        }
    }
}

pub(crate) fn real_postings_bytes(opt: Opt, docs: &[u32], tfs: &[u32]) -> Vec<u8> {
    let mut ser = PostingsSerializer::new(0.0, opt.real(), None);
    ser.new_term(docs.len() as u32, true);
    for (d, t) in docs.iter().zip(tfs) {
        ser.write_doc(*d, *t);
    }
    let mut out = vec![];
    ser.close_term(docs.len() as u32, &mut out).unwrap();
    out
}

fn real_positions_bytes(per_doc: &[Vec<u32>]) -> Vec<u8> {
    let mut out = vec![];
    {
        let mut ser = PositionSerializer::new(&mut out);
        for d in per_doc {
            ser.write_positions_delta(d);
        }
        ser.close_term().unwrap();
        ser.close().unwrap();
    }
    out
}

fn open_real(opt: Opt, requested: Opt, n: u32, bytes: &[u8], positions: Option<Vec<u8>>) -> Result<SegmentPostings, String> {
    let b = c07_open_block_postings(n, bytes.to_vec(), opt.real(), requested.real()).map_err(|e| e.to_string())?;
    c07_segment_postings(b, positions).map_err(|e| e.to_string())
}

pub(crate) fn gen_posting_list(rng: &mut Rng) -> (Vec<u32>, Vec<u32>, String) {
    let n = match rng.below(14) {
        0 => 0usize,
        1 => 1,
        2 => 2,
        3 => 127,
        4 => 128,
        5 => 129,
        6 => 255,
        7 => 256,
        8 => 257,
        9 => 384,
        10 => 1000,
        _ => rng.usize_below(701),
    };
    const MAXDOC: u64 = 2147483646;
    let first = if rng.chance(1, 2) { 0u64 } else { rng.below(1000) };
    let profile = rng.below(5);
    let k = rng.below(23) as u32;
    let mut gaps: Vec<u64> = (0..n.saturating_sub(1))
        .map(|_| match profile {
            0 => 1,
            1 => 1u64 << k,
            2 | 3 => 1 + rng.below(1u64 << k),
            _ => 1 + rng.below(3),
        })
        .collect();
    let pname = match profile { 0 => "gap1".to_string(), 1 => format!("const2^{k}"), 2 | 3 => format!("rand2^{k}"), _ => "huge".to_string() };
    // keep below MAXDOC
    let mut total: u64 = first + gaps.iter().sum::<u64>();
    if total > MAXDOC {
        let scale = total / MAXDOC + 1;
        for g in gaps.iter_mut() {
            *g = (*g / scale).max(1);
        }
        total = first + gaps.iter().sum::<u64>();
    }
    if profile == 4 && !gaps.is_empty() {
        // one huge gap so that the last doc is near the maximum
        let i = rng.usize_below(gaps.len());
        gaps[i] += MAXDOC - total - rng.below(2);
    }
    let mut docs = vec![];
    let mut d = first;
    for i in 0..n {
        if i > 0 {
            d += gaps[i - 1];
        }
        docs.push(d as u32);
    }
    let tfp = rng.below(4);
    let mut tfs: Vec<u32> = (0..n)
        .map(|_| match tfp {
            0 => 1,
            1 => 1 + rng.below(5) as u32,
            2 => *rng.pick(&[1u32, 1, 2, 255, 256, 257, 65535, 65536]),
            _ => 1 + rng.below(3) as u32,
        })
        .collect();
    if tfp == 3 && n > 0 {
        // one large value per 128 block (sum of a block stays < 2^32)
        for b in (0..n).step_by(128) {
            let i = b + rng.usize_below((n - b).min(128));
            tfs[i] = *rng.pick(&[1u32 << 31, (1u32 << 31) + 5, u32::MAX - 1000, 1 << 24, 70000]);
        }
    }
    (docs, tfs, format!("{pname}/tf{tfp}"))
}

fn check_postings_codec(ctx: &mut Ctx, av: &Avail, opt: Opt, docs: &[u32], tfs_in: &[u32], programs: &[Vec<Op>], tag: &str) {
    let n = docs.len();
    let tfs: Vec<u32> = if opt == Opt::Basic { vec![1; n] } else { tfs_in.to_vec() };
    let case = json!({"kind": "postings", "opt": opt.name(), "docs": docs, "tfs": tfs, "programs": programs.iter().map(|p| program_text(p)).collect::<Vec<_>>()});
    ctx.report.case(&format!("postings|{}|{}|{}", opt.name(), fnv(nat_list(docs).as_bytes()), fnv(nat_list(&tfs).as_bytes())), n > 0);
    ctx.report.count(&format!("codec:postings:{}", opt.name()));
    ctx.report.count(&format!("codec:profile:{tag}"));
    ctx.report.count(&format!("codec:len:{}", if [0usize, 1, 2, 127, 128, 129, 255, 256, 257, 384, 1000].contains(&n) { n.to_string() } else { "other".into() }));
    let real = real_postings_bytes(opt, docs, &tfs);
    let expected: Vec<(u32, u32, Vec<u32>)> = docs.iter().zip(&tfs).map(|(d, t)| (*d, *t, vec![])).collect();
    // oracle: real round trip
    match open_real(opt, opt, n as u32, &real, None) {
        Ok(mut sp) => {
            let got = read_all(&mut sp, false);
            if got != expected || sp.doc_freq() != n as u32 {
                ctx.report.violation("oracle", "C07:codec-roundtrip", format!("postings {} len {n}: serializer -> reader differs at {}", opt.name(), first_diff(&expected, &got)), case.clone());
            }
        }
        Err(e) => ctx.report.violation("oracle", "C07:codec-roundtrip", format!("cannot open real postings bytes: {e}"), case.clone()),
    }
    // model enc: same bytes, and the real reader decodes the model's bytes
    if av.has("enc") {
        let m = ctx.model.ask(&format!("C07 enc {} {} {}", opt.name(), nat_list(docs), nat_list(&tfs)));
        match unhex(&m) {
            Some(mb) => {
                let decoded = open_real(opt, opt, n as u32, &mb, None).map(|mut sp| read_all(&mut sp, false));
                if decoded.as_ref().ok() != Some(&expected) {
                    ctx.report.violation("model", "C07:model-postings-enc", format!("real reader on the model's bytes ({} len {n}): {}", opt.name(), match &decoded { Ok(g) => first_diff(&expected, g), Err(e) => e.clone() }), case.clone());
                } else if mb != real {
                    let at = mb.iter().zip(&real).position(|(a, b)| a != b).unwrap_or(mb.len().min(real.len()));
                    ctx.report.violation("model", "C07:model-postings-enc", format!("model bytes differ from PostingsSerializer bytes at byte {at} ({} vs {} bytes), {} len {n}", mb.len(), real.len(), opt.name()), case.clone());
                }
            }
            None => ctx.report.violation("model", "C07:model-postings-enc", format!("enc answered {}", short(&m)), case.clone()),
        }
    }
    if av.has("dec") {
        let m = ctx.model.ask(&format!("C07 dec {} {n} {}", opt.name(), hex(&real)));
        let want = format!("{}|{}", nat_list(docs), nat_list(&tfs));
        if m != want {
            ctx.report.violation("model", "C07:model-postings-dec", format!("model decoding of the real bytes ({} len {n}) differs: {} vs input {}", opt.name(), short(&m), short(&want)), case.clone());
        }
    }
    // positions for the positional mode when small enough
    let total_tf: u64 = tfs.iter().map(|t| *t as u64).sum();
    let mut rng = Rng::new(fnv(nat_list(docs).as_bytes()));
    let per_doc: Option<Vec<Vec<u32>>> = if opt == Opt::Positions && total_tf <= 6000 {
        Some(tfs.iter().map(|t| (0..*t).map(|_| rng.below(9) as u32).collect()).collect())
    } else {
        None
    };
    let pos_bytes = per_doc.as_ref().map(|p| real_positions_bytes(p));
    let expected_pos: Vec<(u32, u32, Vec<u32>)> = match &per_doc {
        Some(p) => expected.iter().zip(p).map(|(e, deltas)| {
            let mut acc = 0u32;
            (e.0, e.1, deltas.iter().map(|d| { acc += d; acc }).collect())
        }).collect(),
        None => expected.clone(),
    };
    for prog in programs {
        ctx.report.count("codec:seek-program");
        let with_pos = pos_bytes.is_some();
        let got = match open_real(opt, opt, n as u32, &real, pos_bytes.clone()) {
            Ok(mut sp) => run_program(&mut sp, prog, with_pos),
            Err(e) => {
                ctx.report.violation("oracle", "C07:codec-roundtrip", format!("cannot open: {e}"), case.clone());
                continue;
            }
        };
        let want = expected_program(&expected_pos, prog);
        if got != want {
            let key = if got.iter().zip(&want).all(|(g, w)| g.0 == w.0 && g.1 == w.1) { "C07:positions" } else { "C07:postings-seek" };
            ctx.report.violation("oracle", key, format!("real SegmentPostings ({} len {n}) driven by {}: {}", opt.name(), short(&program_text(prog)), first_diff(&want, &got)), case.clone());
        }
        if av.has("seek") {
            let m = ctx.model.ask(&format!("C07 seek {} {n} {} {}", opt.name(), hex(&real), program_text(prog)));
            let real_docs: Vec<u32> = got.iter().map(|g| g.0).collect();
            if m != nat_list(&real_docs) {
                ctx.report.violation("model", "C07:model-seek", format!("program {} on {} len {n}: real {} model {}", short(&program_text(prog)), opt.name(), short(&nat_list(&real_docs)), short(&m)), case.clone());
            }
        }
        if av.has("seekfull") {
            // doc, term_freq and the index of the doc's first position delta (= sum of the
            // term frequencies of all earlier docs; the positions oracle above pins the real one)
            let m = ctx.model.ask(&format!("C07 seekfull {} {n} {} {}", opt.name(), hex(&real), program_text(prog)));
            let entries: Vec<String> = got.iter().map(|g| {
                if g.0 == TERMINATED {
                    format!("{TERMINATED}:0:0")
                } else {
                    let i = docs.partition_point(|d| *d < g.0);
                    let off: u64 = tfs[..i].iter().map(|t| *t as u64).sum();
                    format!("{}:{}:{off}", g.0, g.1)
                }
            }).collect();
            // the read offset is only meaningful (and only compared) for the positional mode
            let strip = |s: &str| s.split(';').map(|e| e.rsplit_once(':').map(|x| x.0).unwrap_or(e).to_string()).collect::<Vec<_>>().join(";");
            let same = if opt == Opt::Positions { m == entries.join(";") } else { strip(&m) == strip(&entries.join(";")) };
            if !same {
                ctx.report.violation("model", "C07:model-seek", format!("seekfull program {} on {} len {n}: real {} model {}", short(&program_text(prog)), opt.name(), short(&entries.join(";")), short(&m)), case.clone());
            }
        }
    }
    // lower requested options on the same bytes: docs identical
    for req in [Opt::Basic, Opt::Freqs] {
        if req >= opt {
            continue;
        }
        if let Ok(mut sp) = open_real(opt, req, n as u32, &real, None) {
            let got = read_all(&mut sp, false);
            let want: Vec<(u32, u32, Vec<u32>)> = expected.iter().map(|e| (e.0, if req == Opt::Basic { 1 } else { e.1 }, vec![])).collect();
            if got != want {
                ctx.report.violation("oracle", "C07:codec-roundtrip", format!("postings {} requested as {}: {}", opt.name(), req.name(), first_diff(&want, &got)), case.clone());
            }
        }
    }
}

fn gen_deltas(rng: &mut Rng) -> Vec<u32> {
    let n = *rng.pick(&[0usize, 1, 2, 127, 128, 129, 255, 256, 257, 300, 384, 1000, 50]);
    let mode = rng.below(6);
    let width = rng.below(33) as u32;
    (0..n)
        .map(|i| match mode {
            0 => 0,
            1 => u32::MAX,
            2 => {
                if width == 0 { 0 } else { (rng.next_u64() & ((1u64 << width) - 1)) as u32 }
            }
            3 => rng.below(4) as u32,
            4 => {
                // a different width per block
                let w = ((i / 128) * 7 + width as usize) % 33;
                if w == 0 { 0 } else { (rng.next_u64() & ((1u64 << w) - 1)) as u32 }
            }
            _ => *rng.pick(&[0u32, 1, 127, 128, 255, 256, 16383, 16384, u32::MAX]),
        })
        .collect()
}

fn check_positions_codec(ctx: &mut Ctx, av: &Avail, deltas: &[u32], reads: &[(usize, usize)]) {
    let n = deltas.len();
    let case = json!({"kind": "positions", "deltas": deltas, "reads": reads.iter().map(|(o, l)| vec![*o, *l]).collect::<Vec<_>>()});
    ctx.report.case(&format!("positions|{}", fnv(nat_list(deltas).as_bytes())), n > 0);
    ctx.report.count("codec:positions");
    ctx.report.count(&format!("codec:poslen:{n}"));
    // split the writes arbitrarily: write_positions_delta may be called several times per term
    let chunks: Vec<Vec<u32>> = deltas.chunks(37).map(|c| c.to_vec()).collect();
    let real = real_positions_bytes(&chunks);
    if av.has("pos_enc") {
        let m = ctx.model.ask(&format!("C07 pos_enc {}", nat_list(deltas)));
        if m != hex(&real) {
            let mb = unhex(&m).unwrap_or_default();
            let at = mb.iter().zip(&real).position(|(a, b)| a != b).unwrap_or(mb.len().min(real.len()));
            ctx.report.violation("model", "C07:model-positions", format!("pos_enc of {n} deltas: bytes differ at {at} (model {} bytes, real {} bytes)", mb.len(), real.len()), case.clone());
        }
    }
    let mut reader = match PositionReader::open(OwnedBytes::new(real.clone())) {
        Ok(r) => r,
        Err(e) => {
            ctx.report.violation("oracle", "C07:codec-roundtrip", format!("PositionReader::open: {e}"), case);
            return;
        }
    };
    // the stateful reader model on the whole sequence of reads (same reader object on both sides)
    {
        let seq: Vec<(usize, usize)> = reads.iter().cloned().filter(|(_, l)| *l > 0).collect();
        if !seq.is_empty() {
            let mut rd = PositionReader::open(OwnedBytes::new(real.clone())).unwrap();
            let outs: Vec<String> = seq.iter().map(|(o, l)| { let mut out = vec![0u32; *l]; rd.read(*o as u64, &mut out); nat_list(&out) }).collect();
            let m = ctx.model.ask(&format!("C07 pos_reads {} {}", hex(&real), seq.iter().map(|(o, l)| format!("{o}:{l}")).collect::<Vec<_>>().join(",")));
            ctx.report.count("codec:pos-reads-stateful");
            if m == "bad-op" {
                ctx.report.violation("model", "C07:model-unavailable", "the Lean driver answers bad-op for pos_reads".into(), json!({"kind": "probe"}));
            } else if m != outs.join("|") {
                ctx.report.violation("model", "C07:model-position-reader", format!("stateful PositionReader on {n} deltas, reads {:?}: real {} model {}", seq, short(&outs.join("|")), short(&m)), case.clone());
            }
        }
    }
    for (off, len) in reads {
        ctx.report.count("codec:pos-read");
        let mut out = vec![0u32; *len];
        reader.read(*off as u64, &mut out);
        if out[..] != deltas[*off..*off + *len] {
            ctx.report.violation("oracle", "C07:codec-roundtrip", format!("PositionReader::read({off}, len {len}) of {n} deltas: {}", first_diff(&deltas[*off..*off + *len], &out)), case.clone());
        }
        if av.has("pos_read") {
            let m = ctx.model.ask(&format!("C07 pos_read {} {off} {len}", hex(&real)));
            if m != nat_list(&out) {
                ctx.report.violation("model", "C07:model-positions", format!("pos_read({off},{len}) of {n} deltas: real {} model {}", short(&nat_list(&out)), short(&m)), case.clone());
            }
        }
    }
}

fn gen_reads(rng: &mut Rng, n: usize) -> Vec<(usize, usize)> {
    let mut reads = vec![];
    if n == 0 {
        return vec![(0, 0)];
    }
    let k = 3 + rng.usize_below(5);
    let mut off = 0usize;
    for _ in 0..k {
        // mostly increasing offsets (the reader is optimised for that), sometimes backwards
        off = if rng.chance(1, 5) { rng.usize_below(n) } else { (off + rng.usize_below(200)).min(n - 1) };
        if rng.chance(1, 4) {
            off = *rng.pick(&[0usize, 127, 128, 129, 255, 256, n - 1]);
            off = off.min(n - 1);
        }
        let maxlen = n - off;
        let len = (*rng.pick(&[0usize, 1, 2, 127, 128, 129, 256, 300, 1000, 5])).min(maxlen);
        reads.push((off, len));
        off += len;
        if off >= n {
            off = n - 1;
        }
    }
    reads.push((0, n));
    reads
}

fn gen_block(rng: &mut Rng) -> [u32; 128] {
    let mut arr = [0u32; 128];
    let real_len = if rng.chance(1, 2) { 128 } else { rng.usize_below(129) };
    let k = rng.below(24) as u32;
    let mut d: u64 = if rng.chance(1, 2) { 0 } else { rng.below(1000) };
    for (i, a) in arr.iter_mut().enumerate() {
        if i >= real_len {
            *a = TERMINATED;
            continue;
        }
        if i > 0 {
            d += 1 + rng.below(1u64 << k);
        }
        *a = d.min(TERMINATED as u64 - 1 - (128 - i as u64)) as u32;
    }
    // keep strictly increasing over the real part after clamping
    for i in 1..real_len {
        if arr[i] <= arr[i - 1] {
            arr[i] = arr[i - 1] + 1;
        }
    }
    arr
}

fn check_blocksearch(ctx: &mut Ctx, av: &Avail, arr: &[u32; 128], targets: &[u32]) {
    let case = json!({"kind": "blocksearch", "arr": arr.to_vec(), "targets": targets});
    ctx.report.case(&format!("blocksearch|{}|{}", fnv(nat_list(&arr[..]).as_bytes()), fnv(nat_list(targets).as_bytes())), true);
    ctx.report.count("codec:blocksearch");
    for t in targets {
        let real = c07_search_block(arr, *t);
        let want = arr.iter().filter(|v| **v < *t).count();
        if real != want {
            ctx.report.violation("oracle", "C07:codec-roundtrip", format!("search_block(target {t}) = {real}, number of elements < target = {want}"), case.clone());
        }
        if av.has("blocksearch") {
            let m = ctx.model.ask(&format!("C07 blocksearch {} {t}", nat_list(&arr[..])));
            if m != real.to_string() {
                ctx.report.violation("model", "C07:model-blocksearch", format!("search_block(target {t}): real {real} model {m}"), case.clone());
            }
        }
    }
}

fn block_targets(rng: &mut Rng, arr: &[u32; 128]) -> Vec<u32> {
    let last = arr[127];
    let mut t = vec![0u32, last, arr[0]];
    for _ in 0..10 {
        let e = arr[rng.usize_below(128)];
        t.push(e);
        t.push(e.saturating_sub(1));
        t.push(e.saturating_add(1));
    }
    for i in [7usize, 15, 16, 63, 64, 111, 126] {
        t.push(arr[i]);
        t.push(arr[i].saturating_add(1));
    }
    // the search assumes target <= last element
    t.retain(|x| *x <= last);
    t.sort();
    t.dedup();
    t
}

fn run_codecs(ctx: &mut Ctx, av: &Avail) {
    let mut rng = ctx.rng.fork();
    let mult = ctx.budget(4, 80);
    // VInt
    let mut ns: Vec<u64> = vec![0, 1, 127, 128, u32::MAX as u64, u32::MAX as u64 + 1, u64::MAX, u64::MAX - 1];
    for k in 1..=9u32 {
        let b = 1u64 << (7 * k);
        ns.extend([b - 1, b, b + 1]);
    }
    for _ in 0..60 * mult {
        let bits = 1 + rng.below(64);
        ns.push(rng.next_u64() >> (64 - bits));
    }
    for n in ns.clone() {
        check_vint(ctx, av, n);
    }
    // bit widths
    let mut bs: Vec<u64> = vec![0, 1, 2, 3, u64::MAX];
    for k in 1..64u32 {
        bs.extend([(1u64 << k) - 1, 1u64 << k]);
    }
    for _ in 0..40 * mult {
        let bits = 1 + rng.below(64);
        bs.push(rng.next_u64() >> (64 - bits));
    }
    for n in bs {
        check_numbits(ctx, av, n);
    }
    // fieldnorm table
    let mut fns: Vec<u32> = vec![0, u32::MAX, u32::MAX - 1];
    for id in 0..=255u8 {
        check_fieldnorm_id(ctx, av, id);
        let f = FieldNormReader::id_to_fieldnorm(id);
        fns.extend([f.saturating_sub(1), f, f.saturating_add(1)]);
    }
    for _ in 0..100 * mult {
        let bits = 1 + rng.below(32);
        fns.push((rng.next_u64() >> (64 - bits)) as u32);
    }
    fns.sort();
    fns.dedup();
    for n in fns {
        check_fieldnorm_n(ctx, av, n);
    }
    // posting lists
    for _ in 0..70 * mult {
        let (docs, tfs, tag) = gen_posting_list(&mut rng);
        for opt in [Opt::Basic, Opt::Freqs, Opt::Positions] {
            let np = 2 + rng.usize_below(3);
            let programs: Vec<Vec<Op>> = (0..np).map(|_| gen_program(&mut rng, &docs)).collect();
            let r = catch_unwind(AssertUnwindSafe(|| check_postings_codec(ctx, av, opt, &docs, &tfs, &programs, &tag)));
            if let Err(p) = r {
                ctx.report.violation("oracle", "C07:panic", format!("postings codec ({} len {}): {}", opt.name(), docs.len(), panic_msg(p)), json!({"kind": "postings", "opt": opt.name(), "docs": docs, "tfs": tfs, "programs": programs.iter().map(|p| program_text(p)).collect::<Vec<_>>()}));
            }
        }
    }
    // positions
    for _ in 0..80 * mult {
        let deltas = gen_deltas(&mut rng);
        let reads = gen_reads(&mut rng, deltas.len());
        let r = catch_unwind(AssertUnwindSafe(|| check_positions_codec(ctx, av, &deltas, &reads)));
        if let Err(p) = r {
            ctx.report.violation("oracle", "C07:panic", format!("positions codec ({} deltas): {}", deltas.len(), panic_msg(p)), json!({"kind": "positions", "deltas": deltas, "reads": reads.iter().map(|(o, l)| vec![*o, *l]).collect::<Vec<_>>()}));
        }
    }
    // in-block search
    for _ in 0..40 * mult {
        let arr = gen_block(&mut rng);
        let targets = block_targets(&mut rng, &arr);
        let r = catch_unwind(AssertUnwindSafe(|| check_blocksearch(ctx, av, &arr, &targets)));
        if let Err(p) = r {
            ctx.report.violation("oracle", "C07:panic", format!("search_block: {}", panic_msg(p)), json!({"kind": "blocksearch", "arr": arr.to_vec(), "targets": targets}));
        }
    }
}

// ------------------------------------------------------------------------------------------
// part (a): read-back on real segments
// ------------------------------------------------------------------------------------------
fn len_bucket(n: usize) -> String {
    if n <= 2 || BOUNDARY_LENS.contains(&n) {
        n.to_string()
    } else if n < 127 {
        "3-126".into()
    } else if n < 4096 {
        "130-4095".into()
    } else {
        ">4097".into()
    }
}

fn postings_text(list: &[(u32, u32, Vec<u32>)]) -> String {
    let mut s = String::new();
    for (i, (d, tf, pos)) in list.iter().enumerate() {
        if i > 0 {
            s.push(',');
        }
        s.push_str(&format!("{d}:{tf}:"));
        if pos.is_empty() {
            s.push('-');
        } else {
            for (j, p) in pos.iter().enumerate() {
                if j > 0 {
                    s.push('.');
                }
                s.push_str(&p.to_string());
            }
        }
    }
    s
}

fn corpus_text(corpus: &Corpus) -> String {
    if corpus.is_empty() {
        return "-".into();
    }
    let mut s = String::new();
    for (d, doc) in corpus.iter().enumerate() {
        if d > 0 {
            s.push(';');
        }
        for (v, value) in doc.iter().enumerate() {
            if v > 0 {
                s.push('/');
            }
            if value.is_empty() {
                s.push('_');
            }
            for (t, tok) in value.iter().enumerate() {
                if t > 0 {
                    s.push(',');
                }
                s.push_str(&hex(&tok.term));
                s.push_str(&format!(":{}:{}", tok.pos, tok.plen));
            }
        }
    }
    s
}

fn seg_case_json(state: u64, profile: &str, field: &str, term: &[u8]) -> J {
    json!({"kind": "segment", "state": state.to_string(), "profile": profile, "field": field, "term": hex(term)})
}

fn typed_term(field: Field, v: &Val) -> Option<(Term, Vec<u8>)> {
    Some(match v {
        Val::U64(x) => (Term::from_field_u64(field, *x), enc_u64(*x)),
        Val::I64(x) => (Term::from_field_i64(field, *x), enc_i64(*x)),
        Val::F64(x) => (Term::from_field_f64(field, *x), enc_f64(*x)),
        Val::Bool(x) => (Term::from_field_bool(field, *x), enc_bool(*x)),
        Val::Date(x) => (Term::from_field_date_for_search(field, tantivy::DateTime::from_timestamp_nanos(*x)), enc_date(*x)),
        Val::Bytes(b) => (Term::from_field_bytes(field, b), b.clone()),
        Val::Ip(x) => (Term::from_field_ip_addr(field, std::net::Ipv6Addr::from(*x)), enc_ip(*x)),
        Val::Facet(p) => {
            let f = tantivy::schema::Facet::from_path(p.iter());
            (Term::from_facet(field, &f), p.join("\u{0}").into_bytes())
        }
        _ => return None,
    })
}

#[allow(clippy::too_many_arguments)]
fn check_field(
    ctx: &mut Ctx,
    av: &Avail,
    case: &SegCase,
    state: u64,
    fi: usize,
    index: &tantivy::Index,
    field: Field,
    sr: &tantivy::SegmentReader,
    rng: &mut Rng,
    nontrivial_case: bool,
) -> Result<(), String> {
    let spec = &case.specs[fi];
    let n = case.docs.len();
    let is_json = spec.kind == Kind::Json;
    let k = |key: &'static str| if is_json { "C07:json" } else { key };
    let cj = |term: &[u8]| seg_case_json(state, &case.profile, &spec.name, term);
    ctx.report.count(&format!("field:{}", spec.kind.name()));
    if matches!(spec.kind, Kind::Text | Kind::Json) {
        ctx.report.count(&format!("field:{}:{}:{}", spec.kind.name(), spec.opt.name(), spec.tokenizer));
    }
    ctx.report.count(if spec.fieldnorms { "fieldnorms:on" } else { "fieldnorms:off" });
    let mut dropped = 0u64;
    let (exp, corpus) = if is_json {
        (invert_json(case, fi, index, &mut dropped), None)
    } else {
        let c = analyse_field(case, fi, index, &mut dropped);
        (invert_rust(&c), Some(c))
    };
    ctx.report.count_n("tokens:dropped-longer-than-MAX_TOKEN_LEN", dropped);
    let inv = sr.inverted_index(field).map_err(|e| e.to_string())?;

    // 1. the term dictionary
    let mut terms = vec![];
    {
        let mut st = inv.terms().stream().map_err(|e| e.to_string())?;
        while st.advance() {
            terms.push((st.key().to_vec(), st.value().clone()));
        }
    }
    for w in terms.windows(2) {
        if w[0].0 >= w[1].0 {
            ctx.report.violation("oracle", k("C07:term-order"), format!("field {}: term stream not strictly increasing: {} then {}", spec.name, hex(&w[0].0), hex(&w[1].0)), cj(&w[1].0));
        }
    }
    // the FieldSerializer layout (model `FieldSerializer.writeTerms`): ranges start at 0 and are back to back
    {
        let mut p = 0usize;
        let mut q = 0usize;
        for (t, ti) in &terms {
            if ti.postings_range.start != p || ti.positions_range.start != q || ti.postings_range.end < p || ti.positions_range.end < q {
                ctx.report.violation("model", "C07:model-terminfo-layout", format!("field {}: TermInfo of {} is postings {:?} positions {:?}, the layout model expects them to start at {p} / {q}", spec.name, short(&hex(t)), ti.postings_range, ti.positions_range), cj(t));
                break;
            }
            p = ti.postings_range.end;
            q = ti.positions_range.end;
        }
        ctx.report.count("terminfo-layout-checked");
    }
    let got_set: BTreeSet<&Vec<u8>> = terms.iter().map(|t| &t.0).collect();
    let want_set: BTreeSet<&Vec<u8>> = exp.map.keys().collect();
    if got_set != want_set {
        let missing = want_set.difference(&got_set).next();
        let extra = got_set.difference(&want_set).next();
        ctx.report.violation(
            "oracle",
            k("C07:term-set"),
            format!("field {} ({}): dictionary has {} terms, expected {}; first missing {:?}, first unexpected {:?}", spec.name, spec.kind.name(), got_set.len(), want_set.len(), missing.map(|t| short(&hex(t))), extra.map(|t| short(&hex(t)))),
            cj(missing.or(extra).map(|t| &t[..]).unwrap_or(&[])),
        );
    }

    // 2. every term
    let mut readback: Vec<(Vec<u8>, PostingList)> = vec![];
    for (tbytes, ti) in &terms {
        let Some(full) = exp.map.get(tbytes) else { continue };
        let basic_term = exp.basic_terms.contains(tbytes);
        let eff = if basic_term { Opt::Basic } else { spec.opt };
        let can_pos = !(basic_term && spec.opt == Opt::Positions);
        let want: PostingList = full.iter().map(|p| project(eff, p)).collect();
        let len = want.len();
        let what = |s: String| format!("field {} ({}, {}) term {} (list length {len}): {s}", spec.name, spec.kind.name(), spec.opt.name(), short(&hex(tbytes)));
        let term = Term::from_field_bytes(field, tbytes);
        let df2 = inv.doc_freq(&term).map_err(|e| e.to_string())?;
        if ti.doc_freq as usize != len || df2 as usize != len {
            ctx.report.violation("oracle", k("C07:doc-freq"), what(format!("term_info.doc_freq {} / doc_freq() {df2}, expected {len}", ti.doc_freq)), cj(tbytes));
        }
        let full_opt = IndexRecordOption::WithFreqsAndPositions;
        let Some(mut sp) = inv.read_postings(&term, full_opt).map_err(|e| e.to_string())? else {
            ctx.report.violation("oracle", k("C07:term-set"), what("read_postings returns None for a term of the dictionary".into()), cj(tbytes));
            continue;
        };
        if sp.doc_freq() as usize != len || sp.size_hint() as usize != len {
            ctx.report.violation("oracle", k("C07:doc-freq"), what(format!("SegmentPostings::doc_freq {} size_hint {}", sp.doc_freq(), sp.size_hint())), cj(tbytes));
        }
        let got = read_all(&mut sp, can_pos);
        if got != want {
            let only_pos = got.len() == want.len() && got.iter().zip(&want).all(|(g, w)| g.0 == w.0 && g.1 == w.1);
            ctx.report.violation("oracle", k(if only_pos { "C07:positions" } else { "C07:postings-advance" }), what(format!("advance() read-back differs at {}", first_diff(&want, &got))), cj(tbytes));
        }
        // seek programs
        let docs: Vec<u32> = want.iter().map(|p| p.0).collect();
        let np = 2 + rng.usize_below(3);
        for _ in 0..np {
            let prog = gen_program(rng, &docs);
            let mut sp = inv.read_postings(&term, full_opt).map_err(|e| e.to_string())?.unwrap();
            let g = run_program(&mut sp, &prog, can_pos);
            let w = expected_program(&want, &prog);
            ctx.report.count("seek-programs");
            if g != w {
                let only_pos = g.iter().zip(&w).all(|(a, b)| a.0 == b.0 && a.1 == b.1);
                let mut c = cj(tbytes);
                c["program"] = json!(program_text(&prog));
                ctx.report.violation("oracle", k(if only_pos { "C07:positions" } else { "C07:postings-seek" }), what(format!("program {}: {}", short(&program_text(&prog)), first_diff(&w, &g))), c);
            }
        }
        // lower requested options
        if len < 300 || rng.chance(1, 3) {
            for req in [Opt::Basic, Opt::Freqs] {
                let mut sp = inv.read_postings(&term, req.real()).map_err(|e| e.to_string())?.unwrap();
                let g = read_all(&mut sp, true);
                let w: PostingList = full.iter().map(|p| project(eff.min(req), p)).collect();
                if g != w {
                    ctx.report.violation("oracle", k("C07:postings-advance"), what(format!("requested {}: {}", req.name(), first_diff(&w, &g))), cj(tbytes));
                }
            }
        }
        // coverage
        ctx.report.count(&format!("len:{}", len_bucket(len)));
        for b in docs.chunks(128) {
            let maxgap = b.windows(2).map(|w| w[1] - w[0] - 1).max().unwrap_or(0);
            ctx.report.count(&format!("{}:{}", if b.len() == 128 { "gapbits" } else { "tail-gapbits" }, 32 - maxgap.leading_zeros()));
        }
        let maxtf = want.iter().map(|p| p.1).max().unwrap_or(0);
        if maxtf >= 128 {
            ctx.report.count("tf:>=128");
        }
        let npos: usize = want.iter().map(|p| p.2.len()).sum();
        if npos > 128 {
            ctx.report.count(&format!("positions-blocks:{}", (npos / 128).min(9)));
        }
        if basic_term {
            ctx.report.count("json:non-text-term");
        }
        ctx.report.case(
            &format!("{}|{}|{}|{}|{}", spec.kind.name(), spec.opt.name(), hex(tbytes), len, fnv(postings_text(&want).as_bytes())),
            nontrivial_case && len > 0,
        );
        if is_json {
            ctx.report.count("json:pairs");
        }
        readback.push((tbytes.clone(), got));
    }

    // typed Term builders reach the same dictionary entry
    let mut seen = 0;
    for doc in &case.docs {
        for (f, v) in doc {
            if *f != fi || seen >= 24 {
                continue;
            }
            if let Some((t, enc)) = typed_term(field, v) {
                seen += 1;
                let want = exp.map.get(&enc).map(|l| l.len()).unwrap_or(0);
                let got = inv.doc_freq(&t).map_err(|e| e.to_string())?;
                ctx.report.count("typed-term-lookups");
                if t.serialized_value_bytes() != &enc[..] || got as usize != want {
                    ctx.report.violation("oracle", k("C07:doc-freq"), format!("field {} ({}): typed Term bytes {} vs independent encoding {}; doc_freq {got} expected {want}", spec.name, spec.kind.name(), hex(t.serialized_value_bytes()), hex(&enc)), cj(&enc));
                }
            }
        }
    }
    // absent terms
    let mut absent: Vec<Vec<u8>> = vec![b"zzz-absent".to_vec(), vec![], vec![0xff; 9]];
    if let Some((t, _)) = terms.first() {
        let mut x = t.clone();
        x.push(0);
        absent.push(x);
    }
    for a in absent {
        if exp.map.contains_key(&a) {
            continue;
        }
        let t = Term::from_field_bytes(field, &a);
        let ti = inv.get_term_info(&t).map_err(|e| e.to_string())?;
        let df = inv.doc_freq(&t).map_err(|e| e.to_string())?;
        let p = inv.read_postings(&t, IndexRecordOption::WithFreqsAndPositions).map_err(|e| e.to_string())?;
        ctx.report.count("len:0");
        ctx.report.case(&format!("{}|absent|{}", spec.name, hex(&a)), false);
        if ti.is_some() || df != 0 || p.is_some() {
            ctx.report.violation("oracle", k("C07:term-set"), format!("field {}: absent term {} is found (doc_freq {df})", spec.name, hex(&a)), cj(&a));
        }
    }

    // 3. total_num_tokens
    if inv.total_num_tokens() != exp.total_tokens {
        ctx.report.violation("oracle", k("C07:total-num-tokens"), format!("field {} ({}): total_num_tokens {} expected {}", spec.name, spec.kind.name(), inv.total_num_tokens(), exp.total_tokens), cj(&[]));
    }

    // 4. fieldnorms
    let mut real_ids: Option<Vec<u8>> = None;
    if spec.fieldnorms {
        let fr = sr.get_fieldnorms_reader(field).map_err(|e| e.to_string())?;
        let mut ids = vec![];
        for d in 0..n as u32 {
            let id = fr.fieldnorm_id(d);
            let f = fr.fieldnorm(d);
            let want_id = FieldNormReader::fieldnorm_to_id(exp.tokens_per_doc[d as usize]);
            if id != want_id || f != FieldNormReader::id_to_fieldnorm(want_id) {
                ctx.report.violation("oracle", k("C07:fieldnorm"), format!("field {} doc {d}: fieldnorm_id {id} fieldnorm {f}; {} tokens expect id {want_id}", spec.name, exp.tokens_per_doc[d as usize]), cj(&[]));
            }
            ids.push(id);
        }
        if fr.num_docs() as usize != n {
            ctx.report.violation("oracle", k("C07:fieldnorm"), format!("field {}: fieldnorm reader has {} docs, segment {n}", spec.name, fr.num_docs()), cj(&[]));
        }
        ctx.report.count("fieldnorm-fields-checked");
        real_ids = Some(ids);
    } else {
        match sr.get_fieldnorms_reader(field) {
            Ok(fr) => ctx.report.count(&format!("fieldnorms-off:reader-constant-id-{}", fr.fieldnorm_id(0))),
            Err(_) => ctx.report.count("fieldnorms-off:reader-error"),
        }
    }

    // model: JSON fields (per-path position bookkeeping)
    if is_json && exp.total_tokens <= 4000 {
        let docs: Vec<String> = exp.json_events.iter().map(|evs| evs.join("/")).collect();
        let ct = if docs.is_empty() { "-".to_string() } else { docs.join(";") };
        let req = if ct.is_empty() { format!("C07 invert_json {}", spec.opt.name()) } else { format!("C07 invert_json {} {ct}", spec.opt.name()) };
        let resp = ctx.model.ask(&req);
        if resp == "bad-op" {
            ctx.report.violation("model", "C07:model-unavailable", "the Lean driver answers bad-op for invert_json".into(), cj(&[]));
        } else {
            ctx.report.count("model:invert-json-requests");
            let parts: Vec<&str> = resp.split('|').collect();
            let entries: Vec<String> = readback.iter().map(|(t, l)| format!("{}={}", hex(t), postings_text(l))).collect();
            let real_terms = if entries.is_empty() { "-".to_string() } else { entries.join(";") };
            if parts.len() != 2 || parts[0] != real_terms {
                let m: Vec<&str> = parts.first().map(|p| p.split(';').collect()).unwrap_or_default();
                let i = (0..m.len().max(entries.len())).find(|i| m.get(*i).copied() != entries.get(*i).map(|s| s.as_str())).unwrap_or(0);
                let t = readback.get(i).map(|r| r.0.clone()).unwrap_or_default();
                ctx.report.violation("model", "C07:model-invert-json", format!("JSON field {} ({}): entry {i} of {}: read-back {:?} model {:?}", spec.name, spec.opt.name(), entries.len(), entries.get(i).map(|s| short(s)), m.get(i).map(|s| short(s))), cj(&t));
            } else if parts[1] != inv.total_num_tokens().to_string() {
                ctx.report.violation("model", "C07:model-invert-json", format!("JSON field {}: total_num_tokens real {} model {}", spec.name, inv.total_num_tokens(), parts[1]), cj(&[]));
            }
        }
    }
    // model
    if let Some(corpus) = corpus {
        if !av.has("invert") {
            ctx.report.count("model:unavailable");
        } else if (exp.map.len() as u64) * exp.total_tokens > 20_000_000 {
            ctx.report.count("model:invert-skipped-cost");
        } else {
            let ct = corpus_text(&corpus);
            let req = if ct.is_empty() { format!("C07 invert {}", spec.opt.name()) } else { format!("C07 invert {} {ct}", spec.opt.name()) };
            let resp = ctx.model.ask(&req);
            ctx.report.count("model:invert-requests");
            // the modelled indexing pipeline (recorders -> serializer -> decoder) on the same corpus
            if exp.total_tokens <= 1200 {
                let preq = req.replacen("C07 invert", "C07 pipeline", 1);
                let presp = ctx.model.ask(&preq);
                if presp == "bad-op" {
                    ctx.report.count("model:unavailable:pipeline");
                    ctx.report.violation("model", "C07:model-unavailable", "the Lean driver answers bad-op for pipeline".into(), cj(&[]));
                } else {
                    ctx.report.count("model:pipeline-requests");
                    if presp != resp {
                        ctx.report.violation("model", "C07:model-pipeline", format!("field {} ({}, {}): modelled pipeline {} differs from invert {}", spec.name, spec.kind.name(), spec.opt.name(), short(&presp), short(&resp)), cj(&[]));
                    }
                }
                // C07_segment_end_to_end: the TermInfos the modelled serialize_postings lays out are the real ones
                let sresp = ctx.model.ask(&req.replacen("C07 invert", "C07 segment", 1));
                if sresp == "bad-op" {
                    ctx.report.violation("model", "C07:model-unavailable", "the Lean driver answers bad-op for segment".into(), cj(&[]));
                } else {
                    ctx.report.count("model:segment-requests");
                    let real_tis: Vec<String> = terms.iter().map(|(_, ti)| format!("{}:{}:{}:{}:{}", ti.doc_freq, ti.postings_range.start, ti.postings_range.end, ti.positions_range.start, ti.positions_range.end)).collect();
                    let real_tis = if real_tis.is_empty() { "-".to_string() } else { real_tis.join(";") };
                    if sresp != real_tis {
                        ctx.report.violation("model", "C07:model-segment-terminfos", format!("field {} ({}, {}): TermInfos of the segment {} model {}", spec.name, spec.kind.name(), spec.opt.name(), short(&real_tis), short(&sresp)), cj(&[]));
                    }
                }
            }
            let parts: Vec<&str> = resp.split('|').collect();
            if parts.len() != 3 {
                ctx.report.violation("model", "C07:model-invert", format!("field {}: model answered {}", spec.name, short(&resp)), cj(&[]));
            } else {
                let entries: Vec<String> = readback.iter().map(|(t, l)| format!("{}={}", hex(t), postings_text(l))).collect();
                let real_terms = if entries.is_empty() { "-".to_string() } else { entries.join(";") };
                if parts[0] != real_terms {
                    let m: Vec<&str> = parts[0].split(';').collect();
                    let i = (0..m.len().max(entries.len())).find(|i| m.get(*i).copied() != entries.get(*i).map(|s| s.as_str())).unwrap_or(0);
                    let t = readback.get(i).map(|r| r.0.clone()).unwrap_or_default();
                    ctx.report.violation("model", "C07:model-invert", format!("field {} ({}, {}): entry {i} of {}: read-back {:?} model {:?}", spec.name, spec.kind.name(), spec.opt.name(), entries.len(), entries.get(i).map(|s| short(s)), m.get(i).map(|s| short(s))), cj(&t));
                }
                if parts[1] != inv.total_num_tokens().to_string() {
                    ctx.report.violation("model", "C07:model-invert", format!("field {}: total_num_tokens real {} model {}", spec.name, inv.total_num_tokens(), parts[1]), cj(&[]));
                }
                if let Some(ids) = &real_ids {
                    if parts[2] != nat_list(ids) {
                        ctx.report.violation("model", "C07:model-invert", format!("field {}: fieldnorm ids real {} model {}", spec.name, short(&nat_list(ids)), short(parts[2])), cj(&[]));
                    }
                }
            }
        }
    }
    Ok(())
}

fn check_segment(ctx: &mut Ctx, av: &Avail, state: u64, profile: &str) {
    let mut rng = Rng(state);
    let case = gen_case(&mut rng, profile);
    let n = case.docs.len();
    ctx.report.count(&format!("segment:{profile}"));
    ctx.report.count_n("segment-docs", n as u64);
    let cj = seg_case_json(state, profile, "", &[]);
    let (index, fields) = match catch_unwind(AssertUnwindSafe(|| build_index(&case))) {
        Ok(Ok(x)) => x,
        Ok(Err(e)) => {
            ctx.report.violation("oracle", "C07:index-error", format!("indexing {n} docs failed: {e}"), cj);
            return;
        }
        Err(p) => {
            ctx.report.violation("oracle", "C07:panic", format!("indexing {n} docs panicked: {}", panic_msg(p)), cj);
            return;
        }
    };
    let searcher = match index.reader() {
        Ok(r) => r.searcher(),
        Err(e) => {
            ctx.report.violation("oracle", "C07:index-error", format!("cannot open reader: {e}"), cj);
            return;
        }
    };
    let segs = searcher.segment_readers();
    if segs.len() != 1 || segs[0].max_doc() as usize != n || segs[0].num_docs() as usize != n {
        ctx.report.violation("oracle", "C07:segment-count", format!("{} segments, max_doc {:?}, expected one segment of {n} docs", segs.len(), segs.first().map(|s| s.max_doc())), cj);
        return;
    }
    let nontrivial = case.specs.len() >= 2 && n >= 2;
    for fi in 0..case.specs.len() {
        let mut frng = rng.fork();
        let r = catch_unwind(AssertUnwindSafe(|| check_field(ctx, av, &case, state, fi, &index, fields[fi], &segs[0], &mut frng, nontrivial)));
        match r {
            Ok(Ok(())) => {}
            Ok(Err(e)) => ctx.report.violation("oracle", "C07:read-error", format!("field {}: reading failed: {e}", case.specs[fi].name), seg_case_json(state, profile, &case.specs[fi].name, &[])),
            Err(p) => ctx.report.violation("oracle", "C07:panic", format!("field {} ({}, {}): {}", case.specs[fi].name, case.specs[fi].kind.name(), case.specs[fi].opt.name(), panic_msg(p)), seg_case_json(state, profile, &case.specs[fi].name, &[])),
        }
    }
    if ctx.report.samples.len() < 4 && (profile != "small" || ctx.report.samples.is_empty()) {
        ctx.report.sample(json!({
            "segment": profile, "docs": n,
            "fields": case.specs.iter().map(|s| format!("{}:{}:{}:{}{}", s.name, s.kind.name(), s.opt.name(), s.tokenizer, if s.fieldnorms { ":norms" } else { "" })).collect::<Vec<_>>(),
            "first_doc_values": case.docs[0].iter().take(4).map(|(f, v)| format!("{}={}", case.specs[*f].name, short(&format!("{v:?}")))).collect::<Vec<_>>(),
        }));
    }
}

// ------------------------------------------------------------------------------------------
// replay / run
// ------------------------------------------------------------------------------------------
fn u32s(v: &J) -> Vec<u32> {
    v.as_array().map(|a| a.iter().filter_map(|x| x.as_u64().map(|x| x as u32)).collect()).unwrap_or_default()
}

fn replay(ctx: &mut Ctx, av: &Avail, case: &J) {
    let kind = case["kind"].as_str().unwrap_or("");
    match kind {
        "segment" => {
            let state: u64 = case["state"].as_str().and_then(|s| s.parse().ok()).unwrap_or(0);
            check_segment(ctx, av, state, case["profile"].as_str().unwrap_or("small"));
        }
        "vint" => check_vint(ctx, av, case["n"].as_str().and_then(|s| s.parse().ok()).unwrap_or(0)),
        "numbits" => check_numbits(ctx, av, case["n"].as_str().and_then(|s| s.parse().ok()).unwrap_or(0)),
        "fieldnorm-id" => check_fieldnorm_id(ctx, av, case["id"].as_u64().unwrap_or(0) as u8),
        "fieldnorm-n" => check_fieldnorm_n(ctx, av, case["n"].as_u64().unwrap_or(0) as u32),
        "postings" => {
            let opt = Opt::from_name(case["opt"].as_str().unwrap_or("")).unwrap_or(Opt::Basic);
            let programs: Vec<Vec<Op>> = case["programs"].as_array().map(|a| a.iter().filter_map(|p| p.as_str().and_then(parse_program)).collect()).unwrap_or_default();
            let (docs, tfs) = (u32s(&case["docs"]), u32s(&case["tfs"]));
            if let Err(p) = catch_unwind(AssertUnwindSafe(|| check_postings_codec(ctx, av, opt, &docs, &tfs, &programs, "replay"))) {
                ctx.report.violation("oracle", "C07:panic", format!("postings codec: {}", panic_msg(p)), case.clone());
            }
        }
        "positions" => {
            let deltas = u32s(&case["deltas"]);
            let reads: Vec<(usize, usize)> = case["reads"].as_array().map(|a| a.iter().map(|r| (r[0].as_u64().unwrap_or(0) as usize, r[1].as_u64().unwrap_or(0) as usize)).collect()).unwrap_or_default();
            if let Err(p) = catch_unwind(AssertUnwindSafe(|| check_positions_codec(ctx, av, &deltas, &reads))) {
                ctx.report.violation("oracle", "C07:panic", format!("positions codec: {}", panic_msg(p)), case.clone());
            }
        }
        "blocksearch" => {
            let a = u32s(&case["arr"]);
            if let Ok(arr) = <[u32; 128]>::try_from(a) {
                check_blocksearch(ctx, av, &arr, &u32s(&case["targets"]));
            }
        }
        _ => ctx.report.notes.push(format!("replay: unknown case kind {kind:?}")),
    }
}

pub fn run(ctx: &mut Ctx) {
    ctx.report.rule = "cases = (field, term) pairs of generated one-segment indexes and codec inputs; a (field, term) pair is \
        non-trivial if its segment has >= 2 fields and >= 2 docs and the term's posting list is non-empty (distinct by field \
        kind, record option, term bytes and the expected postings); a codec case is non-trivial if its list is non-empty"
        .into();
    ctx.report.correspondence_obligations = vec![
        "term dictionary stream of every indexed field = distinct expected term bytes, strictly increasing (independent encodings per field type)".into(),
        "term_info.doc_freq = inv.doc_freq = SegmentPostings::doc_freq/size_hint = expected number of docs".into(),
        "postings read by advance(): (doc, term_freq, positions) = independent Rust inversion projected to the field's record option".into(),
        "postings driven by generated advance/seek programs = expected cursor semantics (incl. positions after seeks)".into(),
        "postings requested with lower IndexRecordOption: same docs".into(),
        "inv.total_num_tokens = number of indexed tokens; fieldnorm_id(doc) = fieldnorm_to_id(#tokens of the doc)".into(),
        "read-back (terms, postings, total_num_tokens, fieldnorm ids) = Lean model `invert` of the same analysed corpus".into(),
        "VInt bytes / decoding incl. truncated inputs = model".into(),
        "compute_num_bits = model".into(),
        "fieldnorm_to_id / id_to_fieldnorm = model table; bracket and monotonicity on the real code".into(),
        "model `enc` bytes = PostingsSerializer bytes and decode through the real BlockSegmentPostings; model `dec` of real bytes = input".into(),
        "model `seek` = real SegmentPostings driven by the same program on the real bytes".into(),
        "model `pos_enc` bytes = PositionSerializer bytes; model `pos_read` = PositionReader::read".into(),
        "model `blocksearch` = postings::search_block = number of elements < target".into(),
        "TermInfos of every field: ranges start at 0 and are back to back (model FieldSerializer.writeTerms)".into(),
        "JSON fields: read-back = model `invert_json` on the leaf events (per-path position bookkeeping)".into(),
        "stateful PositionReader on read sequences = model `pos_reads`".into(),
    ];
    ctx.report.correspondence_obligations.extend(crate::c07_more::obligations());
    let av = probe(ctx);
    if let Some(case) = ctx.replay.clone() {
        if !crate::c07_more::replay(ctx, &case) {
            replay(ctx, &av, &case);
        }
        return;
    }
    assert_eq!(tantivy::tokenizer::MAX_TOKEN_LEN, 65530);
    // part (a)
    let plan: [(&str, u64); 4] = [("small", ctx.budget(300, 6000)), ("medium", ctx.budget(60, 1200)), ("big", ctx.budget(8, 120)), ("huge", ctx.budget(3, 20))];
    for (profile, count) in plan {
        for _ in 0..count {
            let state = ctx.rng.fork().0;
            check_segment(ctx, &av, state, profile);
        }
    }
    // part (b)
    run_codecs(ctx, &av);
    // part (c): the recorders' u32 VInt encoder, threshold segments, recycled block cursor
    crate::c07_more::run(ctx, av.has("vint32_enc") && av.has("vint32_dec"));
    ctx.report.sample(json!({"codec": "postings", "example": "C07 enc freqs 1,5,9 2,1,7 -> 818484828187 (= PostingsSerializer bytes); C07 dec basic 3 818484 -> 1,5,9|1,1,1"}));
}
