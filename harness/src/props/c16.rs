//! C16 — probe version
use crate::Ctx;
use std::panic::{catch_unwind, AssertUnwindSafe};
use tantivy_query_grammar::{parse_query, parse_query_lenient};

pub fn run(ctx: &mut Ctx) {
    if let Ok(p) = std::env::var("C16_PROBE") {
        for line in std::fs::read_to_string(p).unwrap().lines() {
            let s = catch_unwind(AssertUnwindSafe(|| parse_query(line)));
            let l = catch_unwind(AssertUnwindSafe(|| parse_query_lenient(line)));
            eprintln!("{line:?}\n   strict  {:?}\n   lenient {:?}", s.map_err(|_| "PANIC"), l.map_err(|_| "PANIC"));
        }
    }
    ctx.report.notes.push("C16: harness not built yet".into());
}
