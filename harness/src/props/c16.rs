//! C16 — the query parser is total and implements its documented grammar.
//!
//! (a) totality / robustness of the real parsers (`tantivy_query_grammar::{parse_query,
//!     parse_query_lenient}`, `QueryParser::{parse_query, parse_query_lenient}`) on printed abstract
//!     queries, mutations, random UTF-8, operator edge cases; very long and deeply nested inputs in
//!     a child process with a wall-clock limit; strict-ok ⇒ lenient returns the same tree and no error;
//! (b) fold correspondence: canonicalised real `UserInputAst` = `rewrite (build q)` of the Lean model;
//! (c) semantics: doc-id set of the parsed query on a typed corpus = brute-force meaning of the
//!     generating abstract query (oracle) = Lean `semQ` = Lean model of the parser pipeline.
use crate::c16gen::*;
use crate::rng::Rng;
use crate::Ctx;
use serde_json::{json, Value};
use std::collections::BTreeSet;
use std::panic::{catch_unwind, AssertUnwindSafe};
use tantivy::collector::DocSetCollector;
use tantivy::query::QueryParser;
use tantivy::schema::{Schema, FAST, INDEXED, STORED, STRING, TEXT};
use tantivy::{Index, IndexWriter, TantivyDocument};
use tantivy_query_grammar::{parse_query, parse_query_lenient, UserInputAst};

const KEY_EXISTS_PANIC: &str = "C16:exists-without-field-panic";
const KEY_UNWRAP: &str = "C16:rewrite-unwrap-changes-occur";
const KEY_DEEP: &str = "C16:deep-nesting-stack-overflow";
const KEY_LENIENT_REGEX: &str = "C16:lenient-regex-commit-differs-from-strict";
const KEY_LENIENT_RANGE_SPACE: &str = "C16:lenient-range-space-before-closing-bracket";
const KEY_LENIENT_RANGE_COMMIT: &str = "C16:lenient-range-commit-differs-from-strict";
const KEY_JSON_NUL: &str = "C16:json-path-nul-byte-panic";
const KEY_LENIENT_SET_QUOTE: &str = "C16:lenient-set-space-after-opening-bracket";
const KEY_LENIENT_NOT: &str = "C16:lenient-not-requires-plain-space";
const KEY_FIELD_WS: &str = "C16:field-name-absorbs-tab-newline";
const KEY_SEEK_ASSERT: &str = "C16:search-exclude-seek-below-doc-debug-assert";
const KEY_LENIENT_ADJACENT: &str = "C16:lenient-touching-clauses-differ-from-strict";
const KEY_LENIENT_NOT_FIELD: &str = "C16:lenient-not-keyword-vs-field-name";
const KEY_LENIENT_RANGE_ESCAPE: &str = "C16:lenient-range-bound-escape-differs";
const KEY_BOOST_SKIP: &str = "C16:rewrite-skips-boosted-group";
const KEY_RANGE_SEEK_OVERFLOW: &str = "C16:search-range-docset-seek-danger-overflow";
const KEY_LENIENT_NEG_SUFFIX: &str = "C16:lenient-negative-number-with-suffix";
const KEY_PREFIX_GAP: &str = "C16:phrase-prefix-gap-before-prefix-term-ignored";
const KEY_SET_LOOP: &str = "C16:lenient-set-unicode-space-loop";

// ------------------------------------------------------------------------------------------
// generators
// ------------------------------------------------------------------------------------------

fn lit_str(s: &str) -> Lit {
    Lit { text: s.to_string(), val: Val::Str(s.to_string()) }
}

fn typed_lit(rng: &mut Rng, f: usize) -> Lit {
    match f {
        F_U64 => {
            let v = *rng.pick(&[0u64, 1, 2, 3, 4, 5, 10, 42, 999, 1000, u64::MAX]);
            Lit { text: v.to_string(), val: Val::U(v) }
        }
        F_I64 | F_JSN => {
            let v = *rng.pick(&[-1000i64, -6, -5, -1, 0, 1, 2, 3, 5, 7, 42, 43]);
            Lit { text: v.to_string(), val: Val::I(v) }
        }
        F_F64 => {
            let v = *rng.pick(&[-2.25f64, -1.0, 0.0, 0.5, 1.5, 2.0, 3.0, 60.7, 70.5]);
            let text = if v.fract() == 0.0 && rng.chance(1, 2) { format!("{}", v as i64) } else { format!("{v:?}") };
            Lit { text, val: Val::F(v) }
        }
        F_WHEN => {
            let v = DATE_BASE + 3600 * (rng.below(10) as i64) - 10800 + if rng.chance(1, 4) { 1800 } else { 0 };
            Lit { text: rfc3339(v), val: Val::Date(v) }
        }
        F_IP => {
            let v = *rng.pick(&[0xffff_c0a8_0001u128, 0xffff_c0a8_00ff, 0xffff_0a00_0001, 1, 0x2001_0db8_0000_0000_0000_0000_0000_0001, 0xffff_c0a8_0002]);
            Lit { text: ip_text(v), val: Val::Ip(v) }
        }
        F_BLOB => {
            let v = rng.pick(&[&b"abc"[..], b"a", b"ab", b"\x00\xff\xfe", b"hello!", b"zz"]).to_vec();
            Lit { text: b64(&v), val: Val::Bytes(v) }
        }
        F_FLAG => {
            let v = rng.chance(1, 2);
            Lit { text: v.to_string(), val: Val::Bool(v) }
        }
        F_CAT => {
            let v = rng.pick(&["/a", "/a/b", "/a/b/c", "/x", "/x/y", "/q"]).to_string();
            Lit { text: v.clone(), val: Val::Facet(v) }
        }
        F_TAG => lit_str(*rng.pick(TAGS)),
        _ => {
            let w = rng.pick(WORDS).to_string();
            if rng.chance(1, 8) { lit_str(&w.to_uppercase()) } else { lit_str(&w) }
        }
    }
}

/// how a literal of this field may be written
fn delim_for(rng: &mut Rng, f: Option<usize>, text: &str) -> Delim {
    let must_quote = matches!(f, Some(F_CAT)) && text.matches('/').count() == 2 && false;
    let _ = must_quote;
    match f {
        // a facet `/a/b` is read as the regex `/a/` followed by `b` only when a delimiter follows; quote sometimes
        Some(F_WHEN) | Some(F_IP) | Some(F_BLOB) | Some(F_CAT) => *rng.pick(&[Delim::Double, Delim::Single, Delim::None]),
        _ => *rng.pick(&[Delim::None, Delim::None, Delim::None, Delim::Double, Delim::Single]),
    }
}

fn gen_sem_leaf(rng: &mut Rng) -> LeafSpec {
    match rng.below(100) {
        0..=29 => {
            // word on a text field or the default fields
            let field = *rng.pick(&[None, None, Some(F_TITLE), Some(F_BODY), Some(F_TAG), Some(F_JSK), Some(F_JSAB), Some(F_STOP)]);
            let lit = typed_lit(rng, field.unwrap_or(F_TITLE));
            let delim = delim_for(rng, field, &lit.text);
            // `a~2` unquoted is the word "a~2": slop only after a quoted literal
            let slop = if delim != Delim::None && rng.chance(1, 6) { 2 } else { 0 };
            LeafSpec::Lit { field, lit, delim, slop }
        }
        30..=44 if rng.chance(2, 5) => {
            // a phrase on the stop-word field: the analyzer drops `the` / `of` but keeps their positions
            let pick = |rng: &mut Rng, stop: bool| if stop { rng.pick(STOP_WORDS).to_string() } else { rng.pick(WORDS).to_string() };
            let mut words: Vec<String> = vec![];
            if rng.chance(1, 6) {
                words.push(pick(rng, true));
            }
            words.push(pick(rng, false));
            // dropped tokens strictly between kept ones (0..2 of them)
            for _ in 0..rng.below(3) {
                words.push(pick(rng, true));
            }
            words.push(pick(rng, false));
            let (slop, prefix) = match rng.below(4) {
                0 => (1 + rng.below(3) as u32, false),
                1 => (0, true),
                _ => (0, false),
            };
            if slop == 0 && rng.chance(1, 3) {
                if rng.chance(1, 2) {
                    words.push(pick(rng, true));
                }
                words.push(pick(rng, false));
            }
            LeafSpec::Phrase { field: Some(F_STOP), words, delim: *rng.pick(&[Delim::Double, Delim::Double, Delim::Single]), slop, prefix }
        }
        30..=44 => {
            let field = *rng.pick(&[None, Some(F_TITLE), Some(F_BODY)]);
            let n = if rng.chance(1, 4) { 3 } else { 2 };
            let words: Vec<String> = (0..n).map(|_| rng.pick(WORDS).to_string()).collect();
            let (slop, prefix) = match rng.below(4) {
                0 if n == 2 => (1 + rng.below(3) as u32, false),
                1 => (0, true),
                _ => (0, false),
            };
            LeafSpec::Phrase { field, words, delim: *rng.pick(&[Delim::Double, Delim::Double, Delim::Single]), slop, prefix }
        }
        45..=59 => {
            // typed term
            let f = *rng.pick(&[F_U64, F_I64, F_F64, F_WHEN, F_IP, F_BLOB, F_FLAG, F_CAT, F_JSN]);
            let lit = typed_lit(rng, f);
            let mut delim = delim_for(rng, Some(f), &lit.text);
            if lit.text.starts_with('-') && delim == Delim::None && false {
                delim = Delim::Double;
            }
            LeafSpec::Lit { field: Some(f), lit, delim, slop: 0 }
        }
        60..=81 => {
            let f = *rng.pick(&[F_TITLE, F_BODY, F_TAG, F_U64, F_I64, F_F64, F_WHEN, F_IP, F_U64, F_I64]);
            let a = typed_lit(rng, f);
            let b = typed_lit(rng, f);
            // range bounds are bare words: no whitespace / brackets / quotes inside
            let bare = |l: &Lit| !l.text.chars().any(|c| c.is_whitespace() || "{}[]()\"".contains(c));
            if !bare(&a) || !bare(&b) {
                return gen_sem_leaf(rng);
            }
            let (a, b) = if a.val.cmp(&b.val) == Some(std::cmp::Ordering::Greater) { (b, a) } else { (a, b) };
            let elastic = rng.chance(1, 3);
            let (lo, hi) = if elastic {
                match rng.below(4) {
                    0 => (Bd::Incl(a), Bd::Unbounded),
                    1 => (Bd::Excl(a), Bd::Unbounded),
                    2 => (Bd::Unbounded, Bd::Incl(b)),
                    _ => (Bd::Unbounded, Bd::Excl(b)),
                }
            } else {
                let lo = match rng.below(5) {
                    0 => Bd::Unbounded,
                    1 | 2 => Bd::Incl(a),
                    _ => Bd::Excl(a),
                };
                let hi = match rng.below(5) {
                    0 if !matches!(lo, Bd::Unbounded) => Bd::Unbounded,
                    1 | 2 => Bd::Incl(b),
                    _ => Bd::Excl(b),
                };
                (lo, hi)
            };
            // elastic bounds stop at `)`; a text bound containing an escaped char is avoided above
            LeafSpec::Range { field: Some(f), lo, hi, elastic }
        }
        82..=91 => {
            let f = *rng.pick(&[F_TITLE, F_TAG, F_U64, F_I64, F_IP, F_FLAG, F_CAT, F_F64]);
            let n = rng.below(4) as usize;
            let elems = (0..n)
                .map(|_| {
                    let l = typed_lit(rng, f);
                    let d = delim_for(rng, Some(f), &l.text);
                    (l, d)
                })
                .collect();
            LeafSpec::Set { field: Some(f), elems }
        }
        92..=94 => LeafSpec::Exists { field: *rng.pick(&[F_TITLE, F_U64, F_TAG]) },
        _ => LeafSpec::All,
    }
}

/// grammar-level leaves: arbitrary field names, no schema
fn gen_wild_leaf(rng: &mut Rng) -> LeafSpec {
    let field = if rng.chance(1, 2) { None } else { Some(rng.usize_below(FIELDS.len())) };
    match rng.below(20) {
        0..=9 => {
            let w = format!("w{}", rng.below(6));
            let delim = *rng.pick(&[Delim::None, Delim::None, Delim::Double, Delim::Single]);
            LeafSpec::Lit { field, lit: lit_str(&w), delim, slop: if delim != Delim::None && rng.chance(1, 4) { rng.below(4) as u32 } else { 0 } }
        }
        10..=11 => {
            let t = rng.pick(&["-5", "-1.5", "x-y", "k:v", "sp ace", "it's", "say \"hi\"", "a\\b", "é", "日本", "1.5", "+1"]).to_string();
            let delim = if t.starts_with('+') || t.contains('"') || t.contains('\'') || t.contains('\\') {
                // written quoted: the quoting/escaping printer handles these
                *rng.pick(&[Delim::Double, Delim::Single])
            } else {
                *rng.pick(&[Delim::None, Delim::Double, Delim::Single])
            };
            // an unquoted leading `-` without a field is the MustNot marker
            let delim = if field.is_none() && t.starts_with('-') && delim == Delim::None { Delim::Double } else { delim };
            LeafSpec::Lit { field, lit: lit_str(&t), delim, slop: 0 }
        }
        12..=13 => {
            let words: Vec<String> = (0..2 + rng.below(2)).map(|_| format!("w{}", rng.below(6))).collect();
            let (slop, prefix) = match rng.below(3) {
                0 => (1 + rng.below(300) as u32, false),
                1 => (0, true),
                _ => (0, false),
            };
            LeafSpec::Phrase { field, words, delim: *rng.pick(&[Delim::Double, Delim::Single]), slop, prefix }
        }
        14..=15 => {
            let a = lit_str(*rng.pick(&["1", "a", "-5", "2002-10-02T15:00:00Z", "1.5", "abc"]));
            let b = lit_str(*rng.pick(&["9", "z", "-1", "2003-10-02T15:00:00Z", "70.5", "toto"]));
            let field = if a.text.contains(':') || b.text.contains(':') { Some(field.unwrap_or(F_WHEN)) } else { field };
            let elastic = rng.chance(1, 3);
            let (lo, hi) = if elastic {
                match rng.below(4) {
                    0 => (Bd::Incl(a), Bd::Unbounded),
                    1 => (Bd::Excl(a), Bd::Unbounded),
                    2 => (Bd::Unbounded, Bd::Incl(b)),
                    _ => (Bd::Unbounded, Bd::Excl(b)),
                }
            } else {
                (
                    match rng.below(3) { 0 => Bd::Unbounded, 1 => Bd::Incl(a), _ => Bd::Excl(a) },
                    match rng.below(3) { 0 => Bd::Unbounded, 1 => Bd::Incl(b), _ => Bd::Excl(b) },
                )
            };
            LeafSpec::Range { field, lo, hi, elastic }
        }
        16..=17 => {
            let n = rng.below(4) as usize;
            let elems = (0..n)
                .map(|_| {
                    let t = rng.pick(&["a", "b", "cd", "1", "-2", "x y"]).to_string();
                    let d = if t.contains(' ') { Delim::Double } else { *rng.pick(&[Delim::None, Delim::Double, Delim::Single]) };
                    (lit_str(&t), d)
                })
                .collect();
            LeafSpec::Set { field, elems }
        }
        18 => LeafSpec::Exists { field: rng.usize_below(FIELDS.len()) },
        _ => LeafSpec::All,
    }
}

struct QGen<'a> {
    rng: &'a mut Rng,
    g: Gen,
    wild: bool,
    allow_dups: bool,
}

impl<'a> QGen<'a> {
    fn leaf(&mut self) -> Q {
        let l = if self.wild { gen_wild_leaf(self.rng) } else { gen_sem_leaf(self.rng) };
        self.g.leaves.push(l);
        Q::Leaf(self.g.leaves.len() - 1)
    }
    /// an operand: leaf, boosted operand, group, scoped group
    fn operand(&mut self, depth: u32) -> Q {
        let r = self.rng.below(100);
        if depth == 0 || r < 55 {
            let l = self.leaf();
            let elastic = matches!(self.g.leaves.last(), Some(LeafSpec::Range { elastic: true, .. }));
            if !elastic && self.rng.chance(1, 8) {
                return Q::Boost(Box::new(l), *self.rng.pick(&[2.0, 0.5, 3.25, 10.0, 0.0]));
            }
            return l;
        }
        if r < 80 {
            let s = self.seq(depth - 1, false);
            if self.rng.chance(1, 6) {
                return Q::Boost(Box::new(s), *self.rng.pick(&[2.0, 0.5, 1.5]));
            }
            return s;
        }
        if r < 88 {
            // redundant parentheses
            let inner = self.operand(depth - 1);
            return Q::Seq(vec![(None, None, inner)]);
        }
        if r < 95 {
            let f = if self.wild { *self.rng.pick(&[F_TITLE, F_BODY, F_TAG]) } else { *self.rng.pick(&[F_TITLE, F_BODY]) };
            let s = self.seq(depth - 1, false);
            return Q::Scoped(f, Box::new(s));
        }
        if self.wild {
            let inner = self.operand(depth - 1);
            let inner = match inner {
                Q::Boost(i, _) => *i,
                o => o,
            };
            return Q::Neg(Box::new(inner));
        }
        self.leaf()
    }
    fn seq(&mut self, depth: u32, top: bool) -> Q {
        let n = match self.rng.below(10) {
            0 => 1,
            1..=4 => 2,
            5..=7 => 3,
            8 => 4,
            _ => 5 + self.rng.below(3) as usize,
        };
        let form = self.rng.below(if self.wild { 3 } else { 2 });
        let mut items: Vec<(Option<Op>, Option<Occ>, Q)> = vec![];
        for k in 0..n {
            let mut sub = self.operand(depth);
            let (op, occ) = match form {
                0 => (if k == 0 { None } else { Some(if self.rng.chance(1, 2) { Op::And } else { Op::Or }) }, None),
                1 => {
                    let occ = match self.rng.below(6) {
                        0 | 1 => Some(Occ::Must),
                        2 => Some(Occ::MustNot),
                        _ => None,
                    };
                    if occ.is_none() && self.rng.chance(1, 10) && n >= 2 {
                        // `NOT x` as an unmarked clause is `-x`
                        let inner = match sub {
                            Q::Boost(i, _) => *i,
                            o => o,
                        };
                        sub = Q::Neg(Box::new(inner));
                    }
                    (None, occ)
                }
                _ => {
                    let op = if k == 0 { None } else { *self.rng.pick(&[None, Some(Op::And), Some(Op::Or)]) };
                    let occ = *self.rng.pick(&[None, None, Some(Occ::Must), Some(Occ::MustNot)]);
                    (op, occ)
                }
            };
            items.push((op, occ, sub));
        }
        if self.allow_dups && n >= 2 && self.rng.chance(1, 10) {
            let k = self.rng.usize_below(items.len());
            let mut dup = items[k].clone();
            if form == 0 || (form == 2 && dup.0.is_none()) {
                dup.0 = Some(if self.rng.chance(1, 2) { Op::And } else { Op::Or });
            }
            if form == 1 {
                dup.0 = None;
            }
            items.push(dup);
        }
        if !self.wild && !top {
            // the documentation gives no meaning to a parenthesised lone negative clause
            let lone_neg = items.len() == 1 && (items[0].1 == Some(Occ::MustNot) || matches!(items[0].2, Q::Neg(_)));
            let all_neg_marks = is_marks(&items) && items.iter().all(|i| i.1 == Some(Occ::MustNot) || matches!(i.2, Q::Neg(_)));
            if lone_neg || (all_neg_marks && has_dup_items(&Q::Seq(items.clone()))) {
                items[0].1 = None;
                if let Q::Neg(inner) = items[0].2.clone() {
                    items[0].2 = *inner;
                }
            }
        }
        Q::Seq(items)
    }
}

fn gen_query(rng: &mut Rng, wild: bool, allow_dups: bool) -> (Gen, Q) {
    let depth = rng.below(3) as u32;
    let mut qg = QGen { rng, g: Gen { leaves: vec![] }, wild, allow_dups };
    let q = if qg.rng.chance(1, 12) { qg.operand(depth) } else { qg.seq(depth, true) };
    let g = qg.g;
    (g, q)
}

// ------------------------------------------------------------------------------------------
// canonical form of the real UserInputAst
// ------------------------------------------------------------------------------------------

fn field_id(name: Option<&str>) -> String {
    match name {
        None => "-".into(),
        Some(n) => match FIELDS.iter().position(|f| *f == n) {
            Some(i) => i.to_string(),
            None => format!("?{n}"),
        },
    }
}

fn canon_ast(v: &Value, intern: &mut Intern, out: &mut Vec<String>) {
    let ty = v["type"].as_str().unwrap_or("");
    let bound = |b: &Value| match b["type"].as_str().unwrap_or("") {
        "inclusive" => format!("i:{}", b["value"].as_str().unwrap_or("")),
        "exclusive" => format!("e:{}", b["value"].as_str().unwrap_or("")),
        _ => "u".to_string(),
    };
    match ty {
        "bool" => {
            let cs = v["clauses"].as_array().cloned().unwrap_or_default();
            out.push("c".into());
            out.push(cs.len().to_string());
            for c in cs {
                out.push(match c[0].as_str() {
                    None => "-",
                    Some("should") => "s",
                    Some("must") => "m",
                    Some("must_not") => "x",
                    Some(_) => "?",
                }.into());
                canon_ast(&c[1], intern, out);
            }
        }
        "boost" => {
            out.push("b".into());
            let b = v["boost"].as_f64().unwrap_or(f64::INFINITY);
            out.push(b.to_bits().to_string());
            canon_ast(&v["underlying"], intern, out);
        }
        "literal" => {
            let d = format!("L|{}|{}|{}|{}", v["phrase"].as_str().unwrap_or(""), v["delimiter"].as_str().unwrap_or(""), v["slop"], v["prefix"]);
            out.extend(["l".to_string(), field_id(v["field_name"].as_str()), "0".into(), intern.id(&d).to_string()]);
        }
        "range" => {
            let d = format!("R|{}|{}", bound(&v["lower"]), bound(&v["upper"]));
            out.extend(["l".to_string(), field_id(v["field"].as_str()), "1".into(), intern.id(&d).to_string()]);
        }
        "set" => {
            let els: Vec<String> = v["elements"].as_array().map(|a| a.iter().map(|e| e.as_str().unwrap_or("").to_string()).collect()).unwrap_or_default();
            let d = format!("S|{}", els.join("|"));
            out.extend(["l".to_string(), field_id(v["field"].as_str()), "2".into(), intern.id(&d).to_string()]);
        }
        "exists" => out.extend(["l".to_string(), field_id(v["field"].as_str()), "3".into(), "0".into()]),
        "all" => out.extend(["l".to_string(), "-".into(), "4".into(), "0".into()]),
        other => out.extend(["l".to_string(), "-".into(), "5".into(), format!("?{other}")]),
    }
}

/// canonical text of the real tree in the format of the character-layer model (Driver/C16Chars.lean)
fn canon_chars(v: &Value, out: &mut Vec<String>) {
    let hx = |s: &str| crate::model::hex(s.as_bytes());
    let opt = |v: &Value| match v.as_str() {
        Some(s) => crate::model::hex(s.as_bytes()),
        None => "~".to_string(),
    };
    let bound = |b: &Value| match b["type"].as_str().unwrap_or("") {
        "inclusive" => format!("i:{}", hx(b["value"].as_str().unwrap_or(""))),
        "exclusive" => format!("e:{}", hx(b["value"].as_str().unwrap_or(""))),
        _ => "u".to_string(),
    };
    match v["type"].as_str().unwrap_or("") {
        "bool" => {
            let cs = v["clauses"].as_array().cloned().unwrap_or_default();
            out.push("c".into());
            out.push(cs.len().to_string());
            for c in cs {
                out.push(match c[0].as_str() {
                    None => "-",
                    Some("should") => "s",
                    Some("must") => "m",
                    Some("must_not") => "x",
                    Some(_) => "?",
                }.into());
                canon_chars(&c[1], out);
            }
        }
        "boost" => {
            out.push("b".into());
            out.push(v["boost"].as_f64().unwrap_or(f64::INFINITY).to_bits().to_string());
            canon_chars(&v["underlying"], out);
        }
        "literal" => out.extend([
            "L".to_string(),
            opt(&v["field_name"]),
            hx(v["phrase"].as_str().unwrap_or("")),
            match v["delimiter"].as_str().unwrap_or("") {
                "none" => "n",
                "single_quotes" => "s",
                _ => "d",
            }.to_string(),
            v["slop"].to_string(),
            if v["prefix"] == true { "1".into() } else { "0".into() },
        ]),
        "range" => out.extend(["R".to_string(), opt(&v["field"]), bound(&v["lower"]), bound(&v["upper"])]),
        "set" => {
            let els: Vec<String> = v["elements"].as_array().map(|a| a.iter().map(|e| hx(e.as_str().unwrap_or(""))).collect()).unwrap_or_default();
            out.extend(["S".to_string(), opt(&v["field"]), els.len().to_string()]);
            out.extend(els);
        }
        "exists" => out.extend(["E".to_string(), hx(v["field"].as_str().unwrap_or(""))]),
        "all" => out.push("A".into()),
        "regex" => out.extend(["X".to_string(), opt(&v["field"]), hx(v["pattern"].as_str().unwrap_or(""))]),
        other => out.push(format!("?{other}")),
    }
}

/// the model's answer with boosts turned into f64 bit patterns (and boosts within EPSILON of 1
/// dropped, as `boosted_leaf` does on the parsed float)
fn normalise_model_tree(m: &str) -> String {
    let rest = match m.strip_prefix("tree ") {
        Some(r) => r,
        None => return m.to_string(),
    };
    let toks: Vec<&str> = rest.split(',').collect();
    let mut out: Vec<String> = vec![];
    let mut i = 0;
    while i < toks.len() {
        if toks[i] == "b" && i + 1 < toks.len() {
            let b: f64 = toks[i + 1].parse().unwrap_or(f64::NAN);
            if (b - 1.0).abs() > f64::EPSILON {
                out.push("b".into());
                out.push(b.to_bits().to_string());
            }
            i += 2;
        } else {
            out.push(toks[i].to_string());
            i += 1;
        }
    }
    format!("tree {}", out.join(","))
}

fn canon(ast: &UserInputAst, intern: &mut Intern) -> String {
    let v = serde_json::to_value(ast).unwrap_or(Value::Null);
    let mut out = vec![];
    canon_ast(&v, intern, &mut out);
    out.join(",")
}

// ------------------------------------------------------------------------------------------
// the real parsers, guarded
// ------------------------------------------------------------------------------------------

fn panic_text(e: Box<dyn std::any::Any + Send>) -> String {
    if let Some(s) = e.downcast_ref::<&str>() {
        s.to_string()
    } else if let Some(s) = e.downcast_ref::<String>() {
        s.clone()
    } else {
        "non-string panic".into()
    }
}

fn panic_key(msg: &str) -> &'static str {
    if msg.contains("Exist query without a field") {
        KEY_EXISTS_PANIC
    } else if msg.contains("JSON value bytes should be empty") {
        KEY_JSON_NUL
    } else {
        "C16:panic"
    }
}

struct World {
    index: Index,
    docs: Vec<DocRec>,
    parser_or: QueryParser,
    parser_and: QueryParser,
}

/// the typed schema and an empty in-RAM index with the stop-word analyzer registered
fn new_index() -> (Schema, Index) {
    use tantivy::schema::{IndexRecordOption, TextFieldIndexing, TextOptions};
    use tantivy::tokenizer::{LowerCaser, SimpleTokenizer, StopWordFilter, TextAnalyzer};
    let mut sb = Schema::builder();
    sb.add_text_field("title", TEXT | STORED);
    sb.add_text_field("body", TEXT);
    sb.add_text_field("tag", STRING);
    sb.add_u64_field("n_u64", INDEXED | FAST);
    sb.add_i64_field("n_i64", INDEXED);
    sb.add_f64_field("n_f64", INDEXED | FAST);
    sb.add_date_field("when", INDEXED | FAST);
    sb.add_ip_addr_field("ip", INDEXED | FAST);
    sb.add_bytes_field("blob", INDEXED);
    sb.add_bool_field("flag", INDEXED);
    sb.add_facet_field("cat", tantivy::schema::FacetOptions::default());
    sb.add_json_field("js", TEXT);
    sb.add_u64_field("id", FAST | STORED);
    // an analyzer that drops tokens but keeps positions: a phrase must keep the gap
    let stop_opts = TextOptions::default().set_indexing_options(TextFieldIndexing::default().set_tokenizer("stopw").set_index_option(IndexRecordOption::WithFreqsAndPositions));
    sb.add_text_field("stop", stop_opts);
    let schema = sb.build();
    let index = Index::create_in_ram(schema.clone());
    let analyzer = TextAnalyzer::builder(SimpleTokenizer::default())
        .filter(LowerCaser)
        .filter(StopWordFilter::remove(STOP_WORDS.iter().map(|w| w.to_string()).collect::<Vec<_>>()))
        .build();
    index.tokenizers().register("stopw", analyzer);
    (schema, index)
}

fn build_world(rng: &mut Rng, ndocs: usize) -> World {
    let docs: Vec<DocRec> = (0..ndocs).map(|_| gen_doc(rng)).collect();
    let cut = if rng.chance(1, 2) { ndocs / 2 } else { ndocs };
    build_world_docs(docs, cut)
}

fn build_world_docs(docs: Vec<DocRec>, cut: usize) -> World {
    let (schema, index) = new_index();
    let mut w: IndexWriter = index.writer_with_num_threads(1, 20_000_000).unwrap();
    for (i, d) in docs.iter().enumerate() {
        let doc = TantivyDocument::parse_json(&schema, &d.to_json(i as u64).to_string()).expect("doc json");
        w.add_document(doc).unwrap();
        if i + 1 == cut {
            w.commit().unwrap();
        }
    }
    w.commit().unwrap();
    drop(w);
    let defaults: Vec<_> = DEFAULT_FIELDS.iter().map(|f| schema.get_field(FIELDS[*f]).unwrap()).collect();
    let parser_or = QueryParser::for_index(&index, defaults.clone());
    let mut parser_and = QueryParser::for_index(&index, defaults);
    parser_and.set_conjunction_by_default();
    World { index, docs, parser_or, parser_and }
}

fn run_query(w: &World, q: &dyn tantivy::query::Query) -> Result<BTreeSet<usize>, String> {
    let reader = w.index.reader().map_err(|e| e.to_string())?;
    let searcher = reader.searcher();
    let hits = searcher.search(q, &DocSetCollector).map_err(|e| e.to_string())?;
    let mut out = BTreeSet::new();
    for a in hits {
        let seg = searcher.segment_reader(a.segment_ord);
        let col = seg.fast_fields().u64("id").map_err(|e| e.to_string())?;
        out.insert(col.first(a.doc_id).unwrap_or(u64::MAX) as usize);
    }
    Ok(out)
}

fn bits(set: &BTreeSet<usize>, n: usize) -> String {
    (0..n).map(|i| if set.contains(&i) { '1' } else { '0' }).collect()
}

include!("c16_attr.rs");
include!("c16_parts.rs");
