//! Canonical form of real aggregation results (JSON of `AggregationResults`) guided by the
//! request tree, and their comparison with the direct evaluator's result.
use super::spec::SR;
use super::*;
use std::collections::BTreeMap;

#[derive(Clone, Debug, PartialEq)]
pub enum CR {
    /// named numeric components (`value`, `count`, `sum`, …); `None` = JSON null
    Metric(BTreeMap<String, Option<f64>>),
    Pct(Vec<(String, f64)>),
    Hits(Vec<i64>),
    Terms { buckets: Vec<(i64, u64, Vec<CR>)>, other: u64, err: Option<u64> },
    List(Vec<(i64, u64, Vec<CR>)>),
    Filter(u64, Vec<CR>),
    Comp(Vec<(Vec<i64>, u64, Vec<CR>)>),
}

fn num_to_code(f: Fd, x: f64) -> Result<i64, String> {
    let y = x * f.scale() as f64;
    if (y - y.round()).abs() > 1e-9 { return Err(format!("key {x} of field {} is not a multiple of the unit", f.name())); }
    Ok(y.round() as i64)
}

fn term_key_code(f: Fd, b: &Value) -> Result<i64, String> {
    let k = &b["key"];
    match f {
        Fd::Kw | Fd::Cat | Fd::JsS | Fd::Ip => {
            let s = k.as_str().ok_or(format!("terms key of {} is not a string: {k}", f.name()))?;
            universe(f).iter().position(|u| u == s).map(|p| p as i64).ok_or(format!("unknown terms key {s:?} for field {}", f.name()))
        }
        Fd::D => {
            let s = k.as_str().ok_or(format!("date terms key is not a string: {k}"))?;
            parse_date_ms(s).ok_or(format!("date key {s:?} does not parse"))
        }
        Fd::B => {
            let c = k.as_u64().ok_or(format!("bool key {k}"))? as i64;
            let kas = b["key_as_string"].as_str().unwrap_or("");
            if kas != if c != 0 { "true" } else { "false" } { return Err(format!("bool key {c} with key_as_string {kas:?}")); }
            Ok(c)
        }
        _ => num_to_code(f, k.as_f64().ok_or(format!("numeric terms key expected for {}: {k}", f.name()))?),
    }
}

fn subs_of(node: &Node, obj: &Value, no_segments: bool) -> Result<Vec<CR>, String> {
    canon_opt(&node.subs, obj, no_segments)
}

/// expected `key` string / from / to of the range bucket `idx` (cuts sorted, model units)
fn range_bucket_fmt(field: Fd, ranges: &[(Option<i64>, Option<i64>, Option<String>)], cuts: &[i64], idx: usize) -> (String, Option<f64>, Option<f64>) {
    let from = if idx == 0 { None } else { Some(cuts[idx - 1]) };
    let to = if idx == cuts.len() { None } else { Some(cuts[idx]) };
    let norm = |a: &Option<i64>| -> Option<i64> { match a { Some(a) if field == Fd::U && *a <= 0 => None, x => *x } };
    let custom = ranges.iter().find(|(a, b, k)| k.is_some() && norm(a) == from && *b == to).and_then(|r| r.2.clone());
    let f = |v: i64| v as f64 / field.scale() as f64;
    let s = |v: Option<i64>| v.map(|v| f(v).to_string()).unwrap_or("*".into());
    (custom.unwrap_or(format!("{}-{}", s(from), s(to))), from.map(f), to.map(f))
}

pub fn canon(nodes: &[Node], obj: &Value) -> Result<Vec<CR>, String> { canon_opt(nodes, obj, false) }

pub fn canon_opt(nodes: &[Node], obj: &Value, no_segments: bool) -> Result<Vec<CR>, String> {
    let mut out = vec![];
    for n in nodes {
        let v = obj.get(&n.name).ok_or(format!("result of aggregation {} missing", n.name))?;
        let cr = match &n.agg {
            Agg::Metric { kind, .. } => match kind {
                MK::Percentiles => {
                    let mut l: Vec<(String, f64)> = if n.opt.keyed {
                        let vals = v["values"].as_object().ok_or("keyed percentiles without a values object")?;
                        vals.iter().map(|(k, x)| (k.clone(), x.as_f64().unwrap_or(f64::NAN))).collect()
                    } else {
                        let vals = v["values"].as_array().ok_or("percentiles (keyed = false) without a values array")?;
                        vals.iter().map(|e| (e["key"].as_f64().unwrap_or(f64::NAN).to_string(), e["value"].as_f64().unwrap_or(f64::NAN))).collect()
                    };
                    l.sort_by(|a, b| a.0.parse::<f64>().unwrap().partial_cmp(&b.0.parse::<f64>().unwrap()).unwrap());
                    CR::Pct(l)
                }
                MK::TopHits => {
                    let hits = v["hits"].as_array().ok_or("top_hits without hits")?;
                    let mut l = vec![];
                    for h in hits {
                        let s = h["sort"][0].as_u64().ok_or("top_hits sort value")? as i64;
                        let dv = h["docvalue_fields"]["uid"][0].as_u64().ok_or(format!("top_hits docvalue_fields: {h}"))? as i64;
                        if s != dv { return Err(format!("top_hits sort value {s} differs from docvalue {dv}")); }
                        l.push(s);
                    }
                    CR::Hits(l)
                }
                _ => {
                    let mut m = BTreeMap::new();
                    let o = v.as_object().ok_or("metric result is not an object")?;
                    for (k, x) in o {
                        if let Some(inner) = x.as_object() {
                            for (k2, x2) in inner { m.insert(format!("{k}.{k2}"), x2.as_f64()); }
                        } else {
                            m.insert(k.clone(), x.as_f64());
                        }
                    }
                    // cardinality is a sketch estimate: two partitions may differ within its error
                    if *kind == MK::Cardinality { m.insert("__sketch".into(), Some(1.0)); }
                    CR::Metric(m)
                }
            },
            Agg::Terms { field, .. } => {
                let bs = v["buckets"].as_array().ok_or("terms without buckets")?;
                let mut buckets = vec![];
                for b in bs {
                    buckets.push((term_key_code(*field, b)?, b["doc_count"].as_u64().ok_or("doc_count")?, subs_of(n, b, no_segments)?));
                }
                CR::Terms { buckets, other: v["sum_other_doc_count"].as_u64().ok_or("sum_other_doc_count")?, err: v["doc_count_error_upper_bound"].as_u64() }
            }
            Agg::Hist { field, interval, offset, .. } => {
                let owned: Vec<Value>;
                let bs: &Vec<Value> = if n.opt.keyed {
                    // keyed output: an object keyed by the bucket key; order = numeric key order
                    let m = v["buckets"].as_object().ok_or("keyed histogram without a buckets object")?;
                    for (k, b) in m { if b["key"].as_f64().map(|x| x.to_string()) != Some(k.clone()) { return Err(format!("keyed histogram: entry {k:?} holds key {}", b["key"])); } }
                    let mut l: Vec<Value> = m.values().cloned().collect();
                    l.sort_by(|a, b| a["key"].as_f64().unwrap_or(0.0).total_cmp(&b["key"].as_f64().unwrap_or(0.0)));
                    owned = l;
                    &owned
                } else { v["buckets"].as_array().ok_or("histogram without buckets")? };
                let mut buckets = vec![];
                for b in bs {
                    let key = b["key"].as_f64().ok_or("histogram key")?;
                    let code = num_to_code(*field, key)?;
                    let rel = code - offset.unwrap_or(0);
                    if rel.rem_euclid(*interval) != 0 { return Err(format!("histogram key {key} is not offset + k*interval")); }
                    if *field == Fd::D && !no_segments {
                        let kas = b["key_as_string"].as_str().unwrap_or("");
                        if kas != fmt_date_ms(code) { return Err(format!("date histogram key {key} has key_as_string {kas:?}, expected {:?}", fmt_date_ms(code))); }
                    }
                    buckets.push((rel.div_euclid(*interval), b["doc_count"].as_u64().ok_or("doc_count")?, subs_of(n, b, no_segments)?));
                }
                CR::List(buckets)
            }
            Agg::Range { field, ranges } => {
                let owned: Vec<Value>;
                let bs: &Vec<Value> = if n.opt.keyed {
                    let m = v["buckets"].as_object().ok_or("keyed range without a buckets object")?;
                    for (k, b) in m { if b["key"].as_str() != Some(k.as_str()) { return Err(format!("keyed range: entry {k:?} holds key {}", b["key"])); } }
                    let mut l: Vec<Value> = m.values().cloned().collect();
                    l.sort_by(|a, b| a["from"].as_f64().unwrap_or(f64::MIN).total_cmp(&b["from"].as_f64().unwrap_or(f64::MIN)));
                    owned = l;
                    &owned
                } else { v["buckets"].as_array().ok_or("range without buckets")? };
                let cuts = range_cuts(*field, ranges);
                let mut buckets = vec![];
                for (i, b) in bs.iter().enumerate() {
                    if i > cuts.len() { return Err(format!("range has {} buckets, expected {}", bs.len(), cuts.len() + 1)); }
                    let (key, from, to) = range_bucket_fmt(*field, ranges, &cuts, i);
                    if b["key"].as_str() != Some(&key) || b["from"].as_f64() != from || b["to"].as_f64() != to {
                        return Err(format!("range bucket {i}: key {} from {} to {}, expected key {key:?} from {from:?} to {to:?}", b["key"], b["from"], b["to"]));
                    }
                    buckets.push((i as i64, b["doc_count"].as_u64().ok_or("doc_count")?, subs_of(n, b, no_segments)?));
                }
                CR::List(buckets)
            }
            Agg::Composite { sources, .. } => {
                let bs = v["buckets"].as_array().ok_or("composite without buckets")?;
                let key_of = |kv: &Value| -> Result<Vec<i64>, String> {
                    sources.iter().map(|s| {
                        let x = &kv[&s.name];
                        if s.field.is_str() {
                            let t = x.as_str().ok_or(format!("composite key {} is not a string: {x}", s.name))?;
                            universe(s.field).iter().position(|u| u == t).map(|p| p as i64).ok_or(format!("unknown composite key {t:?}"))
                        } else {
                            num_to_code(s.field, x.as_f64().ok_or(format!("composite key {} is not a number: {x}", s.name))?)
                        }
                    }).collect()
                };
                let mut buckets = vec![];
                for b in bs { buckets.push((key_of(&b["key"])?, b["doc_count"].as_u64().ok_or("doc_count")?, subs_of(n, b, no_segments)?)); }
                if let Some(last) = buckets.last() {
                    // after_key values are "<type>:<value>" strings
                    if let Some(ak) = v["after_key"].as_object() {
                        let mut plain = serde_json::Map::new();
                        for s in sources.iter() {
                            let raw = ak.get(&s.name).and_then(|x| x.as_str()).ok_or(format!("after_key without {}", s.name))?;
                            let (ty, val) = raw.split_once(':').ok_or(format!("after_key value {raw:?}"))?;
                            plain.insert(s.name.clone(), if ty == "str" { json!(val) } else { json!(val.parse::<f64>().map_err(|_| format!("after_key value {raw:?}"))?) });
                        }
                        if key_of(&Value::Object(plain))? != last.0 { return Err(format!("composite after_key {} is not the last bucket's key", v["after_key"])); }
                    }
                }
                CR::Comp(buckets)
            }
            Agg::Filter { .. } => CR::Filter(v["doc_count"].as_u64().ok_or("filter doc_count")?, subs_of(n, v, no_segments)?),
        };
        out.push(cr);
    }
    Ok(out)
}

fn close(a: f64, b: f64, scale: f64) -> bool {
    a == b || (a - b).abs() <= 1e-9 * scale.abs().max(a.abs()).max(b.abs())
}

fn cmp_opt(name: &str, real: Option<&Option<f64>>, exp: Option<f64>, exact: bool, scale: f64) -> Result<(), String> {
    let real = match real { Some(r) => *r, None => return Err(format!("component {name} missing")) };
    match (real, exp) {
        (None, None) => Ok(()),
        (Some(r), Some(e)) if (exact && r == e) || (!exact && close(r, e, scale)) => Ok(()),
        _ => Err(format!("{name}: real {real:?} expected {exp:?}")),
    }
}

/// exact quantile check with the DDSketch guarantee (relative accuracy 1%)
fn cmp_pct(real: &[(String, f64)], sorted: &[i64], factor: f64) -> Result<(), String> {
    for (q, v) in real {
        let q: f64 = q.parse().map_err(|_| "percentile key")?;
        if sorted.is_empty() { if !v.is_nan() { return Err(format!("percentile {q} of nothing = {v}")); } continue; }
        let rank = q / 100.0 * (sorted.len() - 1) as f64;
        let lo = sorted[rank.floor() as usize] as f64 * factor;
        let hi = sorted[rank.ceil() as usize] as f64 * factor;
        let (lo, hi) = (lo.min(hi), lo.max(hi));
        let tol = |x: f64| 0.0101 * x.abs() + 1e-6;
        if !(*v >= lo - tol(lo) && *v <= hi + tol(hi)) {
            return Err(format!("percentile {q}: real {v}, exact value between {lo} and {hi} (n={})", sorted.len()));
        }
    }
    Ok(())
}

pub struct CmpCtx {
    /// index without any segment: a `histogram` on a date field is then not recognised as a
    /// date aggregation (no key_as_string)
    pub no_segments: bool,
    /// terms nodes (by name) whose segment-level truncation may have happened: only the
    /// documented bounds are checked below them
    pub may_truncate: Vec<String>,
    /// all documents are in ONE segment: the per-segment cut keeps the first `segment_size >= size`
    /// buckets in request order, so the shown buckets and sum_other_doc_count are exact anyway
    /// (only doc_count_error_upper_bound shows that a cut happened)
    pub single_segment: bool,
    /// histogram / range nodes at which (in lenient mode) only keys and counts are compared
    /// expected doc_count_error_upper_bound of top-level terms nodes in the single-segment case
    pub seg_cut_count: std::collections::BTreeMap<String, u64>,
    pub skip_err_bound: bool,
    pub skip_subs_at: Vec<String>,
    /// attribution mode only: metric nodes that are not compared (they carry the signature of
    /// another known finding)
    pub skip_metrics: Vec<String>,
    /// attribution mode only: composite pages are not compared (see the known finding
    /// `C14:composite-lost-when-merged-into-empty-from-req`)
    pub lenient_empty_composite: bool,
    pub notes: Vec<String>,
}

/// real canonical result vs. direct evaluation; `Err((where, what))`
pub fn compare(nodes: &[Node], real: &[CR], exp: &[SR], cx: &mut CmpCtx) -> Result<(), (String, String)> {
    for ((n, r), e) in nodes.iter().zip(real).zip(exp) {
        cmp_one(n, r, e, cx).map_err(|(w, m)| (if w.is_empty() { n.name.clone() } else { format!("{}>{}", n.name, w) }, m))?;
    }
    Ok(())
}

fn here(m: String) -> (String, String) { (String::new(), m) }

fn cmp_buckets(n: &Node, real: &[(i64, u64, Vec<CR>)], exp: &[(i64, u64, Vec<SR>)], cx: &mut CmpCtx) -> Result<(), (String, String)> {
    if real.len() != exp.len() {
        return Err(here(format!("{} buckets, expected {} (real keys/counts {:?}, expected {:?})", real.len(), exp.len(),
            real.iter().map(|b| (b.0, b.1)).collect::<Vec<_>>(), exp.iter().map(|b| (b.0, b.1)).collect::<Vec<_>>())));
    }
    for (r, e) in real.iter().zip(exp) {
        if r.0 != e.0 || r.1 != e.1 {
            return Err(here(format!("bucket (key {}, count {}) expected (key {}, count {}); real {:?} expected {:?}", r.0, r.1, e.0, e.1,
                real.iter().map(|b| (b.0, b.1)).collect::<Vec<_>>(), exp.iter().map(|b| (b.0, b.1)).collect::<Vec<_>>())));
        }
        if cx.skip_subs_at.contains(&n.name) { continue; }
        compare(&n.subs, &r.2, &e.2, cx).map_err(|(w, m)| (format!("[{}]>{}", r.0, w), m))?;
    }
    Ok(())
}

fn cmp_one(n: &Node, real: &CR, exp: &SR, cx: &mut CmpCtx) -> Result<(), (String, String)> {
    if cx.skip_metrics.contains(&n.name) { return Ok(()); }
    match (real, exp) {
        (CR::Hits(r), SR::Hits(e)) => if r == e { Ok(()) } else { Err(here(format!("top_hits {r:?} expected {e:?}"))) },
        (CR::Pct(r), SR::Metric { sorted, field, .. }) => cmp_pct(r, sorted, field.metric_factor()).map_err(here),
        (CR::Metric(m), SR::Metric { kind, field, count, sum, sumsq, min, max, distinct, sigma, .. }) => {
            let fac = field.metric_factor();
            let numeric = !field.is_str();
            let cnt = *count as f64;
            let s = *sum as f64 * fac;
            let mag = s.abs().max(1.0);
            let mn = min.map(|v| v as f64 * fac);
            let mx = max.map(|v| v as f64 * fac);
            let avg = if *count > 0 { Some(s / cnt) } else { None };
            let exact_minmax = *field != Fd::D;
            let r = match kind {
                MK::Count => cmp_opt("value", m.get("value"), Some(cnt), true, 1.0),
                MK::Sum => cmp_opt("value", m.get("value"), Some(s), false, mag),
                MK::Min => cmp_opt("value", m.get("value"), mn, exact_minmax, mag),
                MK::Max => cmp_opt("value", m.get("value"), mx, exact_minmax, mag),
                MK::Avg => cmp_opt("value", m.get("value"), avg, false, mag),
                MK::Cardinality => {
                    let v = m.get("value").cloned().flatten().unwrap_or(f64::NAN);
                    let d = *distinct as f64;
                    if (*distinct <= 150 && v.round() == d) || (*distinct > 150 && (v - d).abs() <= 0.05 * d) { Ok(()) }
                    else { Err(format!("cardinality {v}, exact {d}")) }
                }
                MK::Stats | MK::ExtStats => (|| {
                    cmp_opt("count", m.get("count"), Some(cnt), true, 1.0)?;
                    cmp_opt("sum", m.get("sum"), Some(s), false, mag)?;
                    cmp_opt("min", m.get("min"), mn, exact_minmax, mag)?;
                    cmp_opt("max", m.get("max"), mx, exact_minmax, mag)?;
                    cmp_opt("avg", m.get("avg"), avg, false, mag)?;
                    if *kind == MK::ExtStats {
                        let ssq = *sumsq as f64 * fac * fac;
                        cmp_opt("sum_of_squares", m.get("sum_of_squares"), if *count > 0 { Some(ssq) } else { None }, false, ssq.max(1.0))?;
                        // n * Σv² − (Σv)² is exact in integers
                        let num = (*count as i128 * *sumsq - *sum * *sum) as f64 * fac * fac;
                        let var = if *count > 1 { Some(num / (cnt * cnt)) } else { None };
                        let vars = if *count > 1 { Some(num / (cnt * (cnt - 1.0))) } else { None };
                        let vscale = (ssq / cnt.max(1.0)).max(1e-12);
                        cmp_opt("variance", m.get("variance"), var, false, vscale)?;
                        cmp_opt("variance_population", m.get("variance_population"), var, false, vscale)?;
                        cmp_opt("variance_sampling", m.get("variance_sampling"), vars, false, vscale)?;
                        let sd = m.get("std_deviation").cloned().flatten();
                        match (sd, var) {
                            (None, None) => {}
                            (Some(sd), Some(var)) if close(sd * sd, var, vscale) => {
                                let up = m.get("std_deviation_bounds.upper").cloned().flatten();
                                let lo = m.get("std_deviation_bounds.lower").cloned().flatten();
                                let mean = avg.unwrap();
                                let w = *sigma * var.sqrt();
                                let tol = 1e-6 * (mean.abs() + w + 1.0);
                                if !(up.map(|u| (u - (mean + w)).abs() <= tol).unwrap_or(false) && lo.map(|l| (l - (mean - w)).abs() <= tol).unwrap_or(false)) {
                                    return Err(format!("std_deviation_bounds {up:?}/{lo:?}, expected {} / {} (sigma {sigma})", mean + w, mean - w));
                                }
                                // the sampling bounds use the sampling deviation with the same sigma
                                if let (Some(us), Some(vs)) = (m.get("std_deviation_bounds.upper_sampling").cloned().flatten(), vars) {
                                    let ws = *sigma * vs.sqrt();
                                    if (us - (mean + ws)).abs() > 1e-6 * (mean.abs() + ws + 1.0) { return Err(format!("std_deviation_bounds.upper_sampling {us}, expected {} (sigma {sigma})", mean + ws)); }
                                }
                            }
                            _ => return Err(format!("std_deviation {sd:?} but variance {var:?}")),
                        }
                    }
                    Ok(())
                })(),
                _ => Ok(()),
            };
            let _ = numeric;
            r.map_err(here)
        }
        (CR::Comp(_), SR::Comp { .. }) if cx.lenient_empty_composite => Ok(()),
        (CR::Comp(r), SR::Comp { all, size, .. }) => {
            let shown = &all[..(*size).min(all.len())];
            let ks = |l: &[(Vec<i64>, u64, Vec<CR>)]| l.iter().map(|b| (b.0.clone(), b.1)).collect::<Vec<_>>();
            let es: Vec<(Vec<i64>, u64)> = shown.iter().map(|b| (b.0.clone(), b.1)).collect();
            if ks(r) != es { return Err(here(format!("composite buckets {:?}, expected {:?}", ks(r), es))); }
            if cx.skip_subs_at.contains(&n.name) { return Ok(()); }
            for (x, y) in r.iter().zip(shown) { compare(&n.subs, &x.2, &y.2, cx).map_err(|(w, m)| (format!("[{:?}]>{}", x.0, w), m))?; }
            Ok(())
        }
        (CR::Filter(rc, rs), SR::Filter(ec, es)) => {
            if rc != ec { return Err(here(format!("filter doc_count {rc}, expected {ec}"))); }
            compare(&n.subs, rs, es, cx)
        }
        (CR::List(r), SR::List(_, true)) => if r.is_empty() { Ok(()) } else { Err(here(format!("range that no segment instantiated has {} buckets", r.len()))) },
        (CR::List(r), SR::List(e, false)) => cmp_buckets(n, r, e, cx),
        (CR::Terms { buckets, other, err }, SR::Terms { all, size, order, subkey, .. }) => {
            let total: u64 = all.iter().map(|b| b.1).sum();
            // In ONE segment the cut keeps the first `segment_size >= size` buckets in request order,
            // so the shown buckets are exact — unless the segment stage orders differently from the
            // final stage (order by sub-aggregation: documented approximation; rendered ip / date /
            // f64 keys: known finding) or fills zero-count terms up to segment_size (min_doc_count 0).
            let (tfield, tmdc) = match &n.agg { Agg::Terms { field, mdc, .. } => (*field, *mdc), _ => unreachable!() };
            // (the cut happens BEFORE the min_doc_count filter, so with min_doc_count > 1 buckets that
            // pass the filter can be cut in favour of buckets that do not: exact only for 1)
            let exact_single = cx.single_segment && subkey.is_none() && tmdc.unwrap_or(1) == 1
                && !(matches!(order, TOrd::KeyAsc | TOrd::KeyDesc) && matches!(tfield, Fd::Ip | Fd::D | Fd::Fl));
            // Ordered by `_key` the cut is invisible for ANY number of segments (each segment keeps its
            // first / last `segment_size >= size` keys: C14_terms_key_{asc,desc}_exact_under_truncation,
            // C14_terms_key_order_exact_any_schedule): buckets and sum_other_doc_count are compared exactly;
            // only doc_count_error_upper_bound is an over-estimate.  Not below: another terms node (its own
            // cut is only bounded).
            let exact_key_multi = !cx.single_segment && matches!(order, TOrd::KeyAsc | TOrd::KeyDesc) && subkey.is_none()
                && tmdc.unwrap_or(1) == 1 && !matches!(tfield, Fd::Ip | Fd::D | Fd::Fl) && !has_terms(&n.subs);
            if cx.may_truncate.contains(&n.name) && !exact_single && !exact_key_multi {
                // documented approximation: only the bounds are promised
                let shown: u64 = buckets.iter().map(|b| b.1).sum();
                let e = err.unwrap_or(0);
                let (_, _, mdc, _) = match &n.agg { Agg::Terms { size, seg, mdc, order, .. } => terms_defaults(*size, *seg, *mdc, order), _ => unreachable!() };
                for b in buckets {
                    let truth = all.iter().find(|x| x.0 == b.0).map(|x| x.1);
                    match truth {
                        Some(t) if b.1 <= t && (*order != TOrd::CountDesc || subkey.is_some() || t <= b.1 + e) => {}
                        None if mdc > 1 => {}
                        _ => return Err(here(format!("terms with segment truncation: bucket {} has count {} but the true count is {truth:?} (doc_count_error_upper_bound {e})", b.0, b.1))),
                    }
                }
                if mdc <= 1 && shown + other != total {
                    return Err(here(format!("terms with segment truncation: shown {shown} + sum_other_doc_count {other} != total {total}")));
                }
                cx.notes.push("terms-truncated".into());
                return Ok(());
            }
            // ties of `_count` are unspecified: order each tie group of the expectation as the
            // real result did, then compare strictly
            let mut sorted = all.clone();
            let pos = |k: i64| buckets.iter().position(|b| b.0 == k).unwrap_or(usize::MAX);
            if let Some((vals, asc)) = subkey {
                let mut keyed: Vec<(f64, (i64, u64, Vec<SR>))> = vals.iter().cloned().zip(all.iter().cloned()).collect();
                keyed.sort_by(|a, b| (if *asc { a.0.total_cmp(&b.0) } else { b.0.total_cmp(&a.0) }).then(pos(a.1 .0).cmp(&pos(b.1 .0))).then(a.1 .0.cmp(&b.1 .0)));
                sorted = keyed.into_iter().map(|x| x.1).collect();
            } else if matches!(order, TOrd::CountDesc | TOrd::CountAsc) {
                sorted.sort_by(|a, b| {
                    let c = if *order == TOrd::CountDesc { b.1.cmp(&a.1) } else { a.1.cmp(&b.1) };
                    c.then(pos(a.0).cmp(&pos(b.0))).then(a.0.cmp(&b.0))
                });
            }
            let shown = &sorted[..(*size).min(sorted.len())];
            let eother: u64 = sorted[(*size).min(sorted.len())..].iter().map(|b| b.1).sum();
            cmp_buckets(n, buckets, shown, cx)?;
            if *other != eother { return Err(here(format!("sum_other_doc_count {other}, expected {eother}"))); }
            if cx.may_truncate.contains(&n.name) && exact_single {
                // one segment, truncated: the error bound is the count of the first cut bucket
                let (_, seg, _, _) = match &n.agg { Agg::Terms { size, seg, mdc, order, .. } => terms_defaults(*size, *seg, *mdc, order), _ => unreachable!() };
                cx.notes.push("terms-truncated-single-segment-exact".into());
                if subkey.is_none() && !cx.skip_err_bound {
                    if let Some(first_cut) = cx.seg_cut_count.get(&n.name) {
                        if err.unwrap_or(0) != *first_cut { return Err(here(format!("doc_count_error_upper_bound {err:?}, expected {first_cut} (count of the first bucket cut by segment_size {seg})"))); }
                    }
                }
            } else if cx.may_truncate.contains(&n.name) && exact_key_multi {
                cx.notes.push("terms-truncated-key-order-exact".into());
            } else if err.unwrap_or(0) != 0 { return Err(here(format!("doc_count_error_upper_bound {err:?} although no segment truncated"))); }
            Ok(())
        }
        _ => Err(here(format!("result shape mismatch: {real:?}"))),
    }
}

fn has_terms(nodes: &[Node]) -> bool {
    nodes.iter().any(|n| matches!(n.agg, Agg::Terms { .. }) || has_terms(&n.subs))
}

/// canonical order inside `_count` tie groups (by key), for comparing two real results
pub fn normalise_ties(nodes: &[Node], crs: &mut [CR]) {
    for (n, c) in nodes.iter().zip(crs.iter_mut()) {
        match c {
            CR::Terms { buckets, .. } => {
                let by_count = matches!(&n.agg, Agg::Terms { order, .. } if matches!(order, None | Some(TOrd::CountDesc) | Some(TOrd::CountAsc)));
                let asc = matches!(&n.agg, Agg::Terms { order: Some(TOrd::CountAsc), .. });
                if n.opt.sub_order.is_some() {
                    buckets.sort_by(|a, b| a.0.cmp(&b.0));
                } else if by_count {
                    buckets.sort_by(|a, b| (if asc { a.1.cmp(&b.1) } else { b.1.cmp(&a.1) }).then(a.0.cmp(&b.0)));
                }
                for b in buckets.iter_mut() { normalise_ties(&n.subs, &mut b.2); }
            }
            CR::List(bs) => for b in bs.iter_mut() { normalise_ties(&n.subs, &mut b.2); },
            CR::Filter(_, s) => normalise_ties(&n.subs, s),
            CR::Comp(bs) => for b in bs.iter_mut() { normalise_ties(&n.subs, &mut b.2); },
            _ => {}
        }
    }
}

/// two real results of the same request over the same documents: exact components identical,
/// floats within tolerance; `Err(where: what)`
pub fn same_result(a: &[CR], b: &[CR]) -> Result<(), String> {
    if a.len() != b.len() { return Err("different number of aggregations".into()); }
    for (x, y) in a.iter().zip(b) {
        match (x, y) {
            (CR::Metric(m1), CR::Metric(m2)) => {
                if m1.len() != m2.len() { return Err("metric components differ".into()); }
                for (k, v1) in m1 {
                    let v2 = m2.get(k).ok_or(format!("component {k} missing"))?;
                    let exact = matches!(k.as_str(), "count" | "min" | "max");
                    if m1.contains_key("__sketch") {
                        // HLL (lg_k = 11): exact for small sets, about 2.3 % standard error beyond
                        match (v1, v2) {
                            (Some(p), Some(q)) if (p - q).abs() <= 0.06 * p.abs().max(q.abs()) && (p.max(*q) > 150.0 || p == q) => continue,
                            (None, None) => continue,
                            _ => return Err(format!("cardinality estimates {v1:?} vs {v2:?}")),
                        }
                    }
                    match (v1, v2) {
                        (None, None) => {}
                        (Some(p), Some(q)) if p == q || (!exact && (p - q).abs() <= 1e-9 * p.abs().max(q.abs()).max(1.0)) => {}
                        _ => return Err(format!("metric component {k}: {v1:?} vs {v2:?}")),
                    }
                }
            }
            (CR::Pct(p), CR::Pct(q)) => {
                for ((k1, v1), (k2, v2)) in p.iter().zip(q) {
                    if k1 != k2 || !((v1.is_nan() && v2.is_nan()) || (v1 - v2).abs() <= 0.021 * v1.abs().max(v2.abs()) + 1e-6) { return Err(format!("percentile {k1}: {v1} vs {v2}")); }
                }
            }
            (CR::Hits(p), CR::Hits(q)) => if p != q { return Err(format!("top_hits {p:?} vs {q:?}")); },
            (CR::Terms { buckets: b1, other: o1, err: e1 }, CR::Terms { buckets: b2, other: o2, err: e2 }) => {
                if o1 != o2 || e1 != e2 { return Err(format!("sum_other/err ({o1},{e1:?}) vs ({o2},{e2:?})")); }
                same_buckets(b1, b2)?;
            }
            (CR::List(b1), CR::List(b2)) => same_buckets(b1, b2)?,
            (CR::Comp(b1), CR::Comp(b2)) => {
                let k1: Vec<(Vec<i64>, u64)> = b1.iter().map(|x| (x.0.clone(), x.1)).collect();
                let k2: Vec<(Vec<i64>, u64)> = b2.iter().map(|x| (x.0.clone(), x.1)).collect();
                if k1 != k2 { return Err(format!("composite buckets {k1:?} vs {k2:?}")); }
                for (x, y) in b1.iter().zip(b2) { same_result(&x.2, &y.2).map_err(|e| format!("[{:?}] {e}", x.0))?; }
            }
            (CR::Filter(c1, s1), CR::Filter(c2, s2)) => {
                if c1 != c2 { return Err(format!("filter count {c1} vs {c2}")); }
                same_result(s1, s2)?;
            }
            _ => return Err("result shapes differ".into()),
        }
    }
    Ok(())
}

fn same_buckets(a: &[(i64, u64, Vec<CR>)], b: &[(i64, u64, Vec<CR>)]) -> Result<(), String> {
    let ka: Vec<(i64, u64)> = a.iter().map(|x| (x.0, x.1)).collect();
    let kb: Vec<(i64, u64)> = b.iter().map(|x| (x.0, x.1)).collect();
    if ka != kb { return Err(format!("buckets {ka:?} vs {kb:?}")); }
    for (x, y) in a.iter().zip(b) { same_result(&x.2, &y.2).map_err(|e| format!("[{}] {e}", x.0))?; }
    Ok(())
}

/// keys / counts only, in the Lean driver's text format for a metric-free request
/// Lean text of the result of `nodes` over nothing (keys / counts only)
pub fn empty_counts_lean(nodes: &[Node]) -> String {
    fn one(n: &Node) -> String {
        match &n.agg {
            Agg::Metric { kind: MK::TopHits, .. } => "H[]".into(),
            Agg::Metric { .. } => "N".into(),
            Agg::Terms { .. } => "T[0,0;]".into(),
            Agg::Hist { .. } => "L[]".into(),
            Agg::Range { field, ranges } => {
                let k = range_cuts(*field, ranges).len();
                format!("L[{}]", (0..=k).map(|i| format!("{i}:0:{}", empty_counts_lean(&n.subs))).collect::<Vec<_>>().join(";"))
            }
            Agg::Filter { .. } => format!("F[0:{}]", empty_counts_lean(&n.subs)),
            Agg::Composite { .. } => "L[]".into(),
        }
    }
    match nodes.len() { 0 => "N".into(), 1 => one(&nodes[0]), _ => format!("({})({})", one(&nodes[0]), empty_counts_lean(&nodes[1..])) }
}

pub fn cr_counts_lean(nodes: &[Node], crs: &[CR], ranks: &Ranks) -> String {
    fn buckets(n: &Node, bs: &[(i64, u64, Vec<CR>)], ranks: &Ranks) -> String {
        let tf = match &n.agg { Agg::Terms { field, .. } => Some(*field), _ => None };
        bs.iter().map(|(k, c, s)| format!("{}:{c}:{}", tf.map(|f| ranks.rank(f, *k)).unwrap_or(*k), cr_counts_lean(&n.subs, s, ranks))).collect::<Vec<_>>().join(";")
    }
    fn one(n: &Node, c: &CR, ranks: &Ranks) -> String {
        match c {
            CR::Terms { buckets: b, other, err } => format!("T[{other},{};{}]", err.unwrap_or(0), buckets(n, b, ranks)),
            // a range nobody instantiated: the model prints its ranges with count 0
            CR::List(b) if b.is_empty() && matches!(n.agg, Agg::Range { .. }) => empty_counts_lean(std::slice::from_ref(n)),
            CR::List(b) => format!("L[{}]", buckets(n, b, ranks)),
            CR::Filter(c, s) => format!("F[{c}:{}]", cr_counts_lean(&n.subs, s, ranks)),
            CR::Comp(b) => {
                let sources = match &n.agg { Agg::Composite { sources, .. } => sources.clone(), _ => vec![] };
                format!("L[{}]", b.iter().map(|(k, c, s)| format!("{}:{c}:{}", ranks.comp_code(&n.name, &sources, k), cr_counts_lean(&n.subs, s, ranks))).collect::<Vec<_>>().join(";"))
            }
            CR::Hits(vs) => format!("H[{}]", vs.iter().map(|v| format!("{v}:{v}")).collect::<Vec<_>>().join(";")),
            _ => "N".into(),
        }
    }
    match crs.len() { 0 => "N".into(), 1 => one(&nodes[0], &crs[0], ranks), _ => format!("({})({})", one(&nodes[0], &crs[0], ranks), cr_counts_lean(&nodes[1..], &crs[1..], ranks)) }
}
