//! C01 — commit is atomic and durable across a crash at any instant.
//!
//! Histories (adds, deletes, commits, rollbacks, merges, explicit GC, writer restarts; 1–4
//! indexing threads; merge policy on/off; segments cut by `tantivy::verif::set_segment_cut_docs`)
//! run against a `VDir` that records every storage operation and the written bytes. The
//! thread-tagged log goes to the Lean model (`Model/Storage.lean`, `Model/CommitProtocol.lean`),
//! which (i) checks that every read/exists result is explained by the visible layer of the
//! storage model, (ii) decides the discipline D0–D4 and returns every offending operation,
//! (iii) enumerates crash images at chosen boundaries. Each image is materialised in a fresh
//! `RamDirectory` and handed to the REAL `Index::open`, `validate_checksum`, a full content dump
//! through a searcher, then `writer → add → commit → garbage_collect`.
//!
//! Oracle (implementation alone): open succeeds; content = exactly the documents of one commit
//! `j` with `lastAcked ≤ j ≤ lastStarted`; all referenced files validate; the recovered index
//! accepts a writer, a commit and GC.
//!
//! Lock files (`.tantivy-*.lock`) are left out of traces and images: a `RamDirectory` emulates
//! locks by file existence whereas `MmapDirectory` uses `flock`, which does not survive a crash.
use crate::dirs::{OpKind, OpRec, VDir};
use crate::model::{hex, unhex};
use crate::rng::Rng;
use crate::Ctx;
use serde_json::{json, Value as J};
use std::collections::{BTreeMap, HashMap, HashSet};
use std::panic::{catch_unwind, AssertUnwindSafe};
use std::path::{Path, PathBuf};
use tantivy::collector::Count;
use tantivy::directory::RamDirectory;
use tantivy::merge_policy::{LogMergePolicy, NoMergePolicy};
use tantivy::query::{AllQuery, TermQuery};
use tantivy::schema::{Field, IndexRecordOption, Schema, Value, FAST, INDEXED, STORED, TEXT};
use tantivy::{doc, Directory, DocAddress, Index, IndexWriter, ReloadPolicy, TantivyDocument, Term};

pub const K_S1A: &str = "C01:meta-rename-not-synced-before-ack";
pub const K_S1B: &str = "C01:old-meta-survives-gc-unlinks";
pub const META: &str = "meta.json";
pub const MANAGED: &str = ".managed.json";
const NEW_DOC_ID: u64 = 9_999_999;

// ------------------------------------------------------------------------------------------
// histories
// ------------------------------------------------------------------------------------------

#[derive(Clone, Debug, PartialEq)]
pub enum Step {
    Add(u64),
    DelGrp(u64),
    Commit,
    Rollback,
    Merge { wait: bool },
    Gc,
    Reopen { wait: bool },
    /// C10 only (C02 findings F2/F3 make its content unpredictable; C01 never generates it)
    DeleteAll,
    /// switch the merge policy to LogMergePolicy(min_num_segments = 2) from here on: committed
    /// segments that were left unmerged become merge candidates while a transaction is open
    PolicyOn,
}

#[derive(Clone, Debug)]
pub struct Hist {
    pub threads: usize,
    pub merge_policy: bool,
    pub cut_docs: u32,
    /// index sorted by the `id` fast field (the only configuration that uses `<seg>.store.temp`)
    pub sorted: bool,
    pub steps: Vec<Step>,
}

pub fn grp_of(id: u64) -> u64 {
    id % 5
}

impl Hist {
    pub fn to_json(&self) -> J {
        let steps: Vec<String> = self
            .steps
            .iter()
            .map(|s| match s {
                Step::Add(i) => format!("add:{i}"),
                Step::DelGrp(g) => format!("delgrp:{g}"),
                Step::Commit => "commit".into(),
                Step::Rollback => "rollback".into(),
                Step::Merge { wait } => format!("merge:{}", *wait as u8),
                Step::Gc => "gc".into(),
                Step::Reopen { wait } => format!("reopen:{}", *wait as u8),
                Step::DeleteAll => "deleteall".into(),
                Step::PolicyOn => "policyon".into(),
            })
            .collect();
        json!({"threads": self.threads, "merge_policy": self.merge_policy, "cut_docs": self.cut_docs, "sorted": self.sorted, "steps": steps})
    }
    pub fn from_json(v: &J) -> Option<Hist> {
        let mut steps = vec![];
        for s in v["steps"].as_array()? {
            let s = s.as_str()?;
            let (a, b) = s.split_once(':').unwrap_or((s, ""));
            steps.push(match a {
                "add" => Step::Add(b.parse().ok()?),
                "delgrp" => Step::DelGrp(b.parse().ok()?),
                "commit" => Step::Commit,
                "rollback" => Step::Rollback,
                "merge" => Step::Merge { wait: b == "1" },
                "gc" => Step::Gc,
                "reopen" => Step::Reopen { wait: b == "1" },
                "deleteall" => Step::DeleteAll,
                "policyon" => Step::PolicyOn,
                _ => return None,
            });
        }
        Some(Hist {
            threads: v["threads"].as_u64()? as usize,
            merge_policy: v["merge_policy"].as_bool()?,
            cut_docs: v["cut_docs"].as_u64()? as u32,
            sorted: v["sorted"].as_bool().unwrap_or(false),
            steps,
        })
    }
}

pub fn gen_hist(rng: &mut Rng, max_steps: usize, with_delete_all: bool) -> Hist {
    let threads = 1 + rng.usize_below(4);
    let merge_policy = rng.chance(1, 2);
    let cut_docs = *rng.pick(&[0u32, 1, 1, 2, 3, 5]);
    let n = 5 + rng.usize_below(max_steps.max(6) - 5);
    let mut steps = vec![];
    let mut next_id = 1u64;
    let mut commits = 0;
    for _ in 0..n {
        let r = rng.below(100);
        let s = if r < 48 {
            let k = 1 + rng.below(3);
            for _ in 1..k {
                steps.push(Step::Add(next_id));
                next_id += 1;
            }
            let s = Step::Add(next_id);
            next_id += 1;
            s
        } else if r < 58 {
            Step::DelGrp(rng.below(5))
        } else if r < 76 {
            commits += 1;
            Step::Commit
        } else if r < 81 {
            Step::Rollback
        } else if r < 89 {
            Step::Merge { wait: rng.chance(2, 3) }
        } else if r < 94 {
            Step::Gc
        } else if r < 98 || !with_delete_all {
            Step::Reopen { wait: rng.chance(1, 2) }
        } else {
            Step::DeleteAll
        };
        steps.push(s);
    }
    if commits < 2 {
        steps.insert(steps.len() / 2, Step::Commit);
    }
    steps.push(Step::Commit);
    // A delete must not be the first stamped operation of a fresh writer (after open, rollback,
    // delete_all): `Stamper::new(committed_opstamp)` gives it the opstamp of the last commit and
    // a merge of committed segments (target = that opstamp) then applies and persists the
    // uncommitted delete — a C02/C04 defect reported separately; these generators stay clear of
    // it so that a content difference here means storage, not that.
    // sometimes: leave committed segments unmerged, then turn the policy on inside a transaction
    // that has a pending delete and flushes segments (the updater reconsiders merges of the
    // committed segments while the delete is uncommitted), then drop the transaction
    let mut merge_policy = merge_policy;
    if rng.chance(1, 3) {
        merge_policy = false;
        let first_commit = steps.iter().position(|s| *s == Step::Commit).unwrap_or(0);
        let at = first_commit + 1 + rng.usize_below(steps.len() - first_commit);
        let mut ins = vec![Step::PolicyOn, Step::Add(next_id), Step::DelGrp(rng.below(5)), Step::Add(next_id + 1), Step::Add(next_id + 2)];
        next_id += 3;
        if rng.chance(2, 3) {
            ins.push(Step::Reopen { wait: true });
        }
        for (i, s) in ins.into_iter().enumerate() {
            steps.insert(at + i, s);
        }
    }
    let cut_docs = if steps.contains(&Step::PolicyOn) && cut_docs == 0 { 1 } else { cut_docs };
    let mut fresh = true;
    let mut out = Vec::with_capacity(steps.len() + 4);
    for s in steps {
        match s {
            Step::DelGrp(_) if fresh => {
                out.push(Step::Add(next_id));
                next_id += 1;
                fresh = false;
            }
            Step::Add(_) | Step::Commit => fresh = false,
            Step::Rollback | Step::Reopen { .. } | Step::DeleteAll => fresh = true,
            _ => {}
        }
        out.push(s);
    }
    Hist { threads, merge_policy, cut_docs, sorted: false, steps: out }
}

pub struct Fields {
    pub id: Field,
    pub grp: Field,
    pub body: Field,
}

pub fn schema() -> (Schema, Fields) {
    let mut sb = Schema::builder();
    let id = sb.add_u64_field("id", INDEXED | STORED | FAST);
    let grp = sb.add_u64_field("grp", INDEXED);
    let body = sb.add_text_field("body", TEXT | STORED);
    (sb.build(), Fields { id, grp, body })
}

pub struct RunOut {
    pub log: Vec<OpRec>,
    /// (log length when the call returned, opstamp returned by commit())
    pub acks: Vec<(usize, u64)>,
    /// commit opstamp -> sorted ids of exactly that commit (sequential replay in the harness)
    pub expected: BTreeMap<u64, Vec<u64>>,
    /// log length when `Index::create` had returned
    pub base: usize,
    pub errors: Vec<String>,
    pub merges_ok: u64,
    pub merges_err: u64,
}

fn apply_policy(w: &IndexWriter, on: bool) {
    if on {
        let mut p = LogMergePolicy::default();
        p.set_min_num_segments(2);
        w.set_merge_policy(Box::new(p));
    } else {
        w.set_merge_policy(Box::new(NoMergePolicy));
    }
}

fn new_writer(index: &Index, h: &Hist, policy_on: bool) -> tantivy::Result<IndexWriter> {
    let w: IndexWriter = index.writer_with_num_threads(h.threads, 15_000_000 * h.threads)?;
    apply_policy(&w, policy_on);
    Ok(w)
}

pub fn settings(h: &Hist) -> tantivy::IndexSettings {
    let mut s = tantivy::IndexSettings::default();
    if h.sorted {
        s.sort_by_field = Some(tantivy::IndexSortByField { field: "id".to_string(), order: tantivy::Order::Asc });
    }
    s
}

/// what the point of a history is called when `observer` is invoked
#[derive(Clone, Copy, Debug, PartialEq)]
pub enum Point {
    Created,
    CommitReturned,
    GcReturned,
    MergesWaited,
    /// the writer is about to be dropped / waited for (from here on no updater thread exists)
    WriterDropping,
    /// a (new) writer is ready
    WriterReady,
    End,
}

/// run a history against `vdir`; `observer` is called at quiescent points with the live index
pub fn run_history(
    h: &Hist,
    vdir: &VDir,
    observer: &mut dyn FnMut(Point, &Index, Option<&IndexWriter>, &[u64]),
) -> RunOut {
    let (schema, f) = schema();
    let mut out = RunOut {
        log: vec![],
        acks: vec![],
        expected: BTreeMap::new(),
        base: 0,
        errors: vec![],
        merges_ok: 0,
        merges_err: 0,
    };
    tantivy::verif::set_segment_cut_docs(h.cut_docs);
    let mut policy_on = h.merge_policy;
    let index = match Index::create(vdir.clone(), schema, settings(h)) {
        Ok(i) => i,
        Err(e) => {
            out.errors.push(format!("Index::create: {e}"));
            return out;
        }
    };
    out.base = vdir.log_len();
    out.expected.insert(0, vec![]);
    observer(Point::Created, &index, None, &[]);
    let mut committed: Vec<u64> = vec![];
    let mut pending: Vec<Step> = vec![];
    let mut content_predictable = true;
    let mut writer = match new_writer(&index, h, policy_on) {
        Ok(w) => Some(w),
        Err(e) => {
            out.errors.push(format!("writer: {e}"));
            None
        }
    };
    for step in &h.steps {
        let w = match writer.as_mut() {
            Some(w) => w,
            None => break,
        };
        match step {
            Step::Add(id) => {
                let d = doc!(f.id => *id, f.grp => grp_of(*id), f.body => format!("doc {} w{} lorem ipsum", id, id % 7));
                if let Err(e) = w.add_document(d) {
                    out.errors.push(format!("add_document: {e}"));
                }
                pending.push(step.clone());
            }
            Step::DelGrp(g) => {
                w.delete_term(Term::from_field_u64(f.grp, *g));
                pending.push(step.clone());
            }
            Step::DeleteAll => {
                // C02 findings F2/F3: content and opstamps after delete_all are not predictable
                let _ = w.delete_all_documents();
                pending.clear();
                committed.clear();
                content_predictable = false;
            }
            Step::Commit => match w.commit() {
                Ok(op) => {
                    out.acks.push((vdir.log_len(), op));
                    for p in pending.drain(..) {
                        match p {
                            Step::Add(id) => committed.push(id),
                            Step::DelGrp(g) => committed.retain(|i| grp_of(*i) != g),
                            _ => {}
                        }
                    }
                    let mut ids = committed.clone();
                    ids.sort();
                    if let Some(prev) = out.expected.get(&op) {
                        if *prev != ids && content_predictable {
                            out.errors.push(format!("two commits with opstamp {op} and different content"));
                        }
                    }
                    out.expected.insert(op, ids.clone());
                    observer(Point::CommitReturned, &index, Some(w), &ids);
                }
                Err(e) => out.errors.push(format!("commit: {e}")),
            },
            Step::PolicyOn => {
                policy_on = true;
                apply_policy(w, true);
            }
            Step::Rollback => {
                pending.clear();
                if let Err(e) = w.rollback() {
                    out.errors.push(format!("rollback: {e}"));
                }
                // rollback() builds a fresh IndexWriter inside, whose merge policy is the
                // default one again: re-apply the history's choice
                apply_policy(w, policy_on);
            }
            Step::Merge { wait } => {
                let ids = index.searchable_segment_ids().unwrap_or_default();
                if ids.len() >= 2 {
                    let fut = w.merge(&ids);
                    if *wait {
                        match fut.wait() {
                            Ok(_) => out.merges_ok += 1,
                            Err(_) => out.merges_err += 1,
                        }
                    }
                }
            }
            Step::Gc => {
                match w.garbage_collect_files().wait() {
                    Ok(_) => {}
                    Err(e) => out.errors.push(format!("garbage_collect_files: {e}")),
                }
                let mut ids = committed.clone();
                ids.sort();
                observer(Point::GcReturned, &index, Some(w), &ids);
            }
            Step::Reopen { wait } => {
                pending.clear();
                observer(Point::WriterDropping, &index, writer.as_ref(), &[]);
                let old = writer.take().unwrap();
                if *wait {
                    if let Err(e) = old.wait_merging_threads() {
                        out.errors.push(format!("wait_merging_threads: {e}"));
                    }
                    let mut ids = committed.clone();
                    ids.sort();
                    observer(Point::MergesWaited, &index, None, &ids);
                } else {
                    drop(old);
                }
                match new_writer(&index, h, policy_on) {
                    Ok(w) => writer = Some(w),
                    Err(e) => out.errors.push(format!("writer (reopen): {e}")),
                }
                observer(Point::WriterReady, &index, writer.as_ref(), &[]);
            }
        }
    }
    if let Some(w) = writer.take() {
        observer(Point::WriterDropping, &index, Some(&w), &[]);
        if let Err(e) = w.wait_merging_threads() {
            out.errors.push(format!("wait_merging_threads (end): {e}"));
        }
    }
    let mut ids = committed.clone();
    ids.sort();
    observer(Point::End, &index, None, &ids);
    tantivy::verif::set_segment_cut_docs(0);
    out.log = vdir.log();
    out
}

// ------------------------------------------------------------------------------------------
// log -> model tokens
// ------------------------------------------------------------------------------------------

pub fn is_lock_file(p: &str) -> bool {
    p.starts_with(".tantivy-") && p.ends_with(".lock")
}

/// the files `meta.json` bytes reference, and its opstamp, obtained with the real parser
pub fn meta_refs(bytes: &[u8]) -> Result<(u64, Vec<String>), String> {
    let ram = RamDirectory::create();
    ram.atomic_write(Path::new(META), bytes).map_err(|e| e.to_string())?;
    let index = Index::open(ram).map_err(|e| format!("meta.json does not parse: {e}"))?;
    let metas = index.load_metas().map_err(|e| e.to_string())?;
    let mut files = vec![];
    for sm in &metas.segments {
        for p in sm.list_files() {
            let s = p.to_string_lossy().to_string();
            if s.ends_with(".del") && sm.delete_opstamp().is_none() {
                continue;
            }
            files.push(s);
        }
    }
    files.sort();
    Ok((metas.opstamp, files))
}

pub struct Trace {
    pub toks: Vec<String>,
    /// log index a token came from (acks: None)
    pub src: Vec<Option<usize>>,
    pub names: Vec<String>,
    pub intern: HashMap<String, usize>,
    /// all bytes ever appended to a regular path, in order
    pub streams: HashMap<usize, Vec<u8>>,
    /// token count when Index::create had returned
    pub base_tok: usize,
    pub skipped_failed: u64,
}

impl Trace {
    fn id(&mut self, name: &str) -> usize {
        if let Some(i) = self.intern.get(name) {
            return *i;
        }
        let i = self.names.len();
        self.names.push(name.to_string());
        self.intern.insert(name.to_string(), i);
        i
    }
    pub fn line(&self) -> String {
        self.toks.join(" ")
    }
}

pub fn tokenize(run: &RunOut) -> Result<Trace, String> {
    tokenize_opt(run, false)
}

/// `managed_refs`: also intern the path lists of the `.managed.json` payloads (C10's R1–R3)
pub fn tokenize_opt(run: &RunOut, managed_refs: bool) -> Result<Trace, String> {
    let mut t = Trace {
        toks: vec![],
        src: vec![],
        names: vec![],
        intern: HashMap::new(),
        streams: HashMap::new(),
        base_tok: 0,
        skipped_failed: 0,
    };
    t.id(META);
    t.id(MANAGED);
    let mut acks = run.acks.iter().peekable();
    for (i, r) in run.log.iter().enumerate() {
        while let Some((pos, op)) = acks.peek() {
            if *pos <= i {
                t.toks.push(format!("k{op}"));
                t.src.push(None);
                acks.next();
            } else {
                break;
            }
        }
        if i == run.base {
            t.base_tok = t.toks.len();
        }
        if is_lock_file(&r.path) {
            continue;
        }
        let tok = match r.kind {
            OpKind::SyncDir => {
                if !r.ok {
                    t.skipped_failed += 1;
                    continue;
                }
                "s".to_string()
            }
            _ => {
                let p = t.id(&r.path);
                match r.kind {
                    OpKind::OpenRead => format!("r{p}:{}", if r.ok { r.len.to_string() } else { "x".into() }),
                    OpKind::AtomicRead => format!("g{p}:{}", if r.ok { r.len.to_string() } else { "x".into() }),
                    OpKind::Exists => {
                        if !r.ok {
                            continue;
                        }
                        format!("e{p}:{}", r.len)
                    }
                    _ if !r.ok => {
                        t.skipped_failed += 1;
                        continue;
                    }
                    OpKind::OpenWrite => format!("c{p}"),
                    OpKind::Write => {
                        let data = r.data.as_ref().ok_or("log recorded without data")?;
                        t.streams.entry(p).or_default().extend_from_slice(data);
                        format!("w{p}:{}", r.len)
                    }
                    OpKind::Flush => format!("f{p}"),
                    OpKind::Terminate => format!("t{p}"),
                    OpKind::Delete => format!("d{p}"),
                    OpKind::AtomicWrite => {
                        let data = r.data.as_ref().ok_or("log recorded without data")?;
                        if r.path == META {
                            let (opstamp, files) = meta_refs(data)?;
                            let refs: Vec<String> = files.iter().map(|f| t.id(f).to_string()).collect();
                            format!("a{p}:{opstamp}:{i}:{}:{}", data.len(), if refs.is_empty() { "-".into() } else { refs.join(".") })
                        } else if managed_refs && r.path == MANAGED {
                            let list: Vec<String> = serde_json::from_slice(data).map_err(|e| format!(".managed.json payload: {e}"))?;
                            let refs: Vec<String> = list.iter().map(|f| t.id(f).to_string()).collect();
                            format!("a{p}:0:{i}:{}:{}", data.len(), if refs.is_empty() { "-".into() } else { refs.join(".") })
                        } else {
                            format!("a{p}:0:{i}:{}:-", data.len())
                        }
                    }
                    OpKind::SyncDir => unreachable!(),
                }
            }
        };
        t.toks.push(tok);
        t.src.push(Some(i));
    }
    for (_, op) in acks {
        t.toks.push(format!("k{op}"));
        t.src.push(None);
    }
    if run.base >= run.log.len() {
        t.base_tok = t.toks.len();
    }
    Ok(t)
}

fn is_state_change(tok: &str) -> bool {
    !matches!(tok.as_bytes()[0], b'r' | b'g' | b'e')
}

// ------------------------------------------------------------------------------------------
// crash images
// ------------------------------------------------------------------------------------------

#[derive(Clone, Debug)]
pub struct ImageDesc {
    pub kind: u32,
    pub subject: usize,
    pub arg: u64,
    pub model_rec: Option<u64>,
    pub allowed: bool,
    /// (path id, length, sealed)
    pub files: Vec<(usize, usize, bool)>,
    /// (path id, log index of the atomic_write)
    pub atoms: Vec<(usize, usize)>,
}

pub struct Boundary {
    pub k: usize,
    pub acked: u64,
    pub started: u64,
    pub images: Vec<ImageDesc>,
}

pub fn parse_images(resp: &str) -> Result<Vec<Boundary>, String> {
    let mut out = vec![];
    if resp == "-" {
        return Ok(out);
    }
    if resp == "bad-op" {
        return Err("model rejected the trace (bad-op)".into());
    }
    for sec in resp.split('#') {
        let mut it = sec.splitn(4, '|');
        let k: usize = it.next().and_then(|s| s.parse().ok()).ok_or("k")?;
        let acked: u64 = it.next().and_then(|s| s.parse().ok()).ok_or("acked")?;
        let started: u64 = it.next().and_then(|s| s.parse().ok()).ok_or("started")?;
        let rest = it.next().ok_or("images")?;
        let mut images = vec![];
        for im in rest.split(';') {
            let parts: Vec<&str> = im.split('|').collect();
            if parts.len() != 5 {
                return Err(format!("image record {im:?}"));
            }
            let h: Vec<u64> = parts[0].split(':').map(|x| x.parse().map_err(|_| "image header".to_string())).collect::<Result<_, _>>()?;
            if h.len() != 3 {
                return Err("image header".into());
            }
            let mut files = vec![];
            if parts[3] != "-" {
                for f in parts[3].split(',') {
                    let x: Vec<usize> = f.split(':').map(|x| x.parse().map_err(|_| "file".to_string())).collect::<Result<_, _>>()?;
                    if x.len() != 3 {
                        return Err("file entry".into());
                    }
                    files.push((x[0], x[1], x[2] == 1));
                }
            }
            let mut atoms = vec![];
            if parts[4] != "-" {
                for f in parts[4].split(',') {
                    let x: Vec<usize> = f.split(':').map(|x| x.parse().map_err(|_| "atom".to_string())).collect::<Result<_, _>>()?;
                    if x.len() != 2 {
                        return Err("atom entry".into());
                    }
                    atoms.push((x[0], x[1]));
                }
            }
            images.push(ImageDesc {
                kind: h[0] as u32,
                subject: h[1] as usize,
                arg: h[2],
                model_rec: parts[1].parse().ok(),
                allowed: parts[2] == "1",
                files,
                atoms,
            });
        }
        out.push(Boundary { k, acked, started, images });
    }
    Ok(out)
}

pub type Files = BTreeMap<String, Vec<u8>>;

pub fn materialize(d: &ImageDesc, t: &Trace, log: &[OpRec]) -> Files {
    let mut m = Files::new();
    for (p, n, _) in &d.files {
        let s = t.streams.get(p).map(|v| v.as_slice()).unwrap_or(&[]);
        m.insert(t.names[*p].clone(), s[..(*n).min(s.len())].to_vec());
    }
    for (p, ver) in &d.atoms {
        m.insert(t.names[*p].clone(), log[*ver].data.clone().unwrap_or_default());
    }
    m
}

#[derive(Clone, Debug, PartialEq)]
pub struct Fail {
    pub kind: &'static str,
    pub detail: String,
    pub missing: Vec<String>,
}

#[derive(Clone, Debug)]
pub struct Outcome {
    pub opstamp: Option<u64>,
    pub fail: Option<Fail>,
}

fn fail(kind: &'static str, detail: String) -> Outcome {
    Outcome { opstamp: None, fail: Some(Fail { kind, detail, missing: vec![] }) }
}

pub fn dump_ids(index: &Index, f: &Fields) -> Result<Vec<u64>, String> {
    let reader = index.reader_builder().reload_policy(ReloadPolicy::Manual).try_into().map_err(|e: tantivy::TantivyError| format!("reader: {e}"))?;
    let searcher = reader.searcher();
    let mut ids = vec![];
    for (ord, sr) in searcher.segment_readers().iter().enumerate() {
        let col = sr.fast_fields().u64("id").map_err(|e| format!("fast field: {e}"))?;
        for d in sr.doc_ids_alive() {
            let stored: TantivyDocument = searcher.doc(DocAddress::new(ord as u32, d)).map_err(|e| format!("doc store: {e}"))?;
            let sid = stored.get_first(f.id).and_then(|v| v.as_u64()).ok_or("stored id missing")?;
            let fid = col.first(d).ok_or("fast id missing")?;
            if sid != fid {
                return Err(format!("stored id {sid} != fast id {fid}"));
            }
            ids.push(sid);
        }
    }
    ids.sort();
    let n = searcher.search(&AllQuery, &Count).map_err(|e| format!("search: {e}"))?;
    if n != ids.len() {
        return Err(format!("AllQuery count {n} != {} alive docs", ids.len()));
    }
    if let Some(first) = ids.first() {
        let q = TermQuery::new(Term::from_field_u64(f.id, *first), IndexRecordOption::Basic);
        let c = searcher.search(&q, &Count).map_err(|e| format!("term search: {e}"))?;
        if c != ids.iter().filter(|i| *i == first).count() {
            return Err(format!("term query for id {first} finds {c}"));
        }
    }
    Ok(ids)
}

/// the property's oracle on one durable image, evaluated with the real code only
pub fn eval_image(files: &Files, acked: u64, started: u64, expected: &BTreeMap<u64, Vec<u64>>) -> Outcome {
    let res = catch_unwind(AssertUnwindSafe(|| -> Outcome {
        let (_, f) = schema();
        let ram = RamDirectory::create();
        for (name, bytes) in files {
            if ram.atomic_write(Path::new(name), bytes).is_err() {
                return fail("harness", "cannot build image".into());
            }
        }
        let index = match Index::open(ram.clone()) {
            Ok(i) => i,
            Err(e) => return fail("open-failed", format!("{e}")),
        };
        let metas = match index.load_metas() {
            Ok(m) => m,
            Err(e) => return fail("open-failed", format!("load_metas: {e}")),
        };
        let j = metas.opstamp;
        let done = |kind: &'static str, detail: String, missing: Vec<String>| Outcome { opstamp: Some(j), fail: Some(Fail { kind, detail, missing }) };
        // every referenced file is present and validates
        let mut missing = vec![];
        let mut bad = vec![];
        for sm in &metas.segments {
            for p in sm.list_files() {
                let s = p.to_string_lossy().to_string();
                if s.ends_with(".del") && sm.delete_opstamp().is_none() {
                    continue;
                }
                match index.directory().validate_checksum(&p) {
                    Ok(true) => {}
                    Ok(false) => bad.push(s),
                    Err(tantivy::directory::error::OpenReadError::FileDoesNotExist(_)) => missing.push(s),
                    Err(_) => bad.push(s),
                }
            }
        }
        if !missing.is_empty() {
            missing.sort();
            return done("missing-file", format!("meta.json (opstamp {j}) references files that do not exist: {missing:?}"), missing);
        }
        if !bad.is_empty() {
            return done("checksum", format!("referenced files fail validation: {bad:?}"), vec![]);
        }
        match index.validate_checksum() {
            Ok(s) if s.is_empty() => {}
            Ok(s) => return done("checksum", format!("Index::validate_checksum reports {s:?}"), vec![]),
            Err(e) => return done("checksum", format!("Index::validate_checksum: {e}"), vec![]),
        }
        let ids = match dump_ids(&index, &f) {
            Ok(i) => i,
            Err(e) => return done("search-failed", e, vec![]),
        };
        if j < acked {
            return done("older-than-acked", format!("recovered commit {j} although commit {acked} had been acknowledged ({} docs)", ids.len()), vec![]);
        }
        if j > started {
            return done("newer-than-started", format!("recovered commit {j} > last started {started}"), vec![]);
        }
        match expected.get(&j) {
            None => return done("unknown-commit", format!("recovered opstamp {j} is not a commit of the history"), vec![]),
            Some(exp) if *exp != ids => return done("content-mismatch", format!("commit {j}: expected ids {exp:?}, found {ids:?}"), vec![]),
            _ => {}
        }
        // the recovered index accepts a writer, a commit and GC
        let mut w: IndexWriter = match index.writer_with_num_threads(1, 15_000_000) {
            Ok(w) => w,
            Err(e) => return done("continue-failed", format!("writer: {e}"), vec![]),
        };
        w.set_merge_policy(Box::new(NoMergePolicy));
        if let Err(e) = w.add_document(doc!(f.id => NEW_DOC_ID, f.grp => 0u64, f.body => "after recovery")) {
            return done("continue-failed", format!("add: {e}"), vec![]);
        }
        if let Err(e) = w.commit() {
            return done("continue-failed", format!("commit: {e}"), vec![]);
        }
        if let Err(e) = w.garbage_collect_files().wait() {
            return done("continue-failed", format!("gc: {e}"), vec![]);
        }
        drop(w);
        let mut exp = ids.clone();
        exp.push(NEW_DOC_ID);
        exp.sort();
        let reopened = match Index::open(ram.clone()) {
            Ok(i) => i,
            Err(e) => return done("continue-failed", format!("re-open after commit: {e}"), vec![]),
        };
        match dump_ids(&reopened, &f) {
            Ok(now) if now == exp => {}
            Ok(now) => return done("continue-failed", format!("after add+commit+gc: expected {exp:?}, found {now:?}"), vec![]),
            Err(e) => return done("continue-failed", format!("after add+commit+gc: {e}"), vec![]),
        }
        Outcome { opstamp: Some(j), fail: None }
    }));
    match res {
        Ok(o) => o,
        Err(_) => fail("panic", "tantivy panicked on the recovered image".into()),
    }
}

fn files_json(files: &Files) -> J {
    J::Object(files.iter().map(|(k, v)| (k.clone(), J::String(hex(v)))).collect())
}

fn files_from_json(v: &J) -> Option<Files> {
    let mut m = Files::new();
    for (k, x) in v.as_object()? {
        m.insert(k.clone(), unhex(x.as_str()?)?);
    }
    Some(m)
}

fn expected_json(e: &BTreeMap<u64, Vec<u64>>) -> J {
    J::Object(e.iter().map(|(k, v)| (k.to_string(), json!(v))).collect())
}

fn expected_from_json(v: &J) -> Option<BTreeMap<u64, Vec<u64>>> {
    let mut m = BTreeMap::new();
    for (k, x) in v.as_object()? {
        m.insert(k.parse().ok()?, x.as_array()?.iter().filter_map(|i| i.as_u64()).collect());
    }
    Some(m)
}

/// judge one image. `visible_meta` = bytes of the newest meta.json written before the crash
/// point; `visible_files` = names visible in the live directory at the crash point.
/// Attribution (DESIGN §4.4): a failure belongs to finding S1 iff the image shows an older
/// `meta.json` than the visible one AND the same image with only `meta.json` replaced by the
/// visible version (hypothesis D3 enforced: the rename was synced) passes every oracle.
pub fn judge_image(
    ctx: &mut Ctx,
    files: &Files,
    acked: u64,
    started: u64,
    expected: &BTreeMap<u64, Vec<u64>>,
    visible_meta: &[u8],
    visible_files: &HashSet<String>,
    sole_meta_lost: bool,
    desc: &str,
    model_rec: Option<Option<u64>>,
    hist: &J,
) -> Outcome {
    let out = eval_image(files, acked, started, expected);
    let case = || {
        json!({"kind": "image", "files": files_json(files), "acked": acked, "started": started,
               "expected": expected_json(expected), "visible_meta": hex(visible_meta),
               "visible_files": visible_files.iter().cloned().collect::<Vec<_>>(),
               "sole_meta_lost": sole_meta_lost, "image": desc, "history": hist})
    };
    if let Some(mr) = model_rec {
        // correspondence: the model's `recover` on the image descriptor vs the real code
        match (mr, &out) {
            (Some(j), o) if o.opstamp == Some(j) && !matches!(o.fail.as_ref().map(|f| f.kind), Some("missing-file" | "checksum" | "search-failed" | "open-failed" | "panic")) => {
                ctx.report.count("model-recover:agree");
            }
            (Some(j), o) => {
                ctx.report.violation("model", "C01:model-recover-mismatch", format!("model recovers commit {j}, real code: opstamp {:?} fail {:?} ({desc})", o.opstamp, o.fail), case());
            }
            (None, o) if o.fail.is_some() => ctx.report.count("model-recover:agree-unrecoverable"),
            (None, _) => ctx.report.count("model-recover:model-conservative"),
        }
    }
    if let Some(f) = &out.fail {
        let meta_in_image = files.get(META).map(|v| v.as_slice());
        let mut key = format!("C01:crash-image:{}", f.kind);
        if meta_in_image.is_some() && meta_in_image != Some(visible_meta) && f.kind != "harness" {
            let mut repaired = files.clone();
            repaired.insert(META.to_string(), visible_meta.to_vec());
            let out2 = eval_image(&repaired, acked, started, expected);
            if out2.fail.is_none() {
                let unlinked_missing = !f.missing.is_empty() && f.missing.iter().all(|m| !visible_files.contains(m));
                if f.kind == "older-than-acked" {
                    key = K_S1A.to_string();
                } else if f.kind == "missing-file" && unlinked_missing {
                    key = K_S1B.to_string();
                }
                ctx.report.count(&format!("attributed:{}:{}", if key == K_S1A { "S1a" } else if key == K_S1B { "S1b" } else { "none" }, if sole_meta_lost { "sole-lost-item" } else { "several-lost-explained-by-rename" }));
            }
        }
        ctx.report.violation("oracle", &key, format!("{} [{desc}; acked {acked}, started {started}]", f.detail), case());
    }
    out
}

fn replay(ctx: &mut Ctx, case: &J) {
    match case["kind"].as_str().unwrap_or("") {
        "image" => {
            let files = files_from_json(&case["files"]).expect("files");
            let expected = expected_from_json(&case["expected"]).expect("expected");
            let vis: HashSet<String> = case["visible_files"].as_array().map(|a| a.iter().filter_map(|s| s.as_str().map(String::from)).collect()).unwrap_or_default();
            let vm = unhex(case["visible_meta"].as_str().unwrap_or("-")).unwrap_or_default();
            ctx.report.case("replay", true);
            let o = judge_image(ctx, &files, case["acked"].as_u64().unwrap_or(0), case["started"].as_u64().unwrap_or(0), &expected, &vm,
                &vis, case["sole_meta_lost"].as_bool().unwrap_or(false), case["image"].as_str().unwrap_or("replay"), None, &case["history"]);
            ctx.report.notes.push(format!("replay: opstamp {:?} fail {:?}", o.opstamp, o.fail));
        }
        "history" => {
            if let Some(h) = Hist::from_json(&case["history"]) {
                check_history(ctx, &h, usize::MAX, usize::MAX);
            }
        }
        k => ctx.report.notes.push(format!("replay kind {k:?} unknown")),
    }
}

pub fn kind_name(k: u32) -> &'static str {
    match k {
        0 => "all-applied",
        1 => "all-unsynced-lost",
        2 => "create-lost",
        3 => "unlink-not-applied",
        4 => "rename-lost",
        5 => "only-create-applied",
        6 => "only-unlink-applied",
        7 => "only-rename-applied",
        8 => "truncated",
        _ => "?",
    }
}

/// run one history, send its log to the model, evaluate crash images at up to `max_boundaries`
/// boundaries (all of them when `usize::MAX`)
fn check_history(ctx: &mut Ctx, h: &Hist, max_boundaries: usize, max_images: usize) {
    let hist_json = h.to_json();
    let vdir = VDir::new();
    vdir.with_state(|s| s.record_data = true);
    let run = match catch_unwind(AssertUnwindSafe(|| run_history(h, &vdir, &mut |_, _, _, _| {}))) {
        Ok(r) => r,
        Err(_) => {
            ctx.report.violation("oracle", "C01:history-panic", "tantivy panicked while running the history".into(), json!({"kind":"history","history":hist_json}));
            return;
        }
    };
    for e in &run.errors {
        ctx.report.violation("oracle", "C01:history-op-failed", e.clone(), json!({"kind":"history","history":hist_json}));
    }
    ctx.report.count_n("merges:ok", run.merges_ok);
    ctx.report.count_n("merges:refused", run.merges_err);
    ctx.report.count(&format!("threads:{}", h.threads));
    ctx.report.count(&format!("merge-policy:{}", h.merge_policy));
    ctx.report.count(&format!("cut-docs:{}", h.cut_docs));
    let trace = match tokenize(&run) {
        Ok(t) => t,
        Err(e) => {
            ctx.report.violation("model", "C01:trace-not-representable", e, json!({"kind":"history","history":hist_json}));
            return;
        }
    };
    ctx.report.count_n("log-ops", run.log.len() as u64);
    ctx.report.count_n("log-ops:skipped-failed", trace.skipped_failed);
    let threads: HashSet<&str> = run.log.iter().map(|r| r.thread.as_str()).collect();
    for t in threads {
        let t = t.trim_end_matches(|c: char| c.is_ascii_digit());
        ctx.report.count(&format!("thread-kind:{t}"));
    }
    let line = trace.line();
    // (i) explained, (ii) discipline
    let resp = ctx.model.ask(&format!("C01 check {line}"));
    let mut viol: Vec<(usize, Vec<u32>)> = vec![];
    let mut explained = false;
    for part in resp.split(' ') {
        if let Some(v) = part.strip_prefix("explained=") {
            if v == "ok" {
                explained = true;
            } else {
                let i: usize = v.parse().unwrap_or(0);
                let op = trace.src.get(i).copied().flatten().map(|s| run.log[s].line()).unwrap_or_default();
                // VDir logs an operation before it executes it: a read that races with another
                // thread's mutation of the same path can land on either side of it in the log
                let racy = trace.src.get(i).copied().flatten().map(|s| {
                    let me = &run.log[s];
                    let lo = s.saturating_sub(12);
                    let hi = (s + 12).min(run.log.len() - 1);
                    (lo..=hi).any(|j| j != s && run.log[j].path == me.path && run.log[j].thread != me.thread && run.log[j].kind.is_mutation())
                }).unwrap_or(false);
                if racy {
                    ctx.report.count("explained:racy-observation-not-judged");
                    continue;
                }
                ctx.report.violation("model", "C01:log-not-explained", format!("token {i} ({}) [{op}] is not what the storage model's visible layer predicts", trace.toks.get(i).cloned().unwrap_or_default()), json!({"kind":"history","history":hist_json}));
            }
        } else if let Some(v) = part.strip_prefix("viol=") {
            if v != "-" {
                for e in v.split(',') {
                    if let Some((i, rs)) = e.split_once(':') {
                        viol.push((i.parse().unwrap_or(0), rs.split('+').filter_map(|r| r.parse().ok()).collect()));
                    }
                }
            }
        }
    }
    if resp == "bad-op" {
        ctx.report.violation("model", "C01:trace-not-representable", "model rejected the trace".into(), json!({"kind":"history","history":hist_json}));
        return;
    }
    if explained {
        ctx.report.traces_validated_against_impl += 1;
    }
    // the two hypotheses of C01_run_verdict_is_hypothesis, decided by the model on this log:
    // the invariant holds when Index::create has returned, the rest of the log is disciplined
    let verdict = ctx.model.ask(&format!("C01 verdict {} {line}", trace.base_tok));
    ctx.report.count(&format!("run-verdict:{}", verdict.replace(' ', ",")));
    if verdict.contains("inv=0") || verdict == "bad-op" {
        ctx.report.violation("model", "C01:state-after-create-breaks-invariant", format!("model verdict on the real log: {verdict} (the state reached when Index::create returned does not satisfy the protocol invariant)"), json!({"kind":"history","history":hist_json}));
    }
    for (_, rs) in &viol {
        for r in rs {
            ctx.report.count(&format!("discipline-violated:D{}", match r { 30 => "3a".into(), 31 => "3b".into(), x => x.to_string() }));
        }
    }
    // (iii) boundaries
    let mut all: Vec<usize> = (trace.base_tok + 1..=trace.toks.len()).filter(|k| is_state_change(&trace.toks[k - 1])).collect();
    let must: Vec<usize> = viol.iter().map(|(i, _)| i + 1).filter(|k| *k > trace.base_tok).collect();
    // evaluation order: after violating ops, meta.json writes, acks, deletes, syncs first (shuffled,
    // interleaved), then the other boundaries in random order; cut by `max_boundaries`
    let mut rng = ctx.rng.fork();
    let mut pri: Vec<usize> = all.iter().copied().filter(|k| {
        let t = &trace.toks[k - 1];
        t.starts_with("a0:") || t.starts_with('k') || t.starts_with('d') || (t == "s")
    }).collect();
    rng.shuffle(&mut pri);
    let mut m = must.clone();
    rng.shuffle(&mut m);
    rng.shuffle(&mut all);
    let mut chosen: Vec<usize> = vec![];
    let mut inq: HashSet<usize> = HashSet::new();
    let (mut im, mut ip, mut ia) = (0, 0, 0);
    while chosen.len() < max_boundaries && (im < m.len() || ip < pri.len() || ia < all.len()) {
        for (v, i) in [(&m, &mut im), (&pri, &mut ip), (&all, &mut ia)] {
            while *i < v.len() && inq.contains(&v[*i]) {
                *i += 1;
            }
            if *i < v.len() && chosen.len() < max_boundaries {
                inq.insert(v[*i]);
                chosen.push(v[*i]);
                *i += 1;
            }
        }
    }
    let must_chosen: HashSet<usize> = must.iter().copied().filter(|k| chosen.contains(k)).collect();
    let ks: Vec<String> = chosen.iter().map(|k| k.to_string()).collect();
    if ks.is_empty() {
        return;
    }
    let resp = ctx.model.ask(&format!("C01 images {} {line}", ks.join(",")));
    let bounds = match parse_images(&resp) {
        Ok(b) => b,
        Err(e) => {
            ctx.report.violation("model", "C01:model-images-unparsable", e, json!({"kind":"history","history":hist_json}));
            return;
        }
    };
    let mut seen: HashMap<u64, bool> = HashMap::new();
    let mut witnessed: HashSet<usize> = HashSet::new();
    let mut complete: HashSet<usize> = HashSet::new();
    let mut images_done = 0usize;
    let by_k: HashMap<usize, &Boundary> = bounds.iter().map(|b| (b.k, b)).collect();
    for k in &chosen {
        let b = match by_k.get(k) {
            Some(b) => *b,
            None => continue,
        };
        if images_done >= max_images {
            ctx.report.count("boundaries:not-evaluated-image-budget");
            continue;
        }
        ctx.report.count("boundaries");
        let applied = match b.images.iter().find(|d| d.kind == 0) {
            Some(a) => a.clone(),
            None => continue,
        };
        let visible_meta: Vec<u8> = applied.atoms.iter().find(|(p, _)| *p == 0).and_then(|(_, v)| run.log[*v].data.clone()).unwrap_or_default();
        let visible_files: HashSet<String> = applied.files.iter().map(|(p, _, _)| trace.names[*p].clone()).collect();
        let op_before = trace.src[b.k - 1].map(|s| run.log[s].line()).unwrap_or_else(|| trace.toks[b.k - 1].clone());
        for d in &b.images {
            if !d.allowed {
                ctx.report.violation("model", "C01:model-image-not-allowed", format!("enumerated image {}:{} at boundary {} is not allowed by the fault model", d.kind, d.subject, b.k), json!({"kind":"history","history":hist_json}));
                continue;
            }
            let files = materialize(d, &trace, &run.log);
            let mut canon = format!("{}|{}|", b.acked, b.started);
            for (n, v) in &files {
                canon.push_str(&format!("{n}:{}:{:x};", v.len(), crate::report::fnv(v)));
            }
            let hsh = crate::report::fnv(canon.as_bytes());
            if let Some(failed) = seen.get(&hsh) {
                ctx.report.count("images:duplicate-skipped");
                if *failed {
                    witnessed.insert(b.k);
                }
                continue;
            }
            // differs from "all applied" only in meta.json?
            let sole_meta_lost = d.files == applied.files && d.atoms.iter().zip(applied.atoms.iter()).all(|(x, y)| x == y || x.0 == 0) && d.atoms.len() == applied.atoms.len() && d.atoms != applied.atoms;
            let nontrivial = d.kind != 0 && files.len() > 2;
            ctx.report.case(&canon, nontrivial);
            ctx.report.count(&format!("image-kind:{}", kind_name(d.kind)));
            let desc = format!("{}{} after op #{} [{}] of thread-tagged log", kind_name(d.kind),
                if d.kind >= 2 { format!(" {}{}", trace.names.get(d.subject).cloned().unwrap_or_default(), if d.kind == 8 { format!(" to {} bytes", d.arg) } else if d.kind == 4 || d.kind == 7 { format!(" (version {})", d.arg) } else { String::new() }) } else { String::new() },
                b.k - 1, op_before);
            images_done += 1;
            let out = judge_image(ctx, &files, b.acked, b.started, &run.expected, &visible_meta, &visible_files, sole_meta_lost, &desc, Some(d.model_rec), &hist_json);
            seen.insert(hsh, out.fail.is_some());
            match &out.fail {
                Some(f) => {
                    ctx.report.count(&format!("image-outcome:fail:{}", f.kind));
                    witnessed.insert(b.k);
                }
                None => ctx.report.count("image-outcome:ok"),
            }
            if ctx.report.samples.len() < 4 && d.kind != 0 && (ctx.report.samples.len() < 2 || out.fail.is_some()) {
                ctx.report.sample(json!({"history": hist_json, "image": desc, "files": files.iter().map(|(n, v)| format!("{n} ({} bytes)", v.len())).collect::<Vec<_>>(),
                    "acked": b.acked, "started": b.started, "recovered_opstamp": out.opstamp, "failure": out.fail.as_ref().map(|f| f.detail.clone())}));
            }
        }
        complete.insert(b.k);
    }
    // a discipline violation must be witnessed: the model names the operation whose protection is
    // missing, and one of the images right after it (the un-synced item lost / applied) has to
    // make the real code fail. A violated rule without such a witness means model and code
    // disagree about what the rule protects.
    for (i, rs) in &viol {
        let k = i + 1;
        if must_chosen.contains(&k) && complete.contains(&k) && !witnessed.contains(&k) {
            let names: Vec<String> = rs.iter().map(|r| match r { 30 => "D3a".to_string(), 31 => "D3b".to_string(), x => format!("D{x}") }).collect();
            let op = trace.src.get(*i).copied().flatten().map(|s| run.log[s].line()).unwrap_or_else(|| trace.toks[*i].clone());
            ctx.report.violation("model", &format!("C01:discipline-{}-violated-no-witness", names.join("+")), format!("op #{i} [{op}] breaks {names:?} but every crash image right after it is recovered correctly by the real code"), json!({"kind":"history","history":hist_json}));
        } else if must_chosen.contains(&k) && witnessed.contains(&k) {
            ctx.report.count("discipline-violation:witnessed-by-failing-image");
        }
    }
}

pub fn run(ctx: &mut Ctx) {
    ctx.report.rule = "cases = distinct (durable image, lastAcked, lastStarted) triples opened by the real code; \
        non-trivial = the image differs from the live directory (at least one un-synced item lost, kept or truncated) \
        and holds at least one file besides meta.json/.managed.json".into();
    ctx.report.correspondence_obligations = vec![
        "every open_read/exists/atomic_read result of the real log = visible layer of the storage model".into(),
        "real log satisfies the decidable discipline D0,D1,D2,D4 (D3a/D3b: finding S1) — every offending op is returned".into(),
        "model recover(image descriptor) = commit the real Index::open recovers from the materialised image".into(),
        "every enumerated image is allowed by the fault model (run-time self check of the enumerator)".into(),
        "every operation the model reports as breaking a rule is witnessed by a crash image right after it that the real code fails on".into(),
        "file names: extracted META/MANAGED/lock names and component suffixes = names the real code uses".into(),
        "oracle: open succeeds, content = one commit j in [lastAcked,lastStarted], files validate, writer+commit+GC work".into(),
    ];
    if let Some(case) = ctx.replay.clone() {
        replay(ctx, &case);
        return;
    }
    if catch_unwind(AssertUnwindSafe(|| check_names(ctx))).is_err() {
        ctx.report.violation("oracle", "C01:basic-index-operation-failed", "create / add / commit / delete on a RamDirectory failed or panicked".into(), json!({"kind":"names"}));
    }
    // corpus: the S1 scenarios, every boundary
    let corpus = [
        Hist { threads: 1, merge_policy: false, cut_docs: 0, sorted: false, steps: vec![Step::Add(1), Step::Add(2), Step::Commit, Step::Add(3), Step::Commit] },
        Hist { threads: 1, merge_policy: false, cut_docs: 0, sorted: false, steps: vec![Step::Add(1), Step::Add(5), Step::Add(6), Step::Commit, Step::DelGrp(1), Step::Commit, Step::DelGrp(0), Step::Add(7), Step::Commit] },
        Hist { threads: 1, merge_policy: false, cut_docs: 1, sorted: false, steps: vec![Step::Add(1), Step::Add(2), Step::Commit, Step::Merge { wait: true }, Step::Add(3), Step::Commit] },
        // >= 2 committed segments, policy switched on inside a transaction with a pending delete
        // that hits them, segments flushed (the updater reconsiders merges), transaction dropped
        Hist { threads: 1, merge_policy: false, cut_docs: 1, sorted: false, steps: vec![Step::Add(1), Step::Add(2), Step::Add(3), Step::Commit, Step::Add(4), Step::Add(6), Step::Commit,
            Step::PolicyOn, Step::Add(7), Step::DelGrp(1), Step::Add(8), Step::Add(9), Step::Reopen { wait: true }, Step::Add(10), Step::Commit] },
    ];
    let thorough = ctx.thorough();
    for h in &corpus {
        check_history(ctx, h, usize::MAX, if thorough { 1500 } else { 220 });
    }
    let n = ctx.budget(14, 24);
    // thorough: at most 4 x 1500 + 24 x 350 = 14 400 images (about 25 ms each on an idle machine)
    let per_images = if thorough { 350 } else { 130 };
    let max_steps = if thorough { 40 } else { 22 };
    for _ in 0..n {
        let mut rng = ctx.rng.fork();
        let h = gen_hist(&mut rng, max_steps, false);
        check_history(ctx, &h, if thorough { 250 } else { 120 }, per_images);
    }
}

/// the extracted names are the ones the real code uses
fn check_names(ctx: &mut Ctx) {
    let resp = ctx.model.ask("C01 names");
    let parts: Vec<&str> = resp.split(';').collect();
    let name = |i: usize| -> String { parts.get(i).and_then(|h| unhex(h)).map(|b| String::from_utf8_lossy(&b).to_string()).unwrap_or_default() };
    let mut problems = vec![];
    if name(0) != META {
        problems.push(format!("meta name {:?}", name(0)));
    }
    if name(1) != MANAGED {
        problems.push(format!("managed name {:?}", name(1)));
    }
    if name(2) != tantivy::directory::INDEX_WRITER_LOCK.filepath.to_string_lossy() || name(3) != tantivy::directory::META_LOCK.filepath.to_string_lossy() {
        problems.push("lock names".into());
    }
    let blocking = parts.get(13).copied().unwrap_or("");
    if blocking != format!("{}{}", tantivy::directory::INDEX_WRITER_LOCK.is_blocking as u8, tantivy::directory::META_LOCK.is_blocking as u8) {
        problems.push(format!("lock blocking flags {blocking}"));
    }
    // a real index: meta.json / .managed.json exist under the extracted names; component files
    let (schema, f) = schema();
    let ram = RamDirectory::create();
    let index = Index::create(ram.clone(), schema, Default::default()).unwrap();
    let mut w: IndexWriter = index.writer_with_num_threads(1, 15_000_000).unwrap();
    w.add_document(doc!(f.id => 1u64, f.grp => 1u64, f.body => "x")).unwrap();
    w.commit().unwrap();
    w.delete_term(Term::from_field_u64(f.id, 1));
    w.add_document(doc!(f.id => 2u64, f.grp => 1u64, f.body => "y")).unwrap();
    w.commit().unwrap();
    drop(w);
    if !ram.exists(Path::new(&name(0))).unwrap_or(false) || !ram.exists(Path::new(&name(1))).unwrap_or(false) {
        problems.push("meta.json / .managed.json not found under the extracted names".into());
    }
    let del_suffix = name(4);
    let suffixes: Vec<String> = (5..12).map(name).collect();
    let temp_idx: usize = parts.get(12).and_then(|s| s.parse().ok()).unwrap_or(99);
    for sm in index.searchable_segment_metas().unwrap() {
        let uuid = sm.id().uuid_string();
        let mut model: HashSet<PathBuf> = suffixes.iter().enumerate().filter(|(i, _)| *i != temp_idx).map(|(_, s)| PathBuf::from(format!("{uuid}{s}"))).collect();
        model.insert(PathBuf::from(format!("{uuid}.{}{del_suffix}", sm.delete_opstamp().unwrap_or(0))));
        if model != sm.list_files() {
            problems.push(format!("list_files of {uuid}: real {:?} vs extracted {:?}", sm.list_files(), model));
        }
    }
    ctx.report.case("names", true);
    if !problems.is_empty() {
        ctx.report.violation("model", "C01:file-names-differ", problems.join("; "), json!({"kind":"names"}));
    }
}
