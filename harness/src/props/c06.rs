//! C06 — Top-K collection returns exactly the best K, with deterministic ties.
//!
//! (A) `TopNComputer` (public) on generated push sequences vs `Model/TopN.lean` (final vector,
//!     threshold after every push, two different `select_nth` behaviours) and vs a sort.
//! (B) end to end: `Searcher::search(query, TopDocs…)` by score / fast field asc+desc
//!     (u64, i64, f64, date, string) / tweak_score / custom sort key / lexicographic pair, with
//!     offsets, 1..6 segments with deletes, single- and multi-threaded executor, against the SAME
//!     searcher's exhaustive (doc, key) list from a non-pruning collector, ordered by the model's
//!     `topK` spec. Exact equality for exactly comparable keys; a tolerance only for scores that
//!     are float sums over several clauses. Paging enumerates every match once.
//! (C) the three pruning drivers through `Weight::for_each_pruning` under threshold-raising callback
//!     policies vs the exhaustive loop and, bit for bit, vs the Lean mirrors of the loops.
//! (D) keys outside the model (NaN sort keys; scores not above the `Score::MIN` sentinel; negative
//!     boosts): no panic, size, no duplicates, true keys — the order with NaN keys is only reported.
//! Known findings are attributed only when the named bound hypothesis is verified to fail on the
//! searcher at hand (recomputed through the public postings API).
use crate::model::nat_list;
use crate::rng::Rng;
use crate::Ctx;
use serde_json::{json, Value};
use std::cmp::Ordering;
use std::panic::{catch_unwind, AssertUnwindSafe};
use tantivy::collector::sort_key::{
    NaturalComparator, ReverseComparator, SortByStaticFastValue,
};
use tantivy::collector::{
    Collector, SegmentCollector, SegmentSortKeyComputer, SortKeyComputer, TopDocs, TopNComputer,
};
use tantivy::columnar::Column;
use tantivy::merge_policy::NoMergePolicy;
use tantivy::query::{
    AllQuery, Bm25Weight, BooleanQuery, BoostQuery, ConstScoreQuery, Occur, Query, TermQuery,
};
use tantivy::schema::{Field, IndexRecordOption, Schema, FAST, INDEXED, STRING, TEXT};
use tantivy::{
    DateTime, DocAddress, DocId, Index, IndexWriter, Order, Score, Searcher, SegmentReader,
    TantivyDocument, Term,
};

// ---------------------------------------------------------------------------------------------
// (A) TopNComputer vs model
// ---------------------------------------------------------------------------------------------

fn real_topn(k: usize, asc: bool, keys: &[i64], addrs: &[u32]) -> Result<(Vec<(i64, u32)>, Vec<Option<i64>>), ()> {
    catch_unwind(AssertUnwindSafe(|| {
        let mut trace = Vec::with_capacity(keys.len());
        if asc {
            let mut c: TopNComputer<i64, u32, ReverseComparator> = TopNComputer::new_with_comparator(k, ReverseComparator);
            for (key, a) in keys.iter().zip(addrs) {
                c.push(*key, *a);
                trace.push(c.threshold);
            }
            (c.into_sorted_vec().into_iter().map(|d| (d.sort_key, d.doc)).collect(), trace)
        } else {
            let mut c: TopNComputer<i64, u32, NaturalComparator> = TopNComputer::new_with_comparator(k, NaturalComparator);
            for (key, a) in keys.iter().zip(addrs) {
                c.push(*key, *a);
                trace.push(c.threshold);
            }
            (c.into_sorted_vec().into_iter().map(|d| (d.sort_key, d.doc)).collect(), trace)
        }
    }))
    .map_err(|_| ())
}

fn show_entries(v: &[(i64, u64)]) -> String {
    if v.is_empty() {
        return "-".into();
    }
    v.iter().map(|(k, a)| format!("{k}@{a}")).collect::<Vec<_>>().join(",")
}

fn topn_case(ctx: &mut Ctx, k: usize, asc: bool, keys: &[i64], addrs: &[u32], origin: &str) {
    let case = json!({"kind": "topn", "k": k, "asc": asc, "keys": keys, "addrs": addrs});
    let order = if asc { "asc" } else { "desc" };
    ctx.report.count(&format!("topn:{origin}"));
    ctx.report.count(&format!("topn:k={}", match k { 0 => "0", 1 => "1", 2..=9 => "2-9", 10..=99 => "10-99", _ => "100+" }));
    let distinct: std::collections::HashSet<i64> = keys.iter().cloned().collect();
    let nontrivial = keys.len() > 2 * k.max(1) && distinct.len() < keys.len();
    ctx.report.case(&format!("topn|{k}|{asc}|{:x}", crate::report::fnv(format!("{keys:?}{addrs:?}").as_bytes())), nontrivial);
    let real = match real_topn(k, asc, keys, addrs) {
        Ok(r) => r,
        Err(()) => {
            ctx.report.violation("oracle", "C06:topn-panic", format!("TopNComputer panicked (K={k}, {} pushes)", keys.len()), case);
            return;
        }
    };
    // oracle: sort by (key better first, addr asc), take K
    let mut exp: Vec<(i64, u32)> = keys.iter().cloned().zip(addrs.iter().cloned()).collect();
    exp.sort_by(|a, b| (if asc { a.0.cmp(&b.0) } else { b.0.cmp(&a.0) }).then(a.1.cmp(&b.1)));
    exp.truncate(k);
    if real.0 != exp {
        ctx.report.violation("oracle", "C06:topn-computer-wrong", format!("TopNComputer(K={k}, {order}) over {} pushes: got {:?}…, expected {:?}…", keys.len(), &real.0[..real.0.len().min(4)], &exp[..exp.len().min(4)]), case);
        return;
    }
    let real_vec = show_entries(&real.0.iter().map(|(k, a)| (*k, *a as u64)).collect::<Vec<_>>());
    let real_trace = if real.1.is_empty() { "-".to_string() } else { real.1.iter().map(|t| t.map(|x| x.to_string()).unwrap_or("n".into())).collect::<Vec<_>>().join(",") };
    for sel in ["sorted", "reversed"] {
        let resp = ctx.model.ask(&format!("C06 topn {k} {order} {sel} {} {}", nat_list(keys), nat_list(addrs)));
        let expect = format!("{real_vec}|{real_trace}|0");
        if resp != expect {
            let what = if resp.split('|').next() != Some(&real_vec) { "final vector" } else if resp.ends_with("|1") { "model predicts a panic" } else { "threshold trace" };
            ctx.report.violation("model", "C06:topn-model-mismatch", format!("TopNComputer(K={k}, {order}, sel={sel}) differs from the model in the {what}: real {}… model {}…", &expect[..expect.len().min(80)], &resp[..resp.len().min(80)]), case.clone());
            return;
        }
    }
}

fn gen_topn(ctx: &mut Ctx, n_cases: u64) {
    let mut rng = ctx.rng.fork();
    for i in 0..n_cases {
        let k = match rng.below(10) { 0 => 0, 1 | 2 => 1, 3 => 2, 4 => 3, 5 => 5, 6 => 10, 7 => 64, 8 => rng.range(2, 40) as usize, _ => rng.range(100, 300) as usize };
        let cap = 2 * k.max(1);
        let n = match rng.below(9) { 0 => 0, 1 => 1, 2 => k, 3 => cap, 4 => cap + 1, 5 => 2 * cap + 1, 6 => rng.range(0, 3 * cap as u64 + 3) as usize, 7 => rng.range(0, 50) as usize, _ => rng.range(cap as u64, 6 * cap as u64 + 20) as usize };
        let n = n.min(if ctx.thorough() { 5000 } else { 1500 });
        let alphabet = match rng.below(6) { 0 => 1, 1 => 2, 2 => 3, 3 => 10, 4 => 1000, _ => 1 << 40 };
        let trend = rng.below(4); // 0 random, 1 ascending keys (threshold keeps rising), 2 descending, 3 random
        let mut addr: u32 = rng.below(3) as u32;
        let mut keys = vec![];
        let mut addrs = vec![];
        for j in 0..n {
            let base = rng.below(alphabet) as i64 - (alphabet / 2) as i64;
            let key = match trend { 1 => base / 4 + (j as i64) / 3, 2 => base / 4 - (j as i64) / 3, _ => base };
            keys.push(key);
            addrs.push(addr);
            addr += 1 + if rng.chance(1, 4) { rng.below(1000) as u32 } else { 0 };
        }
        topn_case(ctx, k, rng.chance(1, 2), &keys, &addrs, "generated");
        if i == 0 {
            ctx.report.sample(json!({"part": "A", "k": k, "pushes": n, "key_alphabet": alphabet, "first_keys": &keys[..keys.len().min(12)]}));
        }
    }
}

/// A line-by-line replica of the collection pipeline built from the real, public `TopNComputer`:
/// per segment `push` in doc order + `into_vec()`, then `merge_top_k` (push the flattened fruits,
/// `into_sorted_vec`). `heap_segments` replicates `TopNHeap` (collection by score) instead.
/// Used to *guide* generation towards tie-breaking in the merge and to confirm the mechanism
/// before a failing end-to-end case is attributed; never used as an oracle.
fn pipeline_replica(n: usize, segs: &[Vec<(i64, u32)>], heap_segments: bool) -> Vec<(i64, (u32, u32))> {
    // a panic of the real TopNComputer inside the replica must not take the harness down
    catch_unwind(AssertUnwindSafe(|| pipeline_replica_inner(n, segs, heap_segments))).unwrap_or_default()
}

fn pipeline_replica_inner(n: usize, segs: &[Vec<(i64, u32)>], heap_segments: bool) -> Vec<(i64, (u32, u32))> {
    use std::cmp::Reverse;
    use std::collections::BinaryHeap;
    let mut merged: TopNComputer<i64, (u32, u32), NaturalComparator> = TopNComputer::new_with_comparator(n, NaturalComparator);
    for (s, docs) in segs.iter().enumerate() {
        if heap_segments {
            // mirrors sort_by_score.rs::TopNHeap (entry order: score, then lower doc wins ties)
            let mut heap: BinaryHeap<Reverse<(i64, Reverse<u32>)>> = BinaryHeap::with_capacity(n);
            let mut threshold: Option<i64> = None;
            for (k, d) in docs {
                if heap.len() < n {
                    heap.push(Reverse((*k, Reverse(*d))));
                    if heap.len() == n {
                        threshold = heap.peek().map(|Reverse(e)| e.0);
                    }
                } else if let Some(t) = threshold {
                    if *k > t {
                        if let Some(mut min) = heap.peek_mut() {
                            *min = Reverse((*k, Reverse(*d)));
                        }
                        threshold = heap.peek().map(|Reverse(e)| e.0);
                    }
                }
            }
            for Reverse((k, Reverse(d))) in heap.into_vec() {
                merged.push(k, (s as u32, d));
            }
        } else {
            let mut c: TopNComputer<i64, u32, NaturalComparator> = TopNComputer::new_with_comparator(n, NaturalComparator);
            for (k, d) in docs {
                c.push(*k, *d);
            }
            for cd in c.into_vec() {
                merged.push(cd.sort_key, (s as u32, cd.doc));
            }
        }
    }
    merged.into_sorted_vec().into_iter().map(|d| (d.sort_key, d.doc)).collect()
}

fn gen_tie_segments(rng: &mut Rng) -> (usize, Vec<Vec<(i64, u32)>>) {
    let n = [3usize, 4, 6, 9, 12, 17, 24, 40][rng.usize_below(8)];
    let nseg = 3 + rng.usize_below(4);
    let mut segs: Vec<Vec<(i64, u32)>> = vec![];
    for s in 0..nseg {
        let docs = match rng.below(4) { 0 => 1 + rng.usize_below(n + 1), 1 => n + 1 + rng.usize_below(n), _ => 2 * n + 1 + rng.usize_below(4 * n) };
        segs.push((0..docs).map(|d| ((s as i64) / 2 + rng.below(2) as i64 + if rng.chance(1, 10) { 1 } else { 0 }, d as u32)).collect());
    }
    (n, segs)
}

/// exploration aid (C06_EXPLORE=1): a line-by-line replica of `merge_top_k` fed with real
/// `TopNComputer::into_vec()` fruits, compared with a sort. Not part of any verdict.
fn explore_merge_replica(ctx: &mut Ctx) {
    let mut rng = ctx.rng.fork();
    let mut found = 0;
    for it in 0..400_000u64 {
        let (n, segs) = gen_tie_segments(&mut rng);
        let got = pipeline_replica(n, &segs, it % 2 == 1);
        let mut exp: Vec<(i64, (u32, u32))> = segs.iter().enumerate().flat_map(|(s, docs)| docs.iter().map(move |(k, d)| (*k, (s as u32, *d)))).collect();
        exp.sort_by(|a, b| b.0.cmp(&a.0).then(a.1.cmp(&b.1)));
        exp.truncate(n);
        if got != exp {
            found += 1;
            if found <= 3 {
                eprintln!("replica mismatch at iteration {it}: n={n} seg sizes {:?}", segs.iter().map(|s| s.len()).collect::<Vec<_>>());
            }
        }
    }
    eprintln!("merge replica: {found} mismatches");
}

// ---------------------------------------------------------------------------------------------
// (B) end to end
// ---------------------------------------------------------------------------------------------

const TERMS: [&str; 6] = ["a", "b", "c", "d", "e", "g"];

#[derive(Clone, Debug, PartialEq)]
enum Key {
    None,
    U(u64),
    I(i64),
    F(f64),
    S(String),
    Sc(f32),
    Pair(Box<Key>, Box<Key>),
    /// the components of a (possibly nested) tuple sort key, flattened
    Tup(Vec<Key>),
}

impl Key {
    fn natural(&self, o: &Key) -> Ordering {
        match (self, o) {
            (Key::None, Key::None) => Ordering::Equal,
            (Key::None, _) => Ordering::Less,
            (_, Key::None) => Ordering::Greater,
            (Key::U(a), Key::U(b)) => a.cmp(b),
            (Key::I(a), Key::I(b)) => a.cmp(b),
            (Key::F(a), Key::F(b)) => a.partial_cmp(b).unwrap_or(Ordering::Equal),
            (Key::S(a), Key::S(b)) => a.cmp(b),
            (Key::Sc(a), Key::Sc(b)) => a.partial_cmp(b).unwrap_or(Ordering::Equal),
            _ => Ordering::Equal,
        }
    }
    fn show(&self) -> String {
        match self {
            Key::None => "none".into(),
            Key::U(x) => format!("{x}"),
            Key::I(x) => format!("{x}"),
            Key::F(x) => format!("{x:?}"),
            Key::S(x) => format!("{x:?}"),
            Key::Sc(x) => format!("{x:?}/{:08x}", x.to_bits()),
            Key::Pair(a, b) => format!("({}, {})", a.show(), b.show()),
            Key::Tup(v) => format!("({})", v.iter().map(|k| k.show()).collect::<Vec<_>>().join(", ")),
        }
    }
}

/// `Less` = `a` comes first. Mirrors the documented order of `Order::Desc` (Natural: greatest
/// first, None last) and `Order::Asc` (ReverseNoneLower: smallest first, None last).
fn better(asc: bool, a: &Key, b: &Key) -> Ordering {
    match (a, b) {
        (Key::None, Key::None) => Ordering::Equal,
        (Key::None, _) => Ordering::Greater,
        (_, Key::None) => Ordering::Less,
        _ => if asc { a.natural(b) } else { b.natural(a) },
    }
}

#[derive(Clone, Debug, PartialEq)]
enum Kind {
    Score,
    FastU64(bool),
    FastI64(bool),
    FastF64(bool),
    FastDate(bool),
    FastStr(bool),
    /// low-cardinality u64 column: massive ties
    FastTies(bool),
    TweakFloor,
    TweakMod,
    CustomMod(u64, Option<bool>),
    PairAscDesc,
    /// custom sort key given explicitly per (segment ordinal, doc): replica-guided tie layouts
    Layout(std::sync::Arc<Vec<Vec<u64>>>),
    /// tuple of u64 fast-field keys with an order each. shape 0: `(k0,k1,k2)`, 1: `(k0,k1,k2,k3)`,
    /// 2: `((k0,k1,k2),k3)`, 3: `(k0,(k1,k2,k3))`, 4: `((k0,k1),(k2,k3))`; cols index `TUPLE_COLS`
    Tuple(u8, [u8; 4], [bool; 4]),
}

/// low-cardinality u64 columns first: lexicographic keys are decided by later components
const TUPLE_COLS: [&str; 4] = ["ties", "t2", "t3", "u"];

impl Kind {
    fn name(&self) -> String {
        if let Kind::Layout(_) = self { return "Layout".into(); }
        format!("{self:?}")
    }
    fn cmp(&self, a: &Key, b: &Key) -> Ordering {
        match self {
            Kind::Score | Kind::TweakFloor | Kind::TweakMod => better(false, a, b),
            Kind::FastU64(asc) | Kind::FastI64(asc) | Kind::FastF64(asc) | Kind::FastDate(asc) | Kind::FastStr(asc) | Kind::FastTies(asc) => better(*asc, a, b),
            Kind::CustomMod(_, o) => better(o.unwrap_or(false), a, b),
            Kind::Layout(_) => better(false, a, b),
            Kind::Tuple(_, _, asc) => match (a, b) {
                (Key::Tup(x), Key::Tup(y)) => x.iter().zip(y.iter()).zip(asc.iter()).fold(Ordering::Equal, |acc, ((p, q), asc)| acc.then(better(*asc, p, q))),
                _ => Ordering::Equal,
            },
            Kind::PairAscDesc => match (a, b) {
                (Key::Pair(a1, a2), Key::Pair(b1, b2)) => better(true, a1, b1).then(better(false, a2, b2)),
                _ => Ordering::Equal,
            },
        }
    }
    fn uses_score(&self) -> bool {
        matches!(self, Kind::Score | Kind::TweakFloor)
    }
}

#[derive(Clone, Debug)]
enum Q {
    Term(String),
    Union(Vec<String>),
    Inter(Vec<String>),
    Mix { must: Vec<String>, should: Vec<String>, not: Vec<String> },
    Boost(Box<Q>, f32),
    Const(Box<Q>, f32),
    Nested(Vec<(u8, Q)>),
    /// DisjunctionMaxQuery over plain term queries
    DisMax(Vec<String>, f32),
    All,
}

/// `t:x` = term x of field `title`, `n:x` = of the no-freq field `basic`, plain `x` = of `body`
fn term_of(fields: &Fields, t: &str) -> (Field, Term) {
    if let Some(x) = t.strip_prefix("t:") { (fields.title, Term::from_field_text(fields.title, x)) }
    else if let Some(x) = t.strip_prefix("n:") { (fields.basic, Term::from_field_text(fields.basic, x)) }
    else { (fields.body, Term::from_field_text(fields.body, t)) }
}

impl Q {
    fn build(&self, fields: &Fields) -> Box<dyn Query> {
        let tq = |t: &String| -> Box<dyn Query> { Box::new(TermQuery::new(term_of(fields, t).1, IndexRecordOption::WithFreqs)) };
        match self {
            Q::Term(t) => tq(t),
            Q::Union(ts) => Box::new(BooleanQuery::new(ts.iter().map(|t| (Occur::Should, tq(t))).collect())),
            Q::Inter(ts) => Box::new(BooleanQuery::new(ts.iter().map(|t| (Occur::Must, tq(t))).collect())),
            Q::Mix { must, should, not } => {
                let mut v: Vec<(Occur, Box<dyn Query>)> = vec![];
                v.extend(must.iter().map(|t| (Occur::Must, tq(t))));
                v.extend(should.iter().map(|t| (Occur::Should, tq(t))));
                v.extend(not.iter().map(|t| (Occur::MustNot, tq(t))));
                Box::new(BooleanQuery::new(v))
            }
            Q::Boost(q, b) => Box::new(BoostQuery::new(q.build(fields), *b)),
            Q::Const(q, s) => Box::new(ConstScoreQuery::new(q.build(fields), *s)),
            Q::Nested(cs) => Box::new(BooleanQuery::new(cs.iter().map(|(o, q)| (match o { 0 => Occur::Must, 1 => Occur::Should, _ => Occur::MustNot }, q.build(fields))).collect())),
            Q::DisMax(ts, tie) => Box::new(tantivy::query::DisjunctionMaxQuery::with_tie_breaker(ts.iter().map(tq).collect(), *tie)),
            Q::All => Box::new(AllQuery),
        }
    }
    /// number of scoring clauses whose scores are added (1 = the score is bit-exact)
    fn clauses(&self) -> usize {
        match self {
            Q::Term(_) | Q::All | Q::Const(_, _) => 1,
            Q::Union(ts) | Q::Inter(ts) | Q::DisMax(ts, _) => ts.len(),
            Q::Mix { must, should, .. } => must.len() + should.len(),
            Q::Boost(q, _) => q.clauses(),
            Q::Nested(cs) => cs.iter().filter(|(o, _)| *o < 2).map(|(_, q)| q.clauses()).sum::<usize>().max(1),
        }
    }
    fn path(&self) -> &'static str {
        match self {
            Q::Term(_) => "block_wand_single_scorer",
            Q::Union(ts) if ts.len() >= 2 => "block_wand",
            Q::Union(_) => "block_wand_single_scorer",
            Q::Inter(ts) if ts.len() >= 2 => "block_wand_intersection",
            Q::Inter(_) => "block_wand_single_scorer",
            Q::DisMax(ts, _) if ts.len() >= 2 => "block_wand(dismax)",
            _ => "for_each_pruning_scorer",
        }
    }
    fn wand_terms(&self) -> Option<Vec<String>> {
        match self {
            Q::Term(t) => Some(vec![t.clone()]),
            Q::Union(ts) | Q::Inter(ts) | Q::DisMax(ts, _) => Some(ts.clone()),
            _ => None,
        }
    }
    fn to_json(&self) -> Value {
        match self {
            Q::Term(t) => json!({"term": t}),
            Q::Union(ts) => json!({"union": ts}),
            Q::Inter(ts) => json!({"inter": ts}),
            Q::Mix { must, should, not } => json!({"must": must, "should": should, "not": not}),
            Q::Boost(q, b) => json!({"boost": b, "q": q.to_json()}),
            Q::Const(q, s) => json!({"const": s, "q": q.to_json()}),
            Q::Nested(cs) => json!({"nested": cs.iter().map(|(o, q)| json!([o, q.to_json()])).collect::<Vec<_>>()}),
            Q::DisMax(ts, tie) => json!({"dismax": ts, "tie_bits": tie.to_bits()}),
            Q::All => json!("all"),
        }
    }
    fn from_json(v: &Value) -> Option<Q> {
        let strs = |v: &Value| -> Option<Vec<String>> { v.as_array()?.iter().map(|x| x.as_str().map(|s| s.to_string())).collect() };
        if v == "all" {
            return Some(Q::All);
        }
        if let Some(t) = v.get("term") { return Some(Q::Term(t.as_str()?.into())); }
        if let Some(t) = v.get("union") { return Some(Q::Union(strs(t)?)); }
        if let Some(t) = v.get("inter") { return Some(Q::Inter(strs(t)?)); }
        if let Some(t) = v.get("dismax") { return Some(Q::DisMax(strs(t)?, f32::from_bits(v["tie_bits"].as_u64()? as u32))); }
        if let Some(b) = v.get("boost") { return Some(Q::Boost(Box::new(Q::from_json(&v["q"])?), b.as_f64()? as f32)); }
        if let Some(b) = v.get("const") { return Some(Q::Const(Box::new(Q::from_json(&v["q"])?), b.as_f64()? as f32)); }
        if let Some(n) = v.get("nested") {
            let mut cs = vec![];
            for c in n.as_array()? {
                cs.push((c[0].as_u64()? as u8, Q::from_json(&c[1])?));
            }
            return Some(Q::Nested(cs));
        }
        if v.get("must").is_some() {
            return Some(Q::Mix { must: strs(&v["must"])?, should: strs(&v["should"])?, not: strs(&v["not"])? });
        }
        None
    }
}

/// one segment of a generated corpus: documents described compactly so that a case is replayable
#[derive(Clone, Debug)]
struct SegSpec {
    seed: u64,
    docs: usize,
    /// 0 short (1..8 tokens), 1 sweep of the quantisation buckets, 2 long, 3 single-term docs (F5 shape),
    /// 4 S3 shape A (dense `a a q*8` then alternating), 5 only filler
    profile: u8,
}

#[derive(Clone, Debug)]
struct CorpusSpec {
    segs: Vec<SegSpec>,
    delete_seed: u64,
    delete_permille: u64,
    /// the low-cardinality `ties` column grows with the segment ordinal (later segments beat the
    /// merge threshold of earlier ones: the neighbourhood of tie-breaking in `merge_top_k`)
    ties_trend: bool,
    /// explicit values of the `ties` column, per segment and document (model/replica-guided cases)
    ties_explicit: Option<Vec<Vec<u64>>>,
}

impl CorpusSpec {
    fn to_json(&self) -> Value {
        json!({"segs": self.segs.iter().map(|s| json!([s.seed.to_string(), s.docs, s.profile])).collect::<Vec<_>>(),
               "delete_seed": self.delete_seed.to_string(), "delete_permille": self.delete_permille, "ties_trend": self.ties_trend, "ties_explicit": self.ties_explicit})
    }
    fn from_json(v: &Value) -> Option<CorpusSpec> {
        let mut segs = vec![];
        for s in v["segs"].as_array()? {
            segs.push(SegSpec { seed: s[0].as_str()?.parse().ok()?, docs: s[1].as_u64()? as usize, profile: s[2].as_u64()? as u8 });
        }
        Some(CorpusSpec { segs, delete_seed: v["delete_seed"].as_str()?.parse().ok()?, delete_permille: v["delete_permille"].as_u64()?, ties_trend: v["ties_trend"].as_bool().unwrap_or(false),
            ties_explicit: v["ties_explicit"].as_array().map(|a| a.iter().map(|s| s.as_array().map(|x| x.iter().filter_map(|y| y.as_u64()).collect()).unwrap_or_default()).collect()) })
    }
}

struct Fields {
    body: Field,
    /// second tokenized field with freqs (mixed-field unions)
    title: Field,
    /// tokenized field indexed with IndexRecordOption::Basic (no freqs, fieldnorms on)
    basic: Field,
    id: Field,
    u: Field,
    i: Field,
    f: Field,
    d: Field,
    s: Field,
    ties: Field,
    /// deterministic low-cardinality columns (massive ties, no generator randomness consumed)
    t2: Field,
    t3: Field,
}

fn schema() -> (Schema, Fields) {
    let mut sb = Schema::builder();
    let body = sb.add_text_field("body", TEXT);
    let title = sb.add_text_field("title", TEXT);
    let basic = sb.add_text_field("basic", tantivy::schema::TextOptions::default().set_indexing_options(
        tantivy::schema::TextFieldIndexing::default().set_index_option(IndexRecordOption::Basic).set_fieldnorms(true)));
    let id = sb.add_u64_field("id", INDEXED | FAST);
    let u = sb.add_u64_field("u", FAST);
    let i = sb.add_i64_field("i", FAST);
    let f = sb.add_f64_field("f", FAST);
    let d = sb.add_date_field("d", FAST);
    let s = sb.add_text_field("s", STRING | FAST);
    let ties = sb.add_u64_field("ties", FAST);
    let t2 = sb.add_u64_field("t2", FAST);
    let t3 = sb.add_u64_field("t3", FAST);
    (sb.build(), Fields { body, title, basic, id, u, i, f, d, s, ties, t2, t3 })
}

fn field_norm_table() -> Vec<u32> {
    (0..=255u8).map(tantivy::fieldnorm::FieldNormReader::id_to_fieldnorm).collect()
}

fn gen_body(rng: &mut Rng, profile: u8, j: usize, table: &[u32]) -> String {
    let mut toks: Vec<&str> = vec![];
    match profile {
        3 => {
            // F5 shape: a document made of one term only, length in a lossy quantisation bucket
            let t = if rng.chance(2, 3) { "a" } else { *rng.pick(&TERMS) };
            let len = match rng.below(4) { 0 => 41, 1 => 43, 2 => 41 + rng.below(60) as usize, _ => 1 + rng.below(40) as usize };
            toks.extend(std::iter::repeat(t).take(len));
        }
        4 => {
            // S3 shape: `a a q×8` for the first 128 docs, then alternating `a` / `a a q×8`
            if j < 128 || j % 2 == 1 {
                toks.extend(["a", "a", "q", "q", "q", "q", "q", "q", "q", "q"]);
            } else {
                toks.push("a");
            }
            if j % 7 == 3 {
                toks.push("b");
            }
        }
        5 => {
            let len = 1 + rng.below(3) as usize;
            toks.extend(std::iter::repeat("z").take(len));
        }
        6 | 7 => {
            // massive score ties: `a z` (lower score) or `a` (higher score); profile 7 mostly the higher
            toks.push("a");
            if rng.below(10) < if profile == 6 { 8 } else { 2 } {
                toks.push("z");
            }
            if rng.chance(1, 3) {
                toks.push("b");
            }
        }
        _ => {
            let len = match profile {
                // length trend: the first third of the segment is long, the rest short — block
                // bounds taken from the beginning of a posting list are far below later scores
                8 => if j % 3000 < 700 { 150 + rng.below(250) as usize } else { 1 + rng.below(6) as usize },
                0 => 1 + rng.below(8) as usize,
                2 => 300 + rng.below(2500) as usize,
                _ => {
                    // sweep the quantisation buckets: pick an id, then a length inside its bucket
                    let id = if rng.chance(1, 60) { 100 + rng.below(36) as usize } else { rng.below(100) as usize };
                    let lo = table[id].max(1) as usize;
                    let hi = (table[id + 1] as usize).max(lo + 1);
                    lo + rng.usize_below(hi - lo)
                }
            };
            let mut left = len;
            for (ti, t) in TERMS.iter().enumerate() {
                // document frequencies fall with the term index; tf skewed
                let p = if profile == 8 { [75u64, 60, 50, 40, 30, 5][ti] } else { [70u64, 45, 25, 12, 5, 2][ti] };
                if left > 0 && rng.below(100) < p {
                    let tf = match rng.below(10) { 0..=5 => 1, 6 | 7 => 1 + rng.below(4) as usize, 8 => 1 + rng.below(30) as usize, _ => 1 + rng.usize_below(left) };
                    let tf = tf.min(left);
                    toks.extend(std::iter::repeat(*t).take(tf));
                    left -= tf;
                }
            }
            toks.extend(std::iter::repeat("z").take(left));
        }
    }
    toks.join(" ")
}

const STRS: [&str; 9] = ["", "a", "ab", "abc", "b", "zz", "é", "Z", "aa"];

struct Built {
    index: Index,
    fields: Fields,
    num_docs: usize,
}

/// The searcher's segment order is the iteration order of a hash map over random segment ids:
/// it differs from run to run. Cases record it (first `id` of every segment) and a replay
/// rebuilds the corpus until the order matches.
fn segment_order(searcher: &Searcher) -> Vec<u64> {
    searcher.segment_readers().iter().map(|r| r.fast_fields().u64("id").ok().and_then(|c| c.first(0)).unwrap_or(u64::MAX)).collect()
}

fn build_with_order(spec: &CorpusSpec, want: Option<&Vec<u64>>) -> (Built, bool) {
    let total: usize = spec.segs.iter().map(|s| s.docs).sum();
    let tries = if want.is_none() { 1 } else if total <= 3000 { 3000 } else if total <= 20000 { 200 } else { 20 };
    let mut last = None;
    for _ in 0..tries {
        let b = build(spec);
        let ord = segment_order(&b.index.reader().unwrap().searcher());
        let ok = want.map(|w| *w == ord).unwrap_or(true);
        last = Some(b);
        if ok {
            return (last.unwrap(), true);
        }
    }
    (last.unwrap(), false)
}

fn build(spec: &CorpusSpec) -> Built {
    let (schema, fields) = schema();
    let index = Index::create_in_ram(schema);
    let table = field_norm_table();
    let mut w: IndexWriter = index.writer_with_num_threads(1, 60_000_000).unwrap();
    w.set_merge_policy(Box::new(NoMergePolicy));
    let mut next_id: u64 = 0;
    for (seg_pos, seg) in spec.segs.iter().enumerate() {
        let mut rng = Rng(seg.seed);
        for j in 0..seg.docs {
            let mut doc = TantivyDocument::default();
            doc.add_text(fields.body, gen_body(&mut rng, seg.profile, j, &table));
            if seg.profile < 3 || seg.profile == 8 {
                // `title`: short, with freqs; `basic`: no freqs, frequent terms (>= 128 postings in
                // the larger segments), lengths spread over several field-norm codes
                let tl = 1 + rng.usize_below(5);
                let title: Vec<&str> = (0..tl).map(|_| if rng.chance(1, 3) { "z" } else { TERMS[rng.usize_below(4)] }).collect();
                doc.add_text(fields.title, title.join(" "));
                let bmax = if rng.chance(1, 5) { 60 } else { 6 };
                let bl = 1 + rng.usize_below(bmax);
                let basic: Vec<&str> = (0..bl).map(|_| match rng.below(6) { 0 | 1 => "a", 2 => "b", 3 => "c", _ => "z" }).collect();
                doc.add_text(fields.basic, basic.join(" "));
            }
            doc.add_u64(fields.id, next_id);
            let all = j == 0;
            if all || !rng.chance(1, 10) {
                doc.add_u64(fields.u, match rng.below(5) { 0 => rng.below(4), 1 => u64::MAX - rng.below(3), 2 => 1 << 63, _ => rng.next_u64() >> rng.below(64) });
            }
            if all || !rng.chance(1, 10) {
                doc.add_i64(fields.i, match rng.below(5) { 0 => rng.below(5) as i64 - 2, 1 => i64::MIN + rng.below(2) as i64, 2 => i64::MAX, _ => (rng.next_u64() >> rng.below(64)) as i64 * if rng.chance(1, 2) { -1 } else { 1 } });
            }
            if all || !rng.chance(1, 10) {
                doc.add_f64(fields.f, match rng.below(6) { 0 => 0.0, 1 => -0.5, 2 => 1e300, 3 => -1e-300, 4 => (rng.below(7) as f64) / 2.0, _ => (rng.next_u64() as f64 / 1e10) - 9e8 });
            }
            if all || !rng.chance(1, 10) {
                doc.add_date(fields.d, DateTime::from_timestamp_secs(rng.below(2_000_000_000) as i64 - if rng.chance(1, 4) { 3_000_000_000 } else { 0 }));
            }
            if all || !rng.chance(1, 8) {
                doc.add_text(fields.s, if rng.chance(2, 3) { STRS[rng.usize_below(STRS.len())].to_string() } else { format!("k{}", rng.below(500)) });
            }
            if let Some(ex) = &spec.ties_explicit {
                doc.add_u64(fields.ties, ex[seg_pos][j]);
            } else if all || !rng.chance(1, 20) {
                doc.add_u64(fields.ties, if spec.ties_trend { seg_pos as u64 / 2 + rng.below(2) } else { rng.below(3) });
            }
            // (a few documents without the value: None ordering inside tuples)
            if j % 23 != 5 { doc.add_u64(fields.t2, (j % 7) as u64); }
            if j % 29 != 3 { doc.add_u64(fields.t3, ((j / 3) % 5) as u64); }
            w.add_document(doc).unwrap();
            next_id += 1;
        }
        w.commit().unwrap();
    }
    if spec.delete_permille > 0 && next_id > 0 {
        let mut rng = Rng(spec.delete_seed);
        let n = (next_id * spec.delete_permille / 1000).max(1);
        for _ in 0..n {
            w.delete_term(Term::from_field_u64(fields.id, rng.below(next_id)));
        }
        w.commit().unwrap();
    }
    w.wait_merging_threads().unwrap();
    Built { index, fields, num_docs: next_id as usize }
}

// ----- exhaustive, non-pruning collector ----------------------------------------------------------

struct AllHits;
struct AllHitsSeg {
    ord: u32,
    hits: Vec<(u32, DocId, Score)>,
}
impl Collector for AllHits {
    type Fruit = Vec<(u32, DocId, Score)>;
    type Child = AllHitsSeg;
    fn for_segment(&self, ord: u32, _r: &SegmentReader) -> tantivy::Result<AllHitsSeg> {
        Ok(AllHitsSeg { ord, hits: vec![] })
    }
    fn requires_scoring(&self) -> bool {
        true
    }
    fn merge_fruits(&self, fruits: Vec<Vec<(u32, DocId, Score)>>) -> tantivy::Result<Self::Fruit> {
        Ok(fruits.into_iter().flatten().collect())
    }
}
impl SegmentCollector for AllHitsSeg {
    type Fruit = Vec<(u32, DocId, Score)>;
    fn collect(&mut self, doc: DocId, score: Score) {
        self.hits.push((self.ord, doc, score));
    }
    fn harvest(self) -> Self::Fruit {
        self.hits
    }
}

// ----- custom sort key computer (public trait): `u % m` -----------------------------------------

#[derive(Clone)]
struct ModKey {
    m: u64,
}
struct ModKeySeg {
    col: Column<u64>,
    m: u64,
}
impl SortKeyComputer for ModKey {
    type SortKey = u64;
    type Child = ModKeySeg;
    type Comparator = NaturalComparator;
    fn segment_sort_key_computer(&self, r: &SegmentReader) -> tantivy::Result<ModKeySeg> {
        Ok(ModKeySeg { col: r.fast_fields().u64("u")?, m: self.m })
    }
}
impl SegmentSortKeyComputer for ModKeySeg {
    type SortKey = u64;
    type SegmentSortKey = u64;
    type SegmentComparator = NaturalComparator;
    fn segment_sort_key(&mut self, doc: DocId, _score: Score) -> u64 {
        self.col.first(doc).unwrap_or(0) % self.m
    }
    fn convert_segment_sort_key(&self, k: u64) -> u64 {
        k
    }
}

#[derive(Clone)]
struct LayoutKey {
    by_segment: std::sync::Arc<std::collections::HashMap<tantivy::index::SegmentId, std::sync::Arc<Vec<u64>>>>,
}
struct LayoutSeg {
    keys: std::sync::Arc<Vec<u64>>,
}
impl SortKeyComputer for LayoutKey {
    type SortKey = u64;
    type Child = LayoutSeg;
    type Comparator = NaturalComparator;
    fn segment_sort_key_computer(&self, r: &SegmentReader) -> tantivy::Result<LayoutSeg> {
        Ok(LayoutSeg { keys: self.by_segment.get(&r.segment_id()).cloned().unwrap_or_default() })
    }
}
impl SegmentSortKeyComputer for LayoutSeg {
    type SortKey = u64;
    type SegmentSortKey = u64;
    type SegmentComparator = NaturalComparator;
    fn segment_sort_key(&mut self, doc: DocId, _score: Score) -> u64 {
        self.keys.get(doc as usize).cloned().unwrap_or(0)
    }
    fn convert_segment_sort_key(&self, k: u64) -> u64 {
        k
    }
}

fn tweak_floor(score: Score) -> f32 {
    (score * 3.0).floor()
}

/// keys of every hit, read from the same searcher's columns
fn keys_of(searcher: &Searcher, kind: &Kind, hits: &[(u32, DocId, Score)]) -> Vec<Key> {
    let readers = searcher.segment_readers();
    let col_u: Vec<Column<u64>> = readers.iter().map(|r| r.fast_fields().u64("u").unwrap()).collect();
    let col_t: Vec<Column<u64>> = readers.iter().map(|r| r.fast_fields().u64("ties").unwrap()).collect();
    let col_tuple: Vec<Vec<Column<u64>>> = TUPLE_COLS.iter().map(|n| readers.iter().map(|r| r.fast_fields().u64(n).unwrap()).collect()).collect();
    let col_i: Vec<Column<i64>> = readers.iter().map(|r| r.fast_fields().i64("i").unwrap()).collect();
    let col_f: Vec<Column<f64>> = readers.iter().map(|r| r.fast_fields().f64("f").unwrap()).collect();
    let col_d: Vec<Column<DateTime>> = readers.iter().map(|r| r.fast_fields().date("d").unwrap()).collect();
    let col_s: Vec<_> = readers.iter().map(|r| r.fast_fields().str("s").unwrap()).collect();
    let opt = |o: Option<Key>| o.unwrap_or(Key::None);
    hits.iter()
        .map(|(seg, doc, score)| {
            let s = *seg as usize;
            match kind {
                Kind::Score => Key::Sc(*score),
                Kind::FastU64(_) => opt(col_u[s].first(*doc).map(Key::U)),
                Kind::FastTies(_) => opt(col_t[s].first(*doc).map(Key::U)),
                Kind::FastI64(_) => opt(col_i[s].first(*doc).map(Key::I)),
                Kind::FastF64(_) => opt(col_f[s].first(*doc).map(Key::F)),
                Kind::FastDate(_) => opt(col_d[s].first(*doc).map(|d| Key::I(d.into_timestamp_nanos()))),
                Kind::FastStr(_) => opt(col_s[s].as_ref().and_then(|c| {
                    let ord = c.ords().first(*doc)?;
                    let mut out = String::new();
                    c.ord_to_str(ord, &mut out).ok()?;
                    Some(Key::S(out))
                })),
                Kind::TweakFloor => Key::Sc(tweak_floor(*score)),
                Kind::TweakMod => Key::U(col_u[s].first(*doc).unwrap_or(7) % 5),
                Kind::CustomMod(m, _) => Key::U(col_u[s].first(*doc).unwrap_or(0) % m),
                Kind::Layout(l) => Key::U(l.get(s).and_then(|v| v.get(*doc as usize)).cloned().unwrap_or(0)),
                Kind::Tuple(shape, cols, _) => Key::Tup((0..if *shape == 0 { 3 } else { 4 }).map(|c| opt(col_tuple[cols[c] as usize][s].first(*doc).map(Key::U))).collect()),
                Kind::PairAscDesc => Key::Pair(Box::new(opt(col_t[s].first(*doc).map(Key::U))), Box::new(opt(col_i[s].first(*doc).map(Key::I)))),
            }
        })
        .collect()
}

thread_local! {
    /// how the TopDocs collector is handed to `Searcher::search`: 0 = alone, 1 = second component of
    /// `(Count, TopDocs)`, 2 = child of a `MultiCollector` (both go through `Collector::for_segment`
    /// instead of the specialised `collect_segment`)
    static WRAP: std::cell::Cell<u8> = const { std::cell::Cell::new(0) };
}

fn search_wrapped<C>(searcher: &Searcher, q: &dyn Query, c: C) -> tantivy::Result<C::Fruit>
where C: Collector + Send + Sync + 'static, C::Fruit: 'static {
    match WRAP.with(|w| w.get()) {
        0 => searcher.search(q, &c),
        1 => {
            let (count, fruit) = searcher.search(q, &(tantivy::collector::Count, c))?;
            let plain = searcher.search(q, &tantivy::collector::Count)?;
            if count != plain {
                return Err(tantivy::TantivyError::InternalError(format!("(Count, TopDocs) counted {count}, Count alone {plain}")));
            }
            Ok(fruit)
        }
        _ => {
            let mut multi = tantivy::collector::MultiCollector::new();
            let handle = multi.add_collector(c);
            let _count = multi.add_collector(tantivy::collector::Count);
            let mut fruits = searcher.search(q, &multi)?;
            Ok(handle.extract(&mut fruits))
        }
    }
}

fn run_real(searcher: &Searcher, q: &dyn Query, kind: &Kind, k: usize, o: usize) -> Result<Vec<(Key, DocAddress)>, String> {
    let td = || TopDocs::with_limit(k).and_offset(o);
    let by = |c: u8, asc: bool| (SortByStaticFastValue::<u64>::for_field(TUPLE_COLS[c as usize]), if asc { Order::Asc } else { Order::Desc });
    let ku = |v: Option<u64>| v.map(Key::U).unwrap_or(Key::None);
    let ord = |asc: bool| if asc { Order::Asc } else { Order::Desc };
    let optk = |o: Option<Key>| o.unwrap_or(Key::None);
    let r = catch_unwind(AssertUnwindSafe(|| -> tantivy::Result<Vec<(Key, DocAddress)>> {
        Ok(match kind {
            Kind::Score => search_wrapped(searcher, q, td().order_by_score())?.into_iter().map(|(s, a)| (Key::Sc(s), a)).collect(),
            Kind::FastU64(asc) => search_wrapped(searcher, q, td().order_by_fast_field::<u64>("u", ord(*asc)))?.into_iter().map(|(v, a)| (optk(v.map(Key::U)), a)).collect(),
            Kind::FastTies(asc) => search_wrapped(searcher, q, td().order_by_fast_field::<u64>("ties", ord(*asc)))?.into_iter().map(|(v, a)| (optk(v.map(Key::U)), a)).collect(),
            Kind::FastI64(asc) => search_wrapped(searcher, q, td().order_by_fast_field::<i64>("i", ord(*asc)))?.into_iter().map(|(v, a)| (optk(v.map(Key::I)), a)).collect(),
            Kind::FastF64(asc) => search_wrapped(searcher, q, td().order_by_fast_field::<f64>("f", ord(*asc)))?.into_iter().map(|(v, a)| (optk(v.map(Key::F)), a)).collect(),
            Kind::FastDate(asc) => search_wrapped(searcher, q, td().order_by_fast_field::<DateTime>("d", ord(*asc)))?.into_iter().map(|(v, a)| (optk(v.map(|d| Key::I(d.into_timestamp_nanos()))), a)).collect(),
            Kind::FastStr(asc) => search_wrapped(searcher, q, td().order_by_string_fast_field("s", ord(*asc)))?.into_iter().map(|(v, a)| (optk(v.map(Key::S)), a)).collect(),
            Kind::TweakFloor => search_wrapped(searcher, q, td().tweak_score(move |_r: &SegmentReader| move |_doc: DocId, score: Score| tweak_floor(score)))?
                .into_iter().map(|(s, a)| (Key::Sc(s), a)).collect(),
            Kind::TweakMod => search_wrapped(searcher, q, td().tweak_score(move |r: &SegmentReader| {
                    let col = r.fast_fields().u64("u").unwrap();
                    move |doc: DocId, _score: Score| col.first(doc).unwrap_or(7) % 5
                }))?
                .into_iter().map(|(s, a)| (Key::U(s), a)).collect(),
            Kind::CustomMod(m, None) => search_wrapped(searcher, q, td().order_by(ModKey { m: *m }))?.into_iter().map(|(s, a)| (Key::U(s), a)).collect(),
            Kind::CustomMod(m, Some(asc)) => search_wrapped(searcher, q, td().order_by((ModKey { m: *m }, ord(*asc))))?.into_iter().map(|(s, a)| (Key::U(s), a)).collect(),
            Kind::Layout(l) => {
                let map: std::collections::HashMap<_, _> = searcher.segment_readers().iter().enumerate().map(|(i, r)| (r.segment_id(), std::sync::Arc::new(l.get(i).cloned().unwrap_or_default()))).collect();
                search_wrapped(searcher, q, td().order_by(LayoutKey { by_segment: std::sync::Arc::new(map) }))?.into_iter().map(|(s, a)| (Key::U(s), a)).collect()
            }
            Kind::Tuple(0, c, a) => search_wrapped(searcher, q, td().order_by((by(c[0], a[0]), by(c[1], a[1]), by(c[2], a[2]))))?
                .into_iter().map(|((x, y, z), ad)| (Key::Tup(vec![ku(x), ku(y), ku(z)]), ad)).collect(),
            Kind::Tuple(1, c, a) => search_wrapped(searcher, q, td().order_by((by(c[0], a[0]), by(c[1], a[1]), by(c[2], a[2]), by(c[3], a[3]))))?
                .into_iter().map(|((x, y, z, w), ad)| (Key::Tup(vec![ku(x), ku(y), ku(z), ku(w)]), ad)).collect(),
            Kind::Tuple(2, c, a) => search_wrapped(searcher, q, td().order_by(((by(c[0], a[0]), by(c[1], a[1]), by(c[2], a[2])), by(c[3], a[3]))))?
                .into_iter().map(|(((x, y, z), w), ad)| (Key::Tup(vec![ku(x), ku(y), ku(z), ku(w)]), ad)).collect(),
            Kind::Tuple(3, c, a) => search_wrapped(searcher, q, td().order_by((by(c[0], a[0]), (by(c[1], a[1]), by(c[2], a[2]), by(c[3], a[3])))))?
                .into_iter().map(|((x, (y, z, w)), ad)| (Key::Tup(vec![ku(x), ku(y), ku(z), ku(w)]), ad)).collect(),
            Kind::Tuple(_, c, a) => search_wrapped(searcher, q, td().order_by(((by(c[0], a[0]), by(c[1], a[1])), (by(c[2], a[2]), by(c[3], a[3])))))?
                .into_iter().map(|(((x, y), (z, w)), ad)| (Key::Tup(vec![ku(x), ku(y), ku(z), ku(w)]), ad)).collect(),
            Kind::PairAscDesc => search_wrapped(searcher, q, td().order_by(((SortByStaticFastValue::<u64>::for_field("ties"), Order::Asc), (SortByStaticFastValue::<i64>::for_field("i"), Order::Desc))))?
                .into_iter().map(|((t, i), a)| (Key::Pair(Box::new(optk(t.map(Key::U))), Box::new(optk(i.map(Key::I)))), a)).collect(),
        })
    }));
    match r {
        Ok(Ok(v)) => Ok(v),
        Ok(Err(e)) => Err(format!("error: {e}")),
        Err(_) => Err("panic".into()),
    }
}

/// correspondence for `Model/LazyKey.lean`: the REAL `accept_sort_key_lazy` of the tuple's segment
/// computer (through the public `SortKeyComputer` / `SegmentSortKeyComputer` traits) on sampled
/// (document, threshold document) pairs of a segment vs the model's chained `acceptPair`. A component
/// under its comparator is its rank under the natural order: `None` lowest; descending `v + 1`,
/// ascending `u64::MAX - v + 1`.
fn lazy_probe_real<C: SortKeyComputer>(comp: C, reader: &SegmentReader, pairs: &[(DocId, DocId)]) -> Option<Vec<&'static str>> {
    let mut child = comp.segment_sort_key_computer(reader).ok()?;
    Some(pairs.iter().map(|(d, t)| {
        let thr = child.segment_sort_key(*t, 0.0);
        match child.accept_sort_key_lazy(*d, 0.0, &thr) {
            None => "none",
            Some((Ordering::Less, _)) => "lt",
            Some((Ordering::Equal, _)) => "eq",
            Some((Ordering::Greater, _)) => "gt",
        }
    }).collect())
}

fn lazy_accept_probe(ctx: &mut Ctx, searcher: &Searcher, kind: &Kind, rng_seed: u64) {
    let Kind::Tuple(shape, c, a) = kind else { return };
    let by = |c: u8, asc: bool| (SortByStaticFastValue::<u64>::for_field(TUPLE_COLS[c as usize]), if asc { Order::Asc } else { Order::Desc });
    let mut rng = Rng(rng_seed ^ 0x1a2b);
    for (ord, reader) in searcher.segment_readers().iter().enumerate().take(2) {
        let n = reader.max_doc();
        if n == 0 { continue; }
        let pairs: Vec<(DocId, DocId)> = (0..8).map(|_| (rng.below(n as u64) as DocId, rng.below(n as u64) as DocId)).collect();
        let real = catch_unwind(AssertUnwindSafe(|| match shape {
            0 => lazy_probe_real((by(c[0], a[0]), by(c[1], a[1]), by(c[2], a[2])), reader, &pairs),
            1 => lazy_probe_real((by(c[0], a[0]), by(c[1], a[1]), by(c[2], a[2]), by(c[3], a[3])), reader, &pairs),
            2 => lazy_probe_real(((by(c[0], a[0]), by(c[1], a[1]), by(c[2], a[2])), by(c[3], a[3])), reader, &pairs),
            3 => lazy_probe_real((by(c[0], a[0]), (by(c[1], a[1]), by(c[2], a[2]), by(c[3], a[3]))), reader, &pairs),
            _ => lazy_probe_real(((by(c[0], a[0]), by(c[1], a[1])), (by(c[2], a[2]), by(c[3], a[3]))), reader, &pairs),
        }));
        let Ok(Some(real)) = real else { continue };
        let cols: Vec<Column<u64>> = TUPLE_COLS.iter().map(|nm| reader.fast_fields().u64(nm).unwrap()).collect();
        let ncomp = if *shape == 0 { 3 } else { 4 };
        let rank = |doc: DocId, i: usize| -> u128 {
            match cols[c[i] as usize].first(doc) { None => 0, Some(v) => if a[i] { (u64::MAX - v) as u128 + 1 } else { v as u128 + 1 } }
        };
        for ((d, t), r) in pairs.iter().zip(real.iter()) {
            let ks: Vec<String> = (0..ncomp).map(|i| rank(*d, i).to_string()).collect();
            let ts: Vec<String> = (0..ncomp).map(|i| rank(*t, i).to_string()).collect();
            let model = ctx.model.ask(&format!("C06 lazyacc {shape} {} {}", ks.join(","), ts.join(",")));
            ctx.report.count("lazy-accept-vs-model");
            // the same through the modelled comparators of order.rs on the optional keys themselves
            let raw = |doc: DocId| -> String { (0..ncomp).map(|i| match cols[c[i] as usize].first(doc) { None => "n".to_string(), Some(v) => v.to_string() }).collect::<Vec<_>>().join(",") };
            let ascs: String = (0..ncomp).map(|i| if a[i] { '1' } else { '0' }).collect();
            let model2 = ctx.model.ask(&format!("C06 lazyacc2 {shape} {ascs} {} {}", raw(*d), raw(*t)));
            ctx.report.count("lazy-accept-vs-comparator-model");
            if model2 != *r {
                ctx.report.violation("model", "C06:lazy-accept-comparator-model-mismatch", format!("accept_sort_key_lazy of {} on segment {ord}: document {d} ({}) against the key of document {t} ({}) as threshold: real {r}, model with the order.rs comparators {model2}", kind.name(), raw(*d), raw(*t)),
                    json!({"kind": "lazy", "collector": kind_to_json(kind), "segment": ord, "doc": d, "threshold_doc": t}));
            }
            ctx.report.count(&format!("lazy-accept:{r}"));
            if model != *r {
                ctx.report.violation("model", "C06:lazy-accept-model-mismatch", format!("accept_sort_key_lazy of {} on segment {ord}: document {d} against the key of document {t} as threshold: real {r}, model {model} (component ranks {ks:?} vs {ts:?})", kind.name()),
                    json!({"kind": "lazy", "collector": kind_to_json(kind), "segment": ord, "doc": d, "threshold_doc": t}));
            }
        }
    }
}

fn addr_nat(a: &DocAddress) -> u64 {
    ((a.segment_ord as u64) << 32) | a.doc_id as u64
}

/// verified bound hypotheses on this searcher for the terms of a WAND query:
/// (UB_max witness, UB_block witness)
fn ub_check(searcher: &Searcher, fields: &Fields, terms: &[String]) -> (Option<String>, Option<String>) {
    let mut ubmax = None;
    let mut ubblock = None;
    for t in terms {
        let (body, term) = term_of(fields, t);
        let nofreq = body == fields.basic;
        let w = match Bm25Weight::for_terms(searcher, &[term.clone()]) { Ok(w) => w, Err(_) => continue };
        let max = w.max_score();
        for (ord, sr) in searcher.segment_readers().iter().enumerate() {
            let inv = sr.inverted_index(body).unwrap();
            let fnr = sr.get_fieldnorms_reader(body).unwrap();
            let mut bp = match inv.read_block_postings(&term, IndexRecordOption::WithFreqs) { Ok(Some(b)) => b, _ => continue };
            loop {
                let docs = bp.docs().to_vec();
                if docs.is_empty() {
                    break;
                }
                let freqs = bp.freqs().to_vec();
                let bm = bp.block_max_score(&fnr, &w);
                let mut true_max = 0f32;
                let mut arg = 0;
                for (d, f) in docs.iter().zip(freqs.iter()) {
                    // a field indexed without freqs scores every posting with tf = 1
                    let f = if nofreq { &1u32 } else { f };
                    let s = w.score(fnr.fieldnorm_id(*d), *f);
                    if s > max && ubmax.is_none() {
                        ubmax = Some(format!("term {t:?}: doc ({ord},{d}) tf={f} fieldnorm_id={} scores {s:?} > max_score {max:?}", fnr.fieldnorm_id(*d)));
                    }
                    if s > true_max {
                        true_max = s;
                        arg = *d;
                    }
                }
                if true_max > bm && ubblock.is_none() {
                    ubblock = Some(format!("term {t:?}: segment {ord} block ending at doc {}: doc {arg} scores {true_max:?} > block_max_score {bm:?} under the searcher's statistics", docs[docs.len() - 1]));
                }
                bp.advance();
            }
        }
    }
    (ubmax, ubblock)
}

/// Signature of the recorded defect "TermWeight::for_each_pruning runs block_wand_single_scorer on
/// a term whose field has no freqs": the field is indexed with IndexRecordOption::Basic and some
/// block of the term's postings has a block_max_score of exactly 0 (no block-WAND metadata is
/// written without freqs; the last block's maximum is computed from term freqs that were never
/// decoded) although its documents score > 0.
fn nofreq_signature(searcher: &Searcher, fields: &Fields, t: &str) -> Option<String> {
    let (field, term) = term_of(fields, t);
    if field != fields.basic {
        return None;
    }
    let w = Bm25Weight::for_terms(searcher, &[term.clone()]).ok()?;
    for (ord, sr) in searcher.segment_readers().iter().enumerate() {
        let inv = sr.inverted_index(field).ok()?;
        let fnr = sr.get_fieldnorms_reader(field).ok()?;
        let Ok(Some(mut bp)) = inv.read_block_postings(&term, IndexRecordOption::WithFreqs) else { continue };
        loop {
            let docs = bp.docs().to_vec();
            if docs.is_empty() {
                break;
            }
            let bm = bp.block_max_score(&fnr, &w);
            let best = docs.iter().map(|d| w.score(fnr.fieldnorm_id(*d), 1)).fold(0f32, f32::max);
            if bm == 0.0 && best > 0.0 {
                return Some(format!("field `basic` is indexed without freqs; segment {ord}: the block of {} postings ending at doc {} has block_max_score 0 although its documents score up to {best:?}", docs.len(), docs[docs.len() - 1]));
            }
            bp.advance();
        }
    }
    None
}

struct QueryEval {
    q: Q,
    query: Box<dyn Query>,
    hits: Vec<(u32, DocId, Score)>,
}

fn ulp_tol(clauses: usize, a: f32, b: f32) -> f32 {
    // documented tolerance for a score that is a float sum over `clauses` clauses evaluated in
    // two different orders: 4 ulp per clause
    4.0 * clauses as f32 * f32::EPSILON * a.abs().max(b.abs()).max(f32::MIN_POSITIVE)
}

/// compare a TopDocs result with the expected slice of the exhaustive list: exactly, or (float
/// sums over `n` clauses) rank by rank within the tolerance
fn compare_result(all: &[(Key, u64)], expected: &[(Key, u64)], real: &[(Key, u64)], o: usize, exact: bool, n: usize) -> Option<String> {
    let mut wrong: Option<String> = None;
    if real.len() != expected.len() {
        wrong = Some(format!("returned {} entries, expected {}", real.len(), expected.len()));
    } else if exact {
        if let Some(p) = (0..real.len()).find(|p| real[*p] != expected[*p]) {
            wrong = Some(format!("entry {p}: got ({}, {}:{}) expected ({}, {}:{})", real[p].0.show(), real[p].1 >> 32, real[p].1 & 0xffff_ffff, expected[p].0.show(), expected[p].1 >> 32, expected[p].1 & 0xffff_ffff));
        }
    } else {
        // float sums over several clauses: ranks must agree up to the tolerance, each returned
        // key must be the document's own key up to the tolerance, no document twice
        let own: std::collections::HashMap<u64, f32> = all.iter().map(|(k, a)| (*a, if let Key::Sc(s) = k { *s } else { 0.0 })).collect();
        let mut seen = std::collections::HashSet::new();
        for p in 0..real.len() {
            let (Key::Sc(rs), Key::Sc(es)) = (&real[p].0, &expected[p].0) else { wrong = Some("key type".into()); break };
            if !seen.insert(real[p].1) {
                wrong = Some(format!("document {}:{} returned twice", real[p].1 >> 32, real[p].1 & 0xffff_ffff));
                break;
            }
            match own.get(&real[p].1) {
                None => { wrong = Some(format!("entry {p}: document {}:{} does not match the query", real[p].1 >> 32, real[p].1 & 0xffff_ffff)); break }
                Some(s) if (s - rs).abs() > ulp_tol(n, *s, *rs) => { wrong = Some(format!("entry {p}: returned score {rs:?} but the document's score is {s:?}")); break }
                _ => {}
            }
            if (rs - es).abs() > ulp_tol(n, *rs, *es) {
                wrong = Some(format!("entry {p}: score {rs:?} (doc {}:{}) but the {}-th best score is {es:?} (doc {}:{})", real[p].1 >> 32, real[p].1 & 0xffff_ffff, o + p, expected[p].1 >> 32, expected[p].1 & 0xffff_ffff));
                break;
            }
            if p > 0 {
                if let Key::Sc(prev) = &real[p - 1].0 {
                    if prev < rs || (prev == rs && real[p - 1].1 > real[p].1) {
                        wrong = Some(format!("entries {} and {p} are out of order", p - 1));
                        break;
                    }
                }
            }
        }
    }
    wrong
}

thread_local! {
    /// paging runs evaluate the model's `topK` on the first page only (the model sorts by insertion)
    static SKIP_MODEL_SPEC: std::cell::Cell<bool> = const { std::cell::Cell::new(false) };
}

#[allow(clippy::too_many_arguments)]
fn check_search(ctx: &mut Ctx, spec: &CorpusSpec, built: &Built, searcher: &Searcher, threads: usize, qe: &QueryEval, kind: &Kind, k: usize, o: usize) -> bool {
    let wrap = WRAP.with(|w| w.get());
    let case = json!({"kind": "search", "corpus": spec.to_json(), "query": qe.q.to_json(), "collector": kind_to_json(kind), "k": k, "offset": o, "threads": threads, "wrap": wrap, "segment_order": segment_order(searcher)});
    ctx.report.count(["wrap:alone", "wrap:(Count,TopDocs)", "wrap:MultiCollector"][wrap.min(2) as usize]);
    let keys = keys_of(searcher, kind, &qe.hits);
    let mut all: Vec<(Key, u64)> = keys.into_iter().zip(qe.hits.iter().map(|(s, d, _)| ((*s as u64) << 32) | *d as u64)).collect();
    all.sort_by(|a, b| kind.cmp(&a.0, &b.0).then(a.1.cmp(&b.1)));
    let expected: Vec<(Key, u64)> = all.iter().skip(o).take(k).cloned().collect();
    let exact = !kind.uses_score() || qe.q.clauses() <= 1;
    ctx.report.count(&format!("collector:{}", kind.name().split('(').next().unwrap()));
    ctx.report.count(&format!("path:{}", if *kind == Kind::Score { qe.q.path() } else { "no-pruning" }));
    ctx.report.count(if o == 0 { "offset:0" } else if o >= all.len() { "offset:beyond-end" } else { "offset:inside" });
    ctx.report.count(if k >= all.len() { "k:>=matches" } else if k == 1 { "k:1" } else { "k:other" });
    ctx.report.count(&format!("threads:{threads}"));
    let canon = format!("{}|{}|{}|{k}|{o}|{threads}|{wrap}", spec.to_json(), qe.q.to_json(), kind.name());
    let nontrivial = all.len() > k + o && spec.segs.len() >= 1 && !all.is_empty();
    ctx.report.case(&canon, nontrivial);
    if o == 0 && wrap == 0 {
        lazy_accept_probe(ctx, searcher, kind, (k as u64) << 8 | all.len() as u64);
    }
    let real = match run_real(searcher, qe.query.as_ref(), kind, k, o) {
        Ok(r) => r,
        Err(e) => {
            ctx.report.violation("oracle", if e == "panic" { "C06:search-panic" } else { "C06:search-error" }, format!("TopDocs({k}, offset {o}) by {} on {} (collector wrapping {wrap}): {e}", kind.name(), qe.q.to_json()), case);
            return false;
        }
    };
    let real: Vec<(Key, u64)> = real.into_iter().map(|(k, a)| (k, addr_nat(&a))).collect();
    let mut wrong: Option<String> = compare_result(&all, &expected, &real, o, exact, qe.q.clauses());
    // the specification evaluated by the model on the same exhaustive list (ranks preserve the order)
    if wrong.is_none() && exact && all.len() <= 2500 && !SKIP_MODEL_SPEC.with(|c| c.get()) {
        let mut ranks: Vec<i64> = Vec::with_capacity(all.len());
        let mut r: i64 = 0;
        for p in 0..all.len() {
            if p > 0 && kind.cmp(&all[p - 1].0, &all[p].0) != Ordering::Equal {
                r -= 1;
            }
            ranks.push(r);
        }
        // shuffle deterministically so that the model really sorts
        let mut idx: Vec<usize> = (0..all.len()).collect();
        let mut rr = Rng(all.len() as u64 ^ 0xabcdef);
        rr.shuffle(&mut idx);
        let resp = ctx.model.ask(&format!("C06 topk {k} {o} desc {} {}", nat_list(&idx.iter().map(|p| ranks[*p]).collect::<Vec<_>>()), nat_list(&idx.iter().map(|p| all[*p].1).collect::<Vec<_>>())));
        let got: Vec<u64> = real.iter().map(|(_, a)| *a).collect();
        let model: Vec<u64> = if resp == "-" { vec![] } else { resp.split(',').filter_map(|e| e.split('@').nth(1)?.parse().ok()).collect() };
        ctx.report.count("spec-by-model");
        if model != got {
            wrong = Some(format!("result differs from the model's topK: model {:?}… real {:?}…", &model[..model.len().min(5)], &got[..got.len().min(5)]));
        }
    }
    let Some(what) = wrong else { return true };
    // attribution: only to a named hypothesis verified to fail on this very case
    let mut key = "C06:topk-wrong".to_string();
    let mut extra = String::new();
    if exact {
        if let Some(w) = merge_tie_signature(kind, &all, &real, &expected, k, o) {
            key = "C06:merge-ties-unsorted-fruits".into();
            extra = format!(" [{w}]");
        }
    }
    // recorded defect: the 4-tuple SortKeyComputer does not forward `comparator()`: the collector
    // (per-segment TopNComputer, merge) orders every component naturally (descending) whatever
    // the requested orders. Attributed only if a top-level 4-tuple has a non-natural component,
    // every returned entry is a match with its own key, the returned list IS in all-descending
    // order, and - when nothing is cut off per segment - it is exactly that order's page.
    if key == "C06:topk-wrong" {
        if let Kind::Tuple(1, cols, asc) = kind {
            if asc.iter().any(|a| *a) {
                let nat = Kind::Tuple(1, *cols, [false; 4]);
                let own: std::collections::HashMap<u64, &Key> = all.iter().map(|(k, a)| (*a, k)).collect();
                let keys_true = real.iter().all(|(k, a)| own.get(a).map(|kk| **kk == *k).unwrap_or(false));
                let sorted_nat = real.windows(2).all(|w| nat.cmp(&w[0].0, &w[1].0).then(w[0].1.cmp(&w[1].1)) == Ordering::Less);
                let mut all_nat = all.clone();
                all_nat.sort_by(|a, b| nat.cmp(&a.0, &b.0).then(a.1.cmp(&b.1)));
                let page_nat: Vec<(Key, u64)> = all_nat.into_iter().skip(o).take(k).collect();
                let uncut = k + o >= all.len();
                if keys_true && sorted_nat && (!uncut || page_nat == real) {
                    key = "C06:four-tuple-sort-key-ignores-orders".into();
                    extra = format!(" [verified: top-level 4-tuple with orders {asc:?}; the returned entries are in all-descending order{}]", if uncut { " and are exactly that order's page" } else { "" });
                }
            }
        }
    }
    // (C06:nofreq-term-blockmax-zero is fixed in the tree: no attribution any more)
    // recorded defect: a dis-max over term queries goes through block_wand, which sums the clauses.
    // Attributed only if the result IS the top-K of the clause sums (the same searcher's exhaustive
    // scores of the union of the same terms).
    if key == "C06:topk-wrong" && *kind == Kind::Score {
        if let Q::DisMax(ts, _) = &qe.q {
            let uq = Q::Union(ts.clone());
            let union_hits = eval_queries(built, searcher, vec![uq]);
            if let Some(u) = union_hits.first() {
                let mut all_sum: Vec<(Key, u64)> = u.hits.iter().map(|(s, d, sc)| (Key::Sc(*sc), ((*s as u64) << 32) | *d as u64)).collect();
                all_sum.sort_by(|a, b| kind.cmp(&a.0, &b.0).then(a.1.cmp(&b.1)));
                let exp_sum: Vec<(Key, u64)> = all_sum.iter().skip(o).take(k).cloned().collect();
                if compare_result(&all_sum, &exp_sum, &real, o, ts.len() <= 2, ts.len()).is_none() {
                    key = "C06:dismax-topdocs-block-wand-sums".into();
                    extra = " [the result is exactly the top-K of the SUMS of the matching clauses' scores, not of max + tie·rest]".into();
                }
            }
        }
    }
    if key == "C06:topk-wrong" && *kind == Kind::Score {
        if let Some(terms) = qe.q.wand_terms() {
            let (ubmax, ubblock) = ub_check(searcher, &built.fields, &terms);
            // the single-scorer driver reads block bounds first (max_score only as a fallback),
            // the multi-scorer drivers select the pivot with max_score first
            let single = terms.len() == 1;
            match (ubmax, ubblock) {
                (_, Some(w)) if single => { key = "C06:blockmax-pair-wrong-avg-fieldnorm".into(); extra = format!(" [UB_block fails: {w}]"); }
                (Some(w), _) => { key = "C06:maxscore-not-upper-bound".into(); extra = format!(" [UB_max fails: {w}]"); }
                (None, Some(w)) => { key = "C06:blockmax-pair-wrong-avg-fieldnorm".into(); extra = format!(" [UB_block fails: {w}]"); }
                (None, None) => {}
            }
        }
    } else if key == "C06:topk-wrong" && !exact {
        key = "C06:topk-wrong-tolerance".into();
    }
    ctx.report.violation("oracle", &key, format!("TopDocs(limit {k}, offset {o}) by {} on {} over {} segments ({} matches, {threads} thread(s), path {}): {what}{extra}", kind.name(), qe.q.to_json(), searcher.segment_readers().len(), all.len(), if *kind == Kind::Score { qe.q.path() } else { "no-pruning" }), case);
    false
}

/// Signature of the recorded defect "merge_top_k pushes unsorted per-segment fruits": the result
/// differs from the expected one ONLY in which of several documents tying on the boundary key
/// were taken, at least three segments contribute more than 2·(K+O) fruit entries (so that the
/// merge `TopNComputer` truncates at all), AND a replica of the pipeline built from the real
/// `TopNComputer` (per-segment `into_vec`, merge in fruit order) reproduces exactly the observed
/// result. Anything else is not attributed.
fn merge_tie_signature(kind: &Kind, all: &[(Key, u64)], real: &[(Key, u64)], expected: &[(Key, u64)], k: usize, o: usize) -> Option<String> {
    let n = k + o;
    if real.len() != expected.len() || real.is_empty() {
        return None;
    }
    let own: std::collections::HashMap<u64, &Key> = all.iter().map(|(k, a)| (*a, k)).collect();
    let boundary = &all[n.min(all.len()) - 1].0;
    for p in 0..real.len() {
        if kind.cmp(&real[p].0, &expected[p].0) != Ordering::Equal {
            return None;
        }
        match own.get(&real[p].1) {
            Some(kk) if **kk == real[p].0 => {}
            _ => return None,
        }
        if real[p].1 != expected[p].1 && kind.cmp(&real[p].0, boundary) != Ordering::Equal {
            return None;
        }
        if p > 0 && (kind.cmp(&real[p - 1].0, &real[p].0) == Ordering::Greater || (kind.cmp(&real[p - 1].0, &real[p].0) == Ordering::Equal && real[p - 1].1 >= real[p].1)) {
            return None;
        }
    }
    // per-segment lists in doc order, keys as order-preserving ranks
    let mut ranks: std::collections::HashMap<u64, i64> = std::collections::HashMap::new();
    let mut r: i64 = 0;
    for p in 0..all.len() {
        if p > 0 && kind.cmp(&all[p - 1].0, &all[p].0) != Ordering::Equal {
            r -= 1;
        }
        ranks.insert(all[p].1, r);
    }
    let nseg = all.iter().map(|(_, a)| (a >> 32) as usize + 1).max().unwrap_or(0);
    let mut segs: Vec<Vec<(i64, u32)>> = vec![vec![]; nseg];
    for (_, a) in all {
        segs[(a >> 32) as usize].push((ranks[a], (*a & 0xffff_ffff) as u32));
    }
    for sdocs in segs.iter_mut() {
        sdocs.sort_by_key(|x| x.1);
    }
    let fruit_total: usize = segs.iter().map(|s| s.len().min(n)).sum();
    let contributing = segs.iter().filter(|s| !s.is_empty()).count();
    if contributing < 3 || fruit_total <= 2 * n {
        return None;
    }
    let replica: Vec<u64> = pipeline_replica(n, &segs, *kind == Kind::Score).into_iter().skip(o).map(|(_, (s, d))| ((s as u64) << 32) | d as u64).collect();
    let got: Vec<u64> = real.iter().map(|(_, a)| *a).collect();
    if replica != got {
        return None;
    }
    Some(format!("only the choice among documents tying on the boundary key differs; {contributing} segments, {fruit_total} fruit entries > 2·{n}; a replica of merge_top_k over the real TopNComputer's unsorted per-segment fruits reproduces exactly this result"))
}

fn kind_to_json(k: &Kind) -> Value {
    match k {
        Kind::Score => json!("score"),
        Kind::FastU64(a) => json!(["u64", a]),
        Kind::FastI64(a) => json!(["i64", a]),
        Kind::FastF64(a) => json!(["f64", a]),
        Kind::FastDate(a) => json!(["date", a]),
        Kind::FastStr(a) => json!(["str", a]),
        Kind::FastTies(a) => json!(["ties", a]),
        Kind::TweakFloor => json!("tweak-floor"),
        Kind::TweakMod => json!("tweak-mod"),
        Kind::CustomMod(m, o) => json!(["custom-mod", m, o]),
        Kind::PairAscDesc => json!("pair"),
        Kind::Layout(l) => json!(["layout", **l]),
        Kind::Tuple(sh, c, a) => json!(["tuple", sh, c, a]),
    }
}

fn kind_from_json(v: &Value) -> Option<Kind> {
    if let Some(s) = v.as_str() {
        return match s { "score" => Some(Kind::Score), "tweak-floor" => Some(Kind::TweakFloor), "tweak-mod" => Some(Kind::TweakMod), "pair" => Some(Kind::PairAscDesc), _ => None };
    }
    let a = v.as_array()?;
    let asc = a.get(1).and_then(|x| x.as_bool());
    match a[0].as_str()? {
        "u64" => Some(Kind::FastU64(asc?)),
        "i64" => Some(Kind::FastI64(asc?)),
        "f64" => Some(Kind::FastF64(asc?)),
        "date" => Some(Kind::FastDate(asc?)),
        "str" => Some(Kind::FastStr(asc?)),
        "ties" => Some(Kind::FastTies(asc?)),
        "custom-mod" => Some(Kind::CustomMod(a[1].as_u64()?, a.get(2).and_then(|x| x.as_bool()))),
        "tuple" => {
            let c: Vec<u8> = a[2].as_array()?.iter().filter_map(|x| x.as_u64().map(|y| y as u8)).collect();
            let o: Vec<bool> = a[3].as_array()?.iter().filter_map(|x| x.as_bool()).collect();
            if c.len() != 4 || o.len() != 4 || c.iter().any(|x| *x as usize >= TUPLE_COLS.len()) { return None; }
            Some(Kind::Tuple(a[1].as_u64()? as u8, [c[0], c[1], c[2], c[3]], [o[0], o[1], o[2], o[3]]))
        }
        "layout" => Some(Kind::Layout(std::sync::Arc::new(a[1].as_array()?.iter().map(|s| s.as_array().map(|x| x.iter().filter_map(|y| y.as_u64()).collect()).unwrap_or_default()).collect()))),
        _ => None,
    }
}

fn gen_query(rng: &mut Rng) -> Q {
    let term = |rng: &mut Rng| -> String { TERMS[match rng.below(10) { 0..=3 => 0, 4 | 5 => 1, 6 => 2, 7 => 3, 8 => 4, _ => 5 }].to_string() };
    // terms of the three tokenized fields: mostly `body`; `t:` = title (freqs), `n:` = basic (no freqs)
    let terms = |rng: &mut Rng, n: usize| -> Vec<String> {
        let mut ts: Vec<String> = TERMS.iter().map(|s| s.to_string()).collect();
        ts.extend(["t:a", "t:b", "t:c", "n:a", "n:b"].iter().map(|s| s.to_string()));
        rng.shuffle(&mut ts);
        // keep most queries on `body` only: the other fields appear in about a third of them
        if !rng.chance(1, 3) { ts.retain(|t| !t.contains(':')); }
        ts.truncate(n);
        ts
    };
    match rng.below(21) {
        16 => Q::Term(["n:a", "n:b", "n:c", "t:a"][rng.usize_below(4)].to_string()),
        17 | 18 => { let n = 2 + rng.usize_below(3); let mut ts = terms(rng, n); ts.retain(|t| !t.starts_with("n:")); if ts.len() < 2 { ts = vec!["a".into(), "b".into()]; } Q::DisMax(ts, [0.0f32, 0.3, 1.0][rng.usize_below(3)]) }
        0..=2 => Q::Term(term(rng)),
        3..=6 => { let n = 2 + rng.usize_below(4); Q::Union(terms(rng, n)) }
        7 | 8 => { let n = 2 + rng.usize_below(4); Q::Inter(terms(rng, n)) }
        19 | 20 => { let mut ts: Vec<String> = TERMS[..5].iter().map(|s| s.to_string()).collect(); rng.shuffle(&mut ts); let n = 3 + rng.usize_below(3); ts.truncate(n); Q::Inter(ts) }
        9 => { let ts = terms(rng, 4); Q::Mix { must: ts[..1].to_vec(), should: ts[1..3].to_vec(), not: ts[3..].to_vec() } }
        10 => { let ts = terms(rng, 3); Q::Mix { must: vec![], should: ts[..2].to_vec(), not: ts[2..].to_vec() } }
        11 => Q::Boost(Box::new(Q::Term(term(rng))), [0.5f32, 2.0, 3.25][rng.usize_below(3)]),
        12 => Q::Const(Box::new(Q::Union(terms(rng, 2))), [1.0f32, 0.25][rng.usize_below(2)]),
        13 => { let ts = terms(rng, 4); Q::Nested(vec![(1, Q::Inter(ts[..2].to_vec())), (1, Q::Boost(Box::new(Q::Term(ts[2].clone())), 2.0)), (1, Q::Const(Box::new(Q::Term(ts[3].clone())), 1.5))]) }
        14 => { let ts = terms(rng, 3); Q::Nested(vec![(0, Q::Union(ts[..2].to_vec())), (1, Q::Term(ts[2].clone()))]) }
        _ => Q::All,
    }
}

fn gen_kind(rng: &mut Rng) -> Kind {
    let asc = rng.chance(1, 2);
    match rng.below(24) {
        20..=23 => {
            // tuple sort keys, nested ones included, every component with its own order; mostly the
            // low-cardinality columns so that later components decide
            let mut cols = [0u8; 4];
            for c in cols.iter_mut() { *c = if rng.chance(1, 6) { 3 } else { rng.below(3) as u8 }; }
            let mut ord = [false; 4];
            for o in ord.iter_mut() { *o = rng.chance(1, 2); }
            Kind::Tuple(rng.below(5) as u8, cols, ord)
        }
        0..=6 => Kind::Score,
        7 => Kind::FastU64(asc),
        8 => Kind::FastI64(asc),
        9 => Kind::FastF64(asc),
        10 => Kind::FastDate(asc),
        11 => Kind::FastStr(asc),
        12 | 13 => Kind::FastTies(asc),
        14 => Kind::TweakFloor,
        15 => Kind::TweakMod,
        16 => Kind::CustomMod(1 + rng.below(4), None),
        17 => Kind::CustomMod(2 + rng.below(4), Some(asc)),
        _ => Kind::PairAscDesc,
    }
}

fn gen_corpus(rng: &mut Rng, flavour: u64, thorough: bool) -> CorpusSpec {
    let big = if thorough { 3 } else { 1 };
    let nseg = match flavour { 0 => 1, 1 => 2, 5 => 3 + rng.usize_below(4), 6 => 1 + rng.usize_below(2), _ => 1 + rng.usize_below(6) };
    let mut segs = vec![];
    for s in 0..nseg {
        let profile: u8 = match flavour {
            // clean single segment: the bounds hold exactly, any wrong top-K is a violation
            0 => [0u8, 1, 1, 2][rng.usize_below(4)],
            // F5 neighbourhood: single-term documents + a long posting list of another term
            3 => if s == 0 { 3 } else { [0u8, 1, 5][rng.usize_below(3)] },
            // S3 neighbourhood: very different average lengths across segments
            4 => if s == 0 { 4 } else { [5u8, 2, 0][rng.usize_below(3)] },
            // ties neighbourhood: scores / keys tie massively and improve with the segment ordinal
            5 => if s < 2 { 6 } else { 7 },
            // length trend inside a segment (stale block bounds are far too low later on)
            6 => if s == 0 { 8 } else { [8u8, 0, 1][rng.usize_below(3)] },
            _ => [0u8, 1, 1, 1, 2, 0][rng.usize_below(6)],
        };
        let docs = match profile {
            2 => [1usize, 30, 129, 300][rng.usize_below(4)],
            3 => [2usize, 60, 200][rng.usize_below(3)],
            4 => 128 + 128 + 50,
            5 => [200usize, 3000 * big, 5000 * big][rng.usize_below(3)],
            6 | 7 => [3usize, 20, 60, 150, 400][rng.usize_below(5)],
            8 => [1500usize, 3000, 4500][rng.usize_below(3)],
            0 => [1usize, 127, 128, 129, 1000, 4097, 4500 * big][rng.usize_below(7)],
            _ => [1usize, 50, 128, 129, 400, 1500 * big, 4200][rng.usize_below(7)],
        };
        segs.push(SegSpec { seed: rng.next_u64(), docs, profile });
    }
    let delete_permille = match flavour { 0 | 4 | 6 => 0, 5 => [0u64, 0, 50][rng.usize_below(3)], _ => [0u64, 0, 5, 50, 300][rng.usize_below(5)] };
    CorpusSpec { segs, delete_seed: rng.next_u64(), delete_permille, ties_trend: flavour == 5, ties_explicit: None }
}

fn eval_queries(built: &Built, searcher: &Searcher, qs: Vec<Q>) -> Vec<QueryEval> {
    qs.into_iter()
        .filter_map(|q| {
            let query = q.build(&built.fields);
            let hits = catch_unwind(AssertUnwindSafe(|| searcher.search(query.as_ref(), &AllHits))).ok()?.ok()?;
            Some(QueryEval { q, query, hits })
        })
        .collect()
}

fn searchers(built: &Built) -> Vec<(usize, Searcher)> {
    let s1 = built.index.reader().unwrap().searcher();
    let mut idx2 = built.index.clone();
    let mut out = vec![(1usize, s1)];
    if idx2.set_multithread_executor(3).is_ok() {
        out.push((3usize, idx2.reader().unwrap().searcher()));
    }
    out
}

fn corpus_run(ctx: &mut Ctx, spec: &CorpusSpec, rng: &mut Rng, n_queries: usize, n_searches: usize) {
    let t_build = std::time::Instant::now();
    let built = build(spec);
    ctx.report.count_n("millis:build", t_build.elapsed().as_millis() as u64);
    let ss = searchers(&built);
    let mut qs: Vec<Q> = vec![Q::Term("a".into()), Q::Union(vec!["a".into(), "b".into()])];
    for _ in 0..n_queries {
        qs.push(gen_query(rng));
    }
    let evals = eval_queries(&built, &ss[0].1, qs);
    ctx.report.count_n("segments-total", ss[0].1.segment_readers().len() as u64);
    ctx.report.count(&format!("segments:{}", ss[0].1.segment_readers().len()));
    if ss[0].1.segment_readers().iter().any(|r| r.has_deletes()) {
        ctx.report.count("corpus:with-deletes");
    }
    if spec.segs.iter().any(|s| s.docs > 4096) {
        ctx.report.count("corpus:segment>4096");
    }
    for (qi, qe) in evals.iter().enumerate() {
        let m = qe.hits.len();
        ctx.report.count(&format!("query-matches:{}", match m { 0 => "0", 1..=127 => "1-127", 128..=4096 => "128-4096", _ => ">4096" }));
        for si in 0..n_searches {
            let kind = if si == 0 { Kind::Score } else if spec.ties_trend && rng.chance(1, 2) { [Kind::FastTies(false), Kind::FastTies(true), Kind::Score, Kind::CustomMod(2, None)][rng.usize_below(4)].clone() } else { gen_kind(rng) };
            let k = if spec.ties_trend && rng.chance(2, 3) { 4 + rng.usize_below(60) } else { 0 };
            let k = if k > 0 { k } else { match rng.below(8) { 0 | 1 => 1, 2 => 2, 3 => 10, 4 => m.max(1), 5 => m + 5, 6 => 1 + rng.usize_below(m.max(1)), _ => 1 + rng.usize_below(40) } };
            let o = match rng.below(8) { 0..=3 => 0, 4 => rng.usize_below(m + 1), 5 => m, 6 => m + 3, _ => rng.usize_below(20) };
            let (threads, searcher) = &ss[if rng.chance(1, 3) { ss.len() - 1 } else { 0 }];
            // every third search hands TopDocs over inside `(Count, TopDocs)`, every third inside a MultiCollector
            WRAP.with(|w| w.set(((si + qi + k + o) % 3) as u8));
            check_search(ctx, spec, &built, searcher, *threads, qe, &kind, k, o);
            WRAP.with(|w| w.set(0));
        }
        // paging over successive offsets: every match exactly once (exactly comparable keys)
        let t_page = std::time::Instant::now();
        if qi % 3 == 0 && m > 0 && m <= 3000 {
            let kind = loop { let k = gen_kind(rng); if !k.uses_score() || qe.q.clauses() <= 1 { break k } };
            let k = (1 + rng.usize_below(m.min(64))).max(m / 30);
            let (threads, searcher) = &ss[if rng.chance(1, 2) { ss.len() - 1 } else { 0 }];
            let mut pages: Vec<u64> = vec![];
            let mut o = 0;
            let mut ok = true;
            // every page is itself a checked (and, on failure, attributed) search
            let mut pages_ok = true;
            WRAP.with(|w| w.set(((qi / 3 + k) % 3) as u8));
            loop {
                SKIP_MODEL_SPEC.with(|c| c.set(o > 0));
                pages_ok &= check_search(ctx, spec, &built, searcher, *threads, qe, &kind, k, o);
                SKIP_MODEL_SPEC.with(|c| c.set(false));
                match run_real(searcher, qe.query.as_ref(), &kind, k, o) {
                    Ok(p) if p.is_empty() => break,
                    Ok(p) => pages.extend(p.iter().map(|(_, a)| addr_nat(a))),
                    Err(_) => { ok = false; break }
                }
                o += k;
                if o > m + 2 * k { break }
            }
            WRAP.with(|w| w.set(0));
            let mut sorted = pages.clone();
            sorted.sort();
            let mut exp: Vec<u64> = qe.hits.iter().map(|(s, d, _)| ((*s as u64) << 32) | *d as u64).collect();
            exp.sort();
            ctx.report.count("paging-runs");
            ctx.report.case(&format!("paging|{}|{}|{}|{k}", spec.to_json(), qe.q.to_json(), kind.name()), m > k);
            ctx.report.count_n("millis:paging", t_page.elapsed().as_millis() as u64);
            if pages_ok && (!ok || sorted != exp) {
                ctx.report.violation("oracle", "C06:paging-not-a-partition", format!("pages of {k} by {} over {} ({threads} thread(s)) enumerate {} entries ({} distinct) for {m} matches", kind.name(), qe.q.to_json(), pages.len(), { let mut d = sorted.clone(); d.dedup(); d.len() }), json!({"kind": "paging", "corpus": spec.to_json(), "query": qe.q.to_json(), "collector": kind_to_json(&kind), "k": k, "threads": threads}));
            }
        }
    }
    let t_drv = std::time::Instant::now();
    driver_run(ctx, spec, &built, &ss[0].1, rng, 12);
    ctx.report.count_n("millis:driver", t_drv.elapsed().as_millis() as u64);
    let _ = built.num_docs;
}

/// Replica-guided search around tie-breaking in `merge_top_k`: find key layouts on which a replica
/// built from the real `TopNComputer` breaks ties differently from the specification, index them
/// (column `ties`) and run the real `Searcher::search`.
fn guided_ties(ctx: &mut Ctx, want: usize, max_iter: u64) {
    let mut rng = ctx.rng.fork();
    let mut built_n = 0;
    for it in 0..max_iter {
        if built_n >= want {
            break;
        }
        let (n, mut segs) = gen_tie_segments(&mut rng);
        // all segments padded to equal size (key 0 = below every other key): the layout can then
        // be applied whatever (random) order the searcher lists the segments in
        let size = segs.iter().map(|d| d.len()).max().unwrap_or(1);
        for d in segs.iter_mut() {
            for e in d.iter_mut() { e.0 += 1; }
            while d.len() < size { d.push((0, d.len() as u32)); }
        }
        let got = pipeline_replica(n, &segs, false);
        let mut exp: Vec<(i64, (u32, u32))> = segs.iter().enumerate().flat_map(|(s, docs)| docs.iter().map(move |(k, d)| (*k, (s as u32, *d)))).collect();
        exp.sort_by(|a, b| b.0.cmp(&a.0).then(a.1.cmp(&b.1)));
        exp.truncate(n);
        // most guided cases are layouts where the replica goes wrong; some are taken blindly
        if got == exp && it % 2048 != 0 {
            continue;
        }
        built_n += 1;
        ctx.report.count(if got == exp { "guided-ties:blind" } else { "guided-ties:replica-mismatch" });
        let spec = CorpusSpec {
            segs: segs.iter().map(|_| SegSpec { seed: rng.next_u64(), docs: size, profile: 6 }).collect(),
            delete_seed: 0,
            delete_permille: 0,
            ties_trend: false,
            ties_explicit: None,
        };
        let built = build(&spec);
        let ss = searchers(&built);
        let layout: Vec<Vec<u64>> = segs.iter().map(|d| d.iter().map(|(k, _)| *k as u64).collect()).collect();
        let kind = Kind::Layout(std::sync::Arc::new(layout));
        let evals = eval_queries(&built, &ss[0].1, vec![Q::All, Q::Term("a".into())]);
        for qe in &evals {
            let o = if rng.chance(1, 2) { 0 } else { rng.usize_below(n) };
            for (threads, searcher) in &ss {
                check_search(ctx, &spec, &built, searcher, *threads, qe, &kind, n - o, o);
            }
        }
    }
}

// ---------------------------------------------------------------------------------------------
// (C) the pruning drivers under arbitrary callbacks: Weight::for_each_pruning (public) vs the
//     exhaustive loop over Weight::for_each, same callback policy
// ---------------------------------------------------------------------------------------------

#[derive(Clone, Debug)]
enum Policy {
    /// the callback always returns the same threshold
    Const(u32),
    /// the callback returns the score it was just offered (only strictly increasing scores pass)
    Staircase,
    /// the callback keeps the K best scores and returns the K-th best (what TopDocs does)
    KthBest(usize),
}

struct PolicyState {
    policy: Policy,
    best: Vec<f32>,
    theta: f32,
}

impl PolicyState {
    fn new(policy: Policy, initial: f32) -> PolicyState {
        PolicyState { policy, best: vec![], theta: initial }
    }
    fn call(&mut self, score: f32) -> f32 {
        self.theta = match &self.policy {
            Policy::Const(b) => f32::from_bits(*b).max(self.theta),
            Policy::Staircase => score.max(self.theta),
            Policy::KthBest(k) => {
                self.best.push(score);
                self.best.sort_by(|a, b| b.partial_cmp(a).unwrap());
                self.best.truncate(*k);
                // thresholds never decrease (the contract the multi-scorer drivers rely on)
                if self.best.len() == *k { self.best[*k - 1].max(self.theta) } else { self.theta }
            }
        };
        self.theta
    }
}

/// order-preserving natural for a score / bound / threshold (non-positive values, incl. the
/// `Score::MIN` sentinel, map to 0; BM25 scores are positive)
fn score_key(x: f32) -> u64 {
    if x > 0.0 { x.to_bits() as u64 + 1 } else { 0 }
}

fn model_wand_single(ctx: &mut Ctx, searcher: &Searcher, reader: &SegmentReader, field: Field, term: &Term, policy: &Policy, initial: f32) -> Option<String> {
    let w = Bm25Weight::for_terms(searcher, &[term.clone()]).ok()?;
    let inv = reader.inverted_index(field).ok()?;
    let fnr = reader.get_fieldnorms_reader(field).ok()?;
    let mut bp = inv.read_block_postings(term, IndexRecordOption::WithFreqs).ok()??;
    let doc_freq = bp.doc_freq();
    let mut blocks: Vec<String> = vec![];
    loop {
        let docs = bp.docs().to_vec();
        if docs.is_empty() {
            break;
        }
        let freqs = bp.freqs().to_vec();
        // full blocks carry a stored bound; a short posting list is loaded when opened (true
        // maximum); the trailing partial block of a longer list is reached by a shallow seek and
        // is bounded by `max_score` until it is loaded
        let bm = if docs.len() == 128 || doc_freq < 128 { bp.block_max_score(&fnr, &w) } else { w.max_score() };
        let body: Vec<String> = docs.iter().zip(freqs.iter()).map(|(d, f)| format!("{d}@{}", score_key(w.score(fnr.fieldnorm_id(*d), *f)))).collect();
        blocks.push(format!("{}:{}", score_key(bm), body.join(",")));
        bp.advance();
    }
    if blocks.len() > 40 {
        return None; // keep the request lines small
    }
    let (pol, arg) = match policy { Policy::Const(b) => ("const", score_key(f32::from_bits(*b))), Policy::Staircase => ("stair", 0), Policy::KthBest(k) => ("kth", *k as u64) };
    Some(ctx.model.ask(&format!("C06 wand1 {pol} {arg} {} {}", score_key(initial), if blocks.is_empty() { "-".to_string() } else { blocks.join(";") })))
}

/// one term scorer as the mirrored loops (Model/BlockWand.lean) see it:
/// `max;tailMax;tailLoaded;cost;last:bm,…;doc@score,…` with floats as bit patterns
fn scorer_line(searcher: &Searcher, reader: &SegmentReader, fields: &Fields, t: &str) -> Option<(String, usize)> {
    let (field, term) = term_of(fields, t);
    if field == fields.basic {
        return None;
    }
    let w = Bm25Weight::for_terms(searcher, &[term.clone()]).ok()?;
    let inv = reader.inverted_index(field).ok()?;
    let fnr = reader.get_fieldnorms_reader(field).ok()?;
    let mut bp = inv.read_block_postings(&term, IndexRecordOption::WithFreqs).ok()??;
    let doc_freq = bp.doc_freq() as usize;
    let mut blocks: Vec<String> = vec![];
    let mut posts: Vec<String> = vec![];
    let mut tail_max = 0f32;
    loop {
        let docs = bp.docs().to_vec();
        if docs.is_empty() {
            break;
        }
        let freqs = bp.freqs().to_vec();
        let full = docs.len() == 128;
        if full {
            blocks.push(format!("{}:{}", docs[127], bp.block_max_score(&fnr, &w).to_bits()));
        }
        for (d, f) in docs.iter().zip(freqs.iter()) {
            let sc = w.score(fnr.fieldnorm_id(*d), *f);
            posts.push(format!("{d}@{}", sc.to_bits()));
            if !full && sc > tail_max {
                tail_max = sc;
            }
        }
        bp.advance();
    }
    if posts.is_empty() {
        return None;
    }
    let line = format!("{};{};{};{};{};{}", w.max_score().to_bits(), tail_max.to_bits(), if doc_freq < 128 { 1 } else { 0 }, doc_freq,
        if blocks.is_empty() { "-".to_string() } else { blocks.join(",") }, posts.join(","));
    Some((line, doc_freq))
}

/// ask the mirrored multi-scorer loop (`bwand` / `binter`) for its callback sequence
fn model_multi(ctx: &mut Ctx, op: &str, searcher: &Searcher, reader: &SegmentReader, fields: &Fields, terms: &[String], policy: &Policy, initial: f32) -> Option<String> {
    let mut lines = vec![];
    let mut total = 0;
    for t in terms {
        match scorer_line(searcher, reader, fields, t) {
            Some((l, n)) => { lines.push(l); total += n; }
            None => {
                // a term absent from the segment: EmptyScorer — a union drops it, a conjunction is empty
                if op == "binter" || term_of(fields, t).0 == fields.basic { return None; }
            }
        }
    }
    if lines.len() < 2 || total > 12_000 {
        return None;
    }
    let (pol, arg) = match policy { Policy::Const(b) => ("const", *b as u64), Policy::Staircase => ("stair", 0), Policy::KthBest(k) => ("kth", *k as u64) };
    Some(ctx.model.ask(&format!("C06 {op} {pol} {arg} {} {}", initial.to_bits(), lines.join("/"))))
}

fn driver_case(ctx: &mut Ctx, spec: &CorpusSpec, built: &Built, searcher: &Searcher, q: &Q, policy: &Policy, initial: f32) {
    use tantivy::query::EnableScoring;
    let query = q.build(&built.fields);
    let Ok(weight) = query.weight(EnableScoring::enabled_from_searcher(searcher)) else { return };
    for (ord, reader) in searcher.segment_readers().iter().enumerate() {
        let case = json!({"kind": "driver", "corpus": spec.to_json(), "query": q.to_json(), "policy": format!("{policy:?}"), "initial_bits": initial.to_bits(), "segment_order": segment_order(searcher), "segment": ord});
        let mut all: Vec<(DocId, Score)> = vec![];
        if catch_unwind(AssertUnwindSafe(|| weight.for_each(reader, &mut |d, s| all.push((d, s))))).is_err() {
            continue;
        }
        // expected: weight.rs::for_each_pruning_scorer over the exhaustive list
        let mut st = PolicyState::new(policy.clone(), initial);
        let mut expected: Vec<(DocId, u32)> = vec![];
        for (d, s) in &all {
            if *s > st.theta {
                expected.push((*d, s.to_bits()));
                st.call(*s);
            }
        }
        let mut st = PolicyState::new(policy.clone(), initial);
        let mut got: Vec<(DocId, u32)> = vec![];
        let r = catch_unwind(AssertUnwindSafe(|| weight.for_each_pruning(initial, reader, &mut |d, s| { got.push((d, s.to_bits())); st.call(s) })));
        ctx.report.count(&format!("driver:{}", q.path()));
        ctx.report.count(&format!("driver-policy:{}", match policy { Policy::Const(_) => "const", Policy::Staircase => "staircase", Policy::KthBest(_) => "kth-best" }));
        ctx.report.case(&format!("driver|{}|{}|{policy:?}|{}|{ord}", spec.to_json(), q.to_json(), initial.to_bits()), all.len() > 128 && expected.len() < all.len());
        if r.is_err() || !matches!(r, Ok(Ok(()))) {
            ctx.report.violation("oracle", "C06:pruning-driver-failed", format!("for_each_pruning on {} (segment {ord}) failed or panicked", q.to_json()), case);
            continue;
        }
        // correspondence with Model/Wand.lean::wandSingle: the term's postings cut into the blocks
        // the real driver sees, each with the bound it reads for it
        if let Q::Term(t) = q {
            let (field, term) = term_of(&built.fields, t);
            if field != built.fields.basic {
                if let Some(resp) = model_wand_single(ctx, searcher, reader, field, &term, policy, initial) {
                    let model_calls: Vec<DocId> = resp.split('|').next().map(|c| if c == "-" { vec![] } else { c.split(',').filter_map(|x| x.parse().ok()).collect() }).unwrap_or_default();
                    let real_calls: Vec<DocId> = got.iter().map(|(d, _)| *d).collect();
                    ctx.report.count("wand-single-vs-model");
                    if model_calls != real_calls {
                        let p = (0..model_calls.len().max(real_calls.len())).find(|i| model_calls.get(*i) != real_calls.get(*i)).unwrap_or(0);
                        ctx.report.violation("model", "C06:wand-single-model-mismatch", format!("{} on segment {ord}, policy {policy:?}, initial {initial:?}: block_wand_single_scorer offers {:?} at call {p}, the model {:?} ({} vs {} calls)", q.to_json(), real_calls.get(p), model_calls.get(p), real_calls.len(), model_calls.len()), case.clone());
                    }
                }
            }
        }
        // correspondence with the mirrored loop of block_wand (Model/BlockWand.lean), bit for bit:
        // same documents offered with the same score bits — also where the bounds fail
        let mirrored = match q { Q::Union(ts) => Some(("bwand", "block_wand", "C06:block-wand-mirrored-loop-mismatch", "block-wand-vs-mirrored-loop", ts)), Q::Inter(ts) => Some(("binter", "block_wand_intersection", "C06:block-wand-intersection-mirrored-loop-mismatch", "block-wand-intersection-vs-mirrored-loop", ts)), _ => None };
        if let Some((op, name, key, counter, ts)) = mirrored {
            if let Some(resp) = model_multi(ctx, op, searcher, reader, &built.fields, ts, policy, initial) {
                ctx.report.count(counter);
                let real_calls: String = if got.is_empty() { "-".into() } else { got.iter().map(|(d, s)| format!("{d}@{s}")).collect::<Vec<_>>().join(",") };
                let model_calls = resp.split('|').nth(1).unwrap_or("?").to_string();
                if !resp.starts_with("ok|") || model_calls != real_calls {
                    let (ubmax, ubblock) = ub_check(searcher, &built.fields, ts);
                    let ub_fails = ubmax.is_some() || ubblock.is_some();
                    ctx.report.count(&format!("{counter}:{}", if ub_fails { "mismatch-where-a-bound-fails" } else { "mismatch" }));
                    let rc: Vec<&str> = real_calls.split(',').collect();
                    let mc: Vec<&str> = model_calls.split(',').collect();
                    let p = (0..rc.len().max(mc.len())).find(|i| rc.get(*i) != mc.get(*i)).unwrap_or(0);
                    ctx.report.violation("model", key, format!("{} on segment {ord}, policy {policy:?}, initial {initial:?}: {name} offers {:?} at call {p}, the mirrored loop {:?} ({} vs {} calls; outcome {}; a bound hypothesis fails here: {ub_fails})", q.to_json(), rc.get(p), mc.get(p), rc.len(), mc.len(), resp.split('|').next().unwrap_or("")), case.clone());
                } else if got.len() < all.len() {
                    ctx.report.count(&format!("{counter}:pruned"));
                }
            }
        }
        // (three and more clauses: the two paths add the clause scores in different orders, so the
        //  exact comparison with the exhaustive loop is left to `driver_case_multi`)
        // (conjunctions: the rounded `threshold - Σ block_max` of the candidate filter, see driver_run)
        if q.clauses() <= 2 && !matches!(q, Q::Inter(_)) && got != expected {
            let p = (0..got.len().max(expected.len())).find(|i| got.get(*i) != expected.get(*i)).unwrap_or(0);
            let mut key = "C06:pruning-driver-differs-from-exhaustive".to_string();
            let mut extra = String::new();
            if let (Some(terms), true) = (q.wand_terms(), key == "C06:pruning-driver-differs-from-exhaustive") {
                let (ubmax, ubblock) = ub_check(searcher, &built.fields, &terms);
                let single = terms.len() == 1;
                match (ubmax, ubblock) {
                    (_, Some(w)) if single => { key = "C06:blockmax-pair-wrong-avg-fieldnorm".into(); extra = format!(" [UB_block fails: {w}]"); }
                    (Some(w), _) => { key = "C06:maxscore-not-upper-bound".into(); extra = format!(" [UB_max fails: {w}]"); }
                    (None, Some(w)) => { key = "C06:blockmax-pair-wrong-avg-fieldnorm".into(); extra = format!(" [UB_block fails: {w}]"); }
                    (None, None) => {}
                }
            }
            ctx.report.violation("oracle", &key, format!("{} via {} on segment {ord} ({} docs), policy {policy:?}, initial threshold {initial:?}: callback sequence differs from the exhaustive loop at call {p}: got {:?}, expected {:?} ({} vs {} calls){extra}", q.to_json(), q.path(), all.len(), got.get(p).map(|(d, s)| (*d, f32::from_bits(*s))), expected.get(p).map(|(d, s)| (*d, f32::from_bits(*s))), got.len(), expected.len()), case);
        }
    }
}

/// three to five scoring clauses: the float sums of the two paths may differ by rounding, so the
/// callback keeps the threshold CONSTANT (no path dependence) and the comparison is by tolerance:
/// every document scoring clearly above the threshold must be offered, nothing clearly below it,
/// and every offered score must be the document's score up to the tolerance.
fn driver_case_multi(ctx: &mut Ctx, spec: &CorpusSpec, built: &Built, searcher: &Searcher, q: &Q, threshold: f32) {
    use tantivy::query::EnableScoring;
    let query = q.build(&built.fields);
    let Ok(weight) = query.weight(EnableScoring::enabled_from_searcher(searcher)) else { return };
    let n = q.clauses();
    for (ord, reader) in searcher.segment_readers().iter().enumerate() {
        let case = json!({"kind": "driver-multi", "corpus": spec.to_json(), "query": q.to_json(), "threshold_bits": threshold.to_bits(), "segment_order": segment_order(searcher), "segment": ord});
        let mut all: std::collections::HashMap<DocId, Score> = std::collections::HashMap::new();
        if catch_unwind(AssertUnwindSafe(|| weight.for_each(reader, &mut |d, s| { all.insert(d, s); }))).is_err() {
            continue;
        }
        let mut got: Vec<(DocId, Score)> = vec![];
        let r = catch_unwind(AssertUnwindSafe(|| weight.for_each_pruning(threshold, reader, &mut |d, s| { got.push((d, s)); threshold })));
        ctx.report.count(&format!("driver-multi:{}", q.path()));
        ctx.report.case(&format!("driver-multi|{}|{}|{}|{ord}", spec.to_json(), q.to_json(), threshold.to_bits()), all.len() > 128);
        if !matches!(r, Ok(Ok(()))) {
            ctx.report.violation("oracle", "C06:pruning-driver-failed", format!("for_each_pruning on {} (segment {ord}) failed or panicked", q.to_json()), case);
            continue;
        }
        let tol = |a: f32| ulp_tol(n, a, threshold);
        let mut what = None;
        let called: std::collections::HashMap<DocId, Score> = got.iter().cloned().collect();
        for (d, s) in &got {
            match all.get(d) {
                None => { what = Some(format!("document {d} offered but it does not match")); break }
                Some(t) if (t - s).abs() > ulp_tol(n, *t, *s) => { what = Some(format!("document {d} offered with score {s:?}, its score is {t:?}")); break }
                Some(t) if *t < threshold - tol(*t) => { what = Some(format!("document {d} (score {t:?}) offered although not above the threshold {threshold:?}")); break }
                _ => {}
            }
        }
        if what.is_none() {
            if got.windows(2).any(|w| w[0].0 >= w[1].0) {
                what = Some("documents not offered in ascending order".into());
            }
        }
        if what.is_none() {
            for (d, t) in &all {
                if *t > threshold + tol(*t) && !called.contains_key(d) {
                    what = Some(format!("document {d} scores {t:?} > threshold {threshold:?} but was never offered"));
                    break;
                }
            }
        }
        if let Some(what) = what {
            let mut key = "C06:pruning-driver-differs-from-exhaustive".to_string();
            let mut extra = String::new();
            if let Some(terms) = q.wand_terms() {
                let (ubmax, ubblock) = ub_check(searcher, &built.fields, &terms);
                match (ubmax, ubblock) {
                    (Some(w), _) => { key = "C06:maxscore-not-upper-bound".into(); extra = format!(" [UB_max fails: {w}]"); }
                    (None, Some(w)) => { key = "C06:blockmax-pair-wrong-avg-fieldnorm".into(); extra = format!(" [UB_block fails: {w}]"); }
                    (None, None) => {}
                }
            }
            ctx.report.violation("oracle", &key, format!("{} via {} on segment {ord} ({} matches), constant threshold {threshold:?}: {what}{extra}", q.to_json(), q.path(), all.len()), case);
        }
    }
}

// ---------------------------------------------------------------------------------------------
// (D) keys OUTSIDE the model: NaN sort keys, scores not above the `Score::MIN` sentinel
// ---------------------------------------------------------------------------------------------
// The theorems assume the comparator is a strict weak order. `NaturalComparator` compares with
// `partial_cmp(..).unwrap_or(Equal)`: a NaN key is "equal" to every key, which is not transitive,
// so nothing is claimed about the ORDER of a result that contains NaN keys. What is still checked:
// no panic, the result size, no duplicate, every entry a real match carrying its own key.
// Whether comparable documents get lost behind a NaN threshold is REPORTED (counters, a note).

#[derive(Clone)]
struct NanKey {
    m: u64,
    r: u64,
}
struct NanKeySeg {
    col: Column<u64>,
    m: u64,
    r: u64,
}
fn nan_key_f64(id: u64, m: u64, r: u64) -> f64 {
    if id % m == r { f64::NAN } else { (id % 17) as f64 }
}
fn nan_key_f32(id: u64, m: u64, r: u64, score: Score) -> f32 {
    if id % m == r { f32::NAN } else { tweak_floor(score) }
}
impl SortKeyComputer for NanKey {
    type SortKey = f64;
    type Child = NanKeySeg;
    type Comparator = NaturalComparator;
    fn segment_sort_key_computer(&self, r: &SegmentReader) -> tantivy::Result<NanKeySeg> {
        Ok(NanKeySeg { col: r.fast_fields().u64("id")?, m: self.m, r: self.r })
    }
}
impl SegmentSortKeyComputer for NanKeySeg {
    type SortKey = f64;
    type SegmentSortKey = f64;
    type SegmentComparator = NaturalComparator;
    fn segment_sort_key(&mut self, doc: DocId, _score: Score) -> f64 {
        nan_key_f64(self.col.first(doc).unwrap_or(0), self.m, self.r)
    }
    fn convert_segment_sort_key(&self, k: f64) -> f64 {
        k
    }
}

/// where the last panic came from: the innermost `tantivy::` frames of its backtrace
static LAST_PANIC_SITE: std::sync::Mutex<String> = std::sync::Mutex::new(String::new());
fn capture_panic_sites(on: bool) {
    if on {
        std::panic::set_hook(Box::new(|_| {
            let bt = std::backtrace::Backtrace::force_capture().to_string();
            let frames: Vec<&str> = bt.lines().map(|l| l.trim()).filter(|l| l.contains("tantivy::") && !l.contains("tvh::")).take(3).collect();
            let short: Vec<String> = frames.iter().map(|f| f.splitn(2, ": ").nth(1).unwrap_or(f).to_string()).collect();
            if let Ok(mut g) = LAST_PANIC_SITE.lock() { *g = short.join(" <- "); }
        }));
    } else {
        std::panic::set_hook(Box::new(|_| {}));
    }
}

/// variant 0: `tweak_score` to f32; 1: custom f64 key, descending; 2: custom f64 key, ascending
fn nan_case(ctx: &mut Ctx, spec: &CorpusSpec, built: &Built, searcher: &Searcher, threads: usize, qe: &QueryEval, variant: u64, m: u64, r: u64, k: usize, o: usize) {
    let case = json!({"kind": "nan", "corpus": spec.to_json(), "query": qe.q.to_json(), "variant": variant, "m": m, "r": r, "k": k, "offset": o, "threads": threads, "segment_order": segment_order(searcher)});
    let _ = built;
    let ids: Vec<Column<u64>> = searcher.segment_readers().iter().map(|r| r.fast_fields().u64("id").unwrap()).collect();
    // true key of every match, as f64 (f32 keys widened: exact)
    let truth: std::collections::HashMap<u64, f64> = qe.hits.iter().map(|(s, d, sc)| {
        let id = ids[*s as usize].first(*d).unwrap_or(0);
        let key = if variant == 0 { nan_key_f32(id, m, r, *sc) as f64 } else { nan_key_f64(id, m, r) };
        (((*s as u64) << 32) | *d as u64, key)
    }).collect();
    let n_nan = truth.values().filter(|x| x.is_nan()).count();
    ctx.report.count(&format!("nan-keys:variant-{variant}"));
    ctx.report.case(&format!("nan|{}|{}|{variant}|{m}|{r}|{k}|{o}|{threads}", spec.to_json(), qe.q.to_json()), n_nan > 0 && truth.len() > k + o);
    let td = || TopDocs::with_limit(k).and_offset(o);
    let q = qe.query.as_ref();
    capture_panic_sites(true);
    let res = catch_unwind(AssertUnwindSafe(|| -> tantivy::Result<Vec<(f64, DocAddress)>> {
        Ok(match variant {
            0 => searcher.search(q, &td().tweak_score(move |rd: &SegmentReader| {
                let col = rd.fast_fields().u64("id").unwrap();
                move |doc: DocId, score: Score| nan_key_f32(col.first(doc).unwrap_or(0), m, r, score)
            }))?.into_iter().map(|(x, a)| (x as f64, a)).collect(),
            1 => searcher.search(q, &td().order_by((NanKey { m, r }, Order::Desc)))?,
            _ => searcher.search(q, &td().order_by((NanKey { m, r }, Order::Asc)))?,
        })
    }));
    capture_panic_sites(false);
    let real = match res {
        Ok(Ok(v)) => v,
        Ok(Err(e)) => { ctx.report.violation("oracle", "C06:nan-key-search-error", format!("TopDocs({k}, offset {o}) with NaN keys (variant {variant}, {n_nan} NaN of {}) on {}: error {e}", truth.len(), qe.q.to_json()), case); return }
        Err(e) => {
            let msg = e.downcast_ref::<String>().cloned().or_else(|| e.downcast_ref::<&str>().map(|x| x.to_string())).unwrap_or_default();
            let site = LAST_PANIC_SITE.lock().map(|g| g.clone()).unwrap_or_default();
            ctx.report.count(&format!("nan-keys:panic-site:{}", site.split(" <- ").next().unwrap_or("")));
            // signature of the known defect: the sort's total-order check fired AND a NaN key is among the matches
            let key = if n_nan > 0 && msg.contains("does not correctly implement a total order") { "C06:nan-sort-key-sort-panics" } else { "C06:nan-key-search-panic" };
            ctx.report.violation("oracle", key, format!("TopDocs({k}, offset {o}) with NaN keys (variant {variant}, {n_nan} NaN of {}) on {} over {} segment(s), {threads} thread(s): the search panicked: {msg:?} at {site}", truth.len(), qe.q.to_json(), searcher.segment_readers().len()), case);
            return
        }
    };
    // what must hold whatever the order
    let want_len = k.min(truth.len().saturating_sub(o));
    let mut seen = std::collections::HashSet::new();
    let mut what = None;
    if real.len() != want_len {
        what = Some(format!("{} entries returned, {} matches, expected {want_len}", real.len(), truth.len()));
    }
    for (key, a) in &real {
        let addr = addr_nat(a);
        match truth.get(&addr) {
            None => { what = Some(format!("entry {a:?} is not a match")); break }
            Some(t) if t.to_bits() != key.to_bits() && !(t.is_nan() && key.is_nan()) => { what = Some(format!("entry {a:?} carries key {key:?}, its key is {t:?}")); break }
            _ => {}
        }
        if !seen.insert(addr) { what = Some(format!("entry {a:?} returned twice")); break }
    }
    if let Some(w) = what {
        ctx.report.violation("oracle", "C06:nan-key-wrong-result", format!("TopDocs({k}, offset {o}) with NaN keys (variant {variant}, {n_nan} NaN of {}) on {} over {} segment(s), {threads} thread(s): {w}", truth.len(), qe.q.to_json(), searcher.segment_readers().len()), case);
        return;
    }
    // REPORTED, not judged: the comparable part of the result
    if n_nan > 0 && o == 0 {
        let asc = variant == 2;
        let better = |a: f64, b: f64| if asc { a < b } else { a > b };
        let worst_returned = real.iter().map(|(x, _)| *x).filter(|x| !x.is_nan()).fold(None, |w: Option<f64>, x| match w { None => Some(x), Some(y) => Some(if better(y, x) { x } else { y }) });
        let returned: std::collections::HashSet<u64> = real.iter().map(|(_, a)| addr_nat(a)).collect();
        let lost = worst_returned.map(|w| truth.iter().filter(|(a, x)| !x.is_nan() && !returned.contains(a) && better(**x, w)).count()).unwrap_or(0);
        let comparable: Vec<f64> = real.iter().map(|(x, _)| *x).filter(|x| !x.is_nan()).collect();
        let unsorted = comparable.windows(2).any(|w| better(w[1], w[0]));
        let nan_returned = real.iter().filter(|(x, _)| x.is_nan()).count();
        let comparable_total = truth.len() - n_nan;
        let nan_instead = nan_returned > 0 && comparable_total > comparable.len();
        if lost > 0 { ctx.report.count("nan-keys:observed:strictly-better-comparable-document-left-out"); }
        if unsorted { ctx.report.count("nan-keys:observed:comparable-entries-out-of-order"); }
        if nan_instead { ctx.report.count("nan-keys:observed:nan-entry-returned-while-comparable-documents-left-out"); }
        if !(lost > 0 || unsorted || nan_instead) { ctx.report.count("nan-keys:observed:comparable-part-as-without-nan"); }
        if lost > 0 && !ctx.report.notes.iter().any(|n| n.starts_with("NaN keys (outside the model)")) {
            ctx.report.notes.push(format!("NaN keys (outside the model): TopDocs({k}) variant {variant} on {} ({} matches, {n_nan} NaN): {lost} comparable document(s) strictly better than the worst returned comparable key {worst_returned:?} were left out (a NaN threshold rejects every later document: compare(x, NaN) is never Greater); {nan_returned} NaN entries returned", qe.q.to_json(), truth.len()));
        }
    }
}

/// scores at or below the `Score::MIN` threshold sentinel: `for_each_pruning(Score::MIN, ..)`
/// offers a document only if `score > threshold`
fn sentinel_case(ctx: &mut Ctx, spec: &CorpusSpec, built: &Built, searcher: &Searcher, inner: &Q, score_bits: u32, k: usize) {
    let s = f32::from_bits(score_bits);
    let case = json!({"kind": "sentinel", "corpus": spec.to_json(), "query": inner.to_json(), "score_bits": score_bits, "k": k, "segment_order": segment_order(searcher)});
    let query = ConstScoreQuery::new(inner.build(&built.fields), s);
    let Ok(Ok(hits)) = catch_unwind(AssertUnwindSafe(|| searcher.search(&query, &AllHits))) else { return };
    let mut all: Vec<u64> = hits.iter().map(|(sg, d, _)| ((*sg as u64) << 32) | *d as u64).collect();
    all.sort();
    ctx.report.count(&format!("sentinel:score:{}", if s.is_nan() { "NaN".to_string() } else { format!("{s:e}") }));
    ctx.report.case(&format!("sentinel|{}|{}|{score_bits}|{k}", spec.to_json(), inner.to_json()), all.len() > k);
    let res = catch_unwind(AssertUnwindSafe(|| searcher.search(&query, &TopDocs::with_limit(k).order_by_score())));
    let real = match res {
        Ok(Ok(v)) => v,
        _ => { ctx.report.violation("oracle", "C06:search-panic", format!("TopDocs({k}) by score on const-score({s:?}) of {} failed or panicked", inner.to_json()), case); return }
    };
    let got: Vec<u64> = real.iter().map(|(_, a)| addr_nat(a)).collect();
    let expected: Vec<u64> = all.iter().take(k).cloned().collect();
    let keys_ok = real.iter().all(|(x, _)| x.to_bits() == score_bits);
    if s.is_nan() {
        // outside the model; report
        ctx.report.count(if got.is_empty() && !all.is_empty() { "sentinel:observed:NaN-scores-never-collected" } else { "sentinel:observed:NaN-scores-collected" });
        return;
    }
    if got == expected && keys_ok {
        return;
    }
    // signature of the sentinel defect: nothing is returned, and the (constant) score is not above f32::MIN
    if got.is_empty() && !all.is_empty() && !(s > f32::MIN) {
        ctx.report.violation("oracle", "C06:score-not-above-f32-min-never-collected", format!("TopDocs({k}) by score on const-score({s:?}) of {}: {} documents match (all with score {s:?}) but none is returned: `for_each_pruning` starts from the threshold sentinel Score::MIN = {:?} and offers a document only if score > threshold [verified: result empty, score <= f32::MIN]", inner.to_json(), all.len(), f32::MIN), case);
        return;
    }
    ctx.report.violation("oracle", "C06:topk-wrong", format!("TopDocs({k}) by score on const-score({s:?}) of {}: got {:?}…, expected the first {} matches by address {:?}… (keys carried correctly: {keys_ok})", inner.to_json(), &got[..got.len().min(5)], expected.len(), &expected[..expected.len().min(5)]), case);
}

fn outside_model_run(ctx: &mut Ctx, rng: &mut Rng, corpora: u64) {
    for c in 0..corpora {
        let spec = gen_corpus(rng, [0, 6, 3, 2][(c % 4) as usize], false);
        let built = build(&spec);
        let ss = searchers(&built);
        let qs = vec![Q::Term("a".into()), Q::Union(vec!["a".into(), "b".into()]), Q::All, gen_query(rng)];
        let evals = eval_queries(&built, &ss[0].1, qs);
        for qe in &evals {
            let n = qe.hits.len();
            if n == 0 { continue; }
            for _ in 0..4 {
                let variant = rng.below(3);
                // few NaN (one in m) … mostly NaN
                let m = [2u64, 3, 7, 50, 1000][rng.usize_below(5)];
                let r = rng.below(m);
                let k = match rng.below(5) { 0 => 1, 1 => 3, 2 => 10, 3 => n + 2, _ => 1 + rng.usize_below(n.min(300)) };
                let o = match rng.below(4) { 0 => rng.usize_below(n + 1), 1 => rng.usize_below(10), _ => 0 };
                let (threads, searcher) = &ss[if rng.chance(1, 3) { ss.len() - 1 } else { 0 }];
                nan_case(ctx, &spec, &built, searcher, *threads, qe, variant, m, r, k, o);
            }
        }
        for bits in [f32::MIN.to_bits(), f32::NEG_INFINITY.to_bits(), f32::NAN.to_bits(), (-3.0e38f32).to_bits(), f32::from_bits(f32::MIN.to_bits() - 1).to_bits(), (-1.0f32).to_bits(), 0f32.to_bits()] {
            let inner = if rng.chance(1, 2) { Q::Term("a".into()) } else { Q::All };
            sentinel_case(ctx, &spec, &built, &ss[0].1, &inner, bits, [1usize, 5, 100_000][rng.usize_below(3)]);
        }
        // negative boosts: scores are negative, `score > Score::MIN` still holds for every document
        for q in [Q::Boost(Box::new(Q::Term("a".into())), -1.0), Q::Boost(Box::new(Q::Union(vec!["a".into(), "b".into()])), -0.5), Q::Boost(Box::new(Q::Inter(vec!["a".into(), "b".into()])), -2.0)] {
            let evals = eval_queries(&built, &ss[0].1, vec![q]);
            for qe in &evals {
                ctx.report.count("negative-boost");
                let k = [1usize, 3, 10][rng.usize_below(3)];
                check_search(ctx, &spec, &built, &ss[0].1, 1, qe, &Kind::Score, k, 0);
            }
        }
    }
}

fn driver_run(ctx: &mut Ctx, spec: &CorpusSpec, built: &Built, searcher: &Searcher, rng: &mut Rng, n: usize) {
    // multi-clause unions and conjunctions (>= 3 secondaries for the intersection driver)
    for _ in 0..n {
        let mut ts: Vec<String> = TERMS.iter().take(5).map(|s| s.to_string()).collect();
        if rng.chance(1, 4) { ts.push("t:a".into()); }
        rng.shuffle(&mut ts);
        let k = 3 + rng.usize_below(3);
        let ts = ts[..k.min(ts.len())].to_vec();
        let q = if rng.chance(1, 2) { Q::Inter(ts) } else { Q::Union(ts) };
        let sample: Vec<Score> = {
            let query = q.build(&built.fields);
            searcher.search(query.as_ref(), &AllHits).map(|h| h.into_iter().map(|x| x.2).collect()).unwrap_or_default()
        };
        if sample.is_empty() { continue; }
        let mut sorted = sample.clone();
        sorted.sort_by(|a, b| b.partial_cmp(a).unwrap());
        // thresholds near the top of the score distribution (where pruning is active)
        let th = match rng.below(4) { 0 => sorted[sorted.len() / 2], 1 => sorted[sorted.len() / 10], 2 => sorted[(sorted.len() / 100).min(sorted.len() - 1)], _ => sorted[rng.usize_below(sorted.len().min(20))] };
        driver_case_multi(ctx, spec, built, searcher, &q, th);
        // the same queries with threshold-raising callbacks, against the mirrored loops (bit for bit)
        let policy = match rng.below(4) { 0 => Policy::Const(th.to_bits()), 1 => Policy::Staircase, _ => Policy::KthBest(1 + rng.usize_below(30)) };
        let initial = match (&policy, rng.below(3)) { (Policy::Const(b), _) => f32::from_bits(*b), (_, 0) => th * 0.5, _ => f32::MIN };
        driver_case(ctx, spec, built, searcher, &q, &policy, initial);
    }
    for _ in 0..n {
        // one or two scoring clauses: the scores are bit-identical on both paths (IEEE addition commutes)
        let mut ts: Vec<String> = TERMS.iter().take(4).map(|s| s.to_string()).collect();
        rng.shuffle(&mut ts);
        let q = match rng.below(6) {
            0 | 1 => Q::Term(ts[0].clone()),
            2 => Q::Union(ts[..2 + rng.usize_below(3)].to_vec()),
            3 => Q::Inter(ts[..2].to_vec()),
            4 => Q::Term(["n:a", "n:b", "t:a"][rng.usize_below(3)].to_string()),
            // mixed fields (both with freqs): different fieldnorm readers and weights in one WAND
            _ => if rng.chance(1, 2) { Q::Union(vec![ts[0].clone(), "t:a".into()]) } else { Q::Inter(vec![ts[0].clone(), "t:b".into()]) },
        };
        // thresholds taken from the scores that occur (strictness at equality) and around them
        let sample: Vec<Score> = {
            let query = q.build(&built.fields);
            searcher.search(query.as_ref(), &AllHits).map(|h| h.into_iter().map(|x| x.2).collect()).unwrap_or_default()
        };
        let pick = |rng: &mut Rng| -> f32 {
            if sample.is_empty() { return 0.0 }
            let s = sample[rng.usize_below(sample.len())];
            match rng.below(4) { 0 => s, 1 => f32::from_bits(s.to_bits().saturating_sub(1)), 2 => f32::from_bits(s.to_bits() + 1), _ => s * 0.5 }
        };
        // block_wand_intersection filters candidates with `leader_score > threshold - Σ block_max`:
        // the rounded subtraction can drop a document whose (exactly summed) score exceeds the
        // threshold by an ulp (observed on the unchanged tree) — inside the property's "up to
        // floating-point rounding of the sum". Conjunctions are therefore compared by tolerance.
        if let Q::Inter(_) = &q {
            if !sample.is_empty() {
                driver_case_multi(ctx, spec, built, searcher, &q, pick(rng));
            }
        }
        let policy = match rng.below(5) { 0 => Policy::Const(pick(rng).to_bits()), 1 => Policy::Staircase, _ => Policy::KthBest(1 + rng.usize_below(30)) };
        let initial = match (&policy, rng.below(3)) { (Policy::Const(b), _) => f32::from_bits(*b), (_, 0) => pick(rng), _ => f32::MIN };
        driver_case(ctx, spec, built, searcher, &q, &policy, initial);
    }
}

/// the two recorded defects, replayed on their minimal corpora first (DESIGN §8 F5, S3)
fn known_corpora(ctx: &mut Ctx) {
    // F5: docs `a×43`, `a×41`, 2000×`b`; query `a OR b`; TopDocs(1)
    {
        let (schema, fields) = schema();
        let index = Index::create_in_ram(schema);
        let mut w: IndexWriter = index.writer_with_num_threads(1, 50_000_000).unwrap();
        let add = |w: &mut IndexWriter, text: String, id: u64| {
            let mut doc = TantivyDocument::default();
            doc.add_text(fields.body, text);
            doc.add_u64(fields.id, id);
            doc.add_u64(fields.u, id); doc.add_i64(fields.i, 0); doc.add_f64(fields.f, 0.0);
            doc.add_date(fields.d, DateTime::from_timestamp_secs(0)); doc.add_text(fields.s, "x"); doc.add_u64(fields.ties, 0);
            w.add_document(doc).unwrap();
        };
        add(&mut w, vec!["a"; 43].join(" "), 0);
        add(&mut w, vec!["a"; 41].join(" "), 1);
        for i in 0..2000 {
            add(&mut w, "b".into(), 2 + i);
        }
        w.commit().unwrap();
        let built = Built { index, fields, num_docs: 2002 };
        let ss = searchers(&built);
        let evals = eval_queries(&built, &ss[0].1, vec![Q::Union(vec!["a".into(), "b".into()]), Q::Term("a".into())]);
        let spec = CorpusSpec { segs: vec![], delete_seed: 0, delete_permille: 0, ties_trend: false, ties_explicit: None };
        for qe in &evals {
            ctx.report.count("known-corpus:F5");
            let ok = check_search_known(ctx, "F5", &built, &ss[0].1, qe, 1);
            if ok { ctx.report.notes.push(format!("F5 corpus, query {}: TopDocs(1) is correct on this tree", qe.q.to_json())); }
        }
        let _ = spec;
    }
    // S3: segment A = 128×`a a q×8`, then 64×`a` interleaved with 64×`a a q×8`, 50 fillers of 2000 tokens; B = 20000×`z`
    {
        let (schema, fields) = schema();
        let index = Index::create_in_ram(schema);
        let mut w: IndexWriter = index.writer_with_num_threads(1, 80_000_000).unwrap();
        w.set_merge_policy(Box::new(NoMergePolicy));
        let mut id = 0u64;
        let mut add = |w: &mut IndexWriter, text: String| {
            let mut doc = TantivyDocument::default();
            doc.add_text(fields.body, text);
            doc.add_u64(fields.id, id);
            doc.add_u64(fields.u, id); doc.add_i64(fields.i, 0); doc.add_f64(fields.f, 0.0);
            doc.add_date(fields.d, DateTime::from_timestamp_secs(0)); doc.add_text(fields.s, "x"); doc.add_u64(fields.ties, 0);
            w.add_document(doc).unwrap();
            id += 1;
        };
        let long = "a a q q q q q q q q".to_string();
        for _ in 0..128 { add(&mut w, long.clone()); }
        for j in 0..128 { add(&mut w, if j % 2 == 0 { "a".to_string() } else { long.clone() }); }
        let filler = vec!["z"; 2000].join(" ");
        for _ in 0..50 { add(&mut w, filler.clone()); }
        w.commit().unwrap();
        for _ in 0..20000 { add(&mut w, "z".to_string()); }
        w.commit().unwrap();
        w.wait_merging_threads().unwrap();
        let built = Built { index, fields, num_docs: id as usize };
        let ss = searchers(&built);
        let evals = eval_queries(&built, &ss[0].1, vec![Q::Term("a".into())]);
        for qe in &evals {
            ctx.report.count("known-corpus:S3");
            let ok = check_search_known(ctx, "S3", &built, &ss[0].1, qe, 1);
            if ok { ctx.report.notes.push("S3 corpus: TopDocs(1) is correct on this tree".into()); }
        }
    }
}

fn check_search_known(ctx: &mut Ctx, which: &str, built: &Built, searcher: &Searcher, qe: &QueryEval, k: usize) -> bool {
    let spec = CorpusSpec { segs: vec![], delete_seed: 0, delete_permille: 0, ties_trend: false, ties_explicit: None };
    let before = ctx.report.violations.len();
    let ok = check_search(ctx, &spec, built, searcher, 1, qe, &Kind::Score, k, 0);
    // the generated-case replay format cannot rebuild the hand-written corpus: mark the case
    for v in ctx.report.violations.iter_mut().skip(before) {
        v.case = json!({"kind": "known-corpus", "which": which, "query": qe.q.to_json(), "k": k});
    }
    ok
}

pub fn replay(ctx: &mut Ctx, case: &Value) {
    match case["kind"].as_str().unwrap_or("") {
        "topn" => {
            let keys: Vec<i64> = case["keys"].as_array().map(|a| a.iter().filter_map(|x| x.as_i64()).collect()).unwrap_or_default();
            let addrs: Vec<u32> = case["addrs"].as_array().map(|a| a.iter().filter_map(|x| x.as_u64().map(|y| y as u32)).collect()).unwrap_or_default();
            topn_case(ctx, case["k"].as_u64().unwrap_or(0) as usize, case["asc"].as_bool().unwrap_or(false), &keys, &addrs, "replay");
        }
        "search" | "paging" => {
            let (Some(spec), Some(q), Some(kind)) = (CorpusSpec::from_json(&case["corpus"]), Q::from_json(&case["query"]), kind_from_json(&case["collector"])) else {
                ctx.report.notes.push("replay: malformed case".into());
                return;
            };
            let want: Option<Vec<u64>> = case["segment_order"].as_array().map(|a| a.iter().filter_map(|x| x.as_u64()).collect());
            let (built, matched) = build_with_order(&spec, want.as_ref());
            if !matched {
                ctx.report.notes.push("replay: could not rebuild the corpus with the recorded segment order (it is random per build); replayed on a different order".into());
            }
            let ss = searchers(&built);
            let threads = case["threads"].as_u64().unwrap_or(1) as usize;
            let (t, searcher) = ss.iter().find(|(t, _)| *t == threads).unwrap_or(&ss[0]);
            let evals = eval_queries(&built, searcher, vec![q]);
            if let Some(qe) = evals.first() {
                WRAP.with(|w| w.set(case["wrap"].as_u64().unwrap_or(0) as u8));
                check_search(ctx, &spec, &built, searcher, *t, qe, &kind, case["k"].as_u64().unwrap_or(1) as usize, case["offset"].as_u64().unwrap_or(0) as usize);
                WRAP.with(|w| w.set(0));
            }
        }
        "driver" | "driver-multi" => {
            let (Some(spec), Some(q)) = (CorpusSpec::from_json(&case["corpus"]), Q::from_json(&case["query"])) else { return };
            let want: Option<Vec<u64>> = case["segment_order"].as_array().map(|a| a.iter().filter_map(|x| x.as_u64()).collect());
            let (built, _) = build_with_order(&spec, want.as_ref());
            let ss = searchers(&built);
            if case["kind"] == "driver-multi" {
                driver_case_multi(ctx, &spec, &built, &ss[0].1, &q, f32::from_bits(case["threshold_bits"].as_u64().unwrap_or(0) as u32));
            } else {
                let pol = case["policy"].as_str().unwrap_or("");
                let policy = if pol.starts_with("Staircase") { Policy::Staircase } else if let Some(k) = pol.strip_prefix("KthBest(").and_then(|x| x.strip_suffix(')')).and_then(|x| x.parse().ok()) { Policy::KthBest(k) } else if let Some(b) = pol.strip_prefix("Const(").and_then(|x| x.strip_suffix(')')).and_then(|x| x.parse().ok()) { Policy::Const(b) } else { Policy::Staircase };
                driver_case(ctx, &spec, &built, &ss[0].1, &q, &policy, f32::from_bits(case["initial_bits"].as_u64().unwrap_or(0) as u32));
            }
        }
        "nan" | "sentinel" => {
            let (Some(spec), Some(q)) = (CorpusSpec::from_json(&case["corpus"]), Q::from_json(&case["query"])) else { return };
            let want: Option<Vec<u64>> = case["segment_order"].as_array().map(|a| a.iter().filter_map(|x| x.as_u64()).collect());
            let (built, _) = build_with_order(&spec, want.as_ref());
            let ss = searchers(&built);
            let u = |k: &str| case[k].as_u64().unwrap_or(0);
            if case["kind"] == "sentinel" {
                sentinel_case(ctx, &spec, &built, &ss[0].1, &q, u("score_bits") as u32, u("k") as usize);
            } else {
                let threads = u("threads").max(1) as usize;
                let (t, searcher) = ss.iter().find(|(t, _)| *t == threads).unwrap_or(&ss[0]);
                let evals = eval_queries(&built, searcher, vec![q]);
                if let Some(qe) = evals.first() {
                    nan_case(ctx, &spec, &built, searcher, *t, qe, u("variant"), u("m").max(1), u("r"), u("k") as usize, u("offset") as usize);
                }
            }
        }
        "known-corpus" => known_corpora(ctx),
        other => ctx.report.notes.push(format!("replay kind {other:?} unknown")),
    }
}

pub fn run(ctx: &mut Ctx) {
    ctx.report.rule = "part A: TopNComputer push sequences, non-trivial = more pushes than the buffer capacity 2·max(K,1) and at least one key tie; \
        part B: (corpus, query, collector, K, offset, executor) tuples, non-trivial = more matches than K+offset (so that something is cut off); paging runs non-trivial = more than one page; \
        part C: (corpus, query, callback policy, initial threshold, segment) driver runs, non-trivial = more than 128 matching documents of which at least one is not offered; \
        part D: NaN-key / sentinel-score searches, non-trivial = at least one NaN key among more matches than K+offset (resp. more matches than K)".into();
    ctx.report.correspondence_obligations = vec![
        "TopNComputer::into_sorted_vec = model intoSortedVec (two select_nth behaviours) = sort-and-truncate".into(),
        "TopNComputer::threshold after every push = model threshold".into(),
        "Searcher::search(TopDocs by score / fast field asc,desc (u64,i64,f64,date,str) / tweak_score / custom SortKeyComputer / pair / 3-,4-tuples and nested tuples with per-component orders; TopDocs alone, inside (Count, TopDocs) and inside a MultiCollector) = model topK of the same searcher's exhaustive (doc,key) list".into(),
        "paging over successive offsets enumerates every match exactly once".into(),
        "block_wand_single_scorer's callback sequence = Model/Wand.lean::wandSingle on the term's real blocks and bounds".into(),
        "Weight::for_each_pruning (block_wand_single_scorer / block_wand / block_wand_intersection) under constant, staircase and K-th-best callback policies = the exhaustive loop with the same callback (1-2 clause queries, bit-exact)".into(),
        "Weight::for_each_pruning on 2-5 term unions / conjunctions = Model/BlockWand.lean::blockWand / blockWandInter run in Float32 on the terms' real postings, blocks and bounds (offered documents, score bits, final threshold; three callback policies), also where UB_max / UB_block fail".into(),
        "SegmentSortKeyComputer::accept_sort_key_lazy of tuple and nested-tuple keys (public trait, real segment computers) = Model/LazyKey.lean::acceptPair chains on sampled (document, threshold) pairs".into(),
        "known bound failures (UB_max, UB_block) recomputed through the public postings API before attribution".into(),
        "keys outside the model (NaN sort keys, scores not above Score::MIN): no panic, result size, no duplicates, true keys; attribution of the two known findings by their verified signatures".into(),
    ];
    if let Some(case) = ctx.replay.clone() {
        replay(ctx, &case);
        return;
    }
    if std::env::var("C06_EXPLORE").is_ok() {
        explore_merge_replica(ctx);
        return;
    }
    // corpus of hand-written boundary cases first
    topn_case(ctx, 0, false, &[1, 1, 1], &[1, 2, 3], "corpus");
    topn_case(ctx, 1, false, &[5, 5, 5, 5, 5], &[0, 1, 2, 3, 4], "corpus");
    topn_case(ctx, 2, true, &[3, 1, 1, 1, 1, 0, 1], &[0, 1, 2, 3, 4, 5, 6], "corpus");
    known_corpora(ctx);
    let guided = ctx.budget(16, 100) as usize;
    guided_ties(ctx, guided, 200_000);
    let n_topn = ctx.budget(3000, 60_000);
    gen_topn(ctx, n_topn);
    let corpora = ctx.budget(120, 800);
    let mut rng = ctx.rng.fork();
    for c in 0..corpora {
        let flavour = match c % 8 { 0 => 0, 1 => 6, 2 => 3, 3 => 4, 4 => 1, 5 => 5, _ => 2 };
        let spec = gen_corpus(&mut rng, flavour, ctx.thorough());
        ctx.report.count(&format!("corpus-flavour:{}", ["clean-1seg", "2seg", "multi-seg", "F5-neighbourhood", "S3-neighbourhood", "ties-neighbourhood", "length-trend"][flavour as usize]));
        let mut r2 = rng.fork();
        let t0 = std::time::Instant::now();
        corpus_run(ctx, &spec, &mut r2, 7, 6);
        ctx.report.count_n(&format!("millis:corpus-flavour:{flavour}"), t0.elapsed().as_millis() as u64);
        if c < 2 {
            ctx.report.sample(json!({"part": "B", "corpus": spec.to_json(), "example": "each query: exhaustive (doc, score) list once, then TopDocs by several collectors / K / offsets / executors + a paging run"}));
        }
    }
    {
        let mut r3 = ctx.rng.fork();
        let n = ctx.budget(6, 40);
        let t0 = std::time::Instant::now();
        outside_model_run(ctx, &mut r3, n);
        ctx.report.count_n("millis:outside-model", t0.elapsed().as_millis() as u64);
    }
}
