// included by c15_other.rs: tantivy::termdict (fst backend) and the columnar dictionary

use tantivy::postings::TermInfo;
use tantivy::termdict::{TermDictionary, TermDictionaryBuilder};
use tantivy_columnar::{ColumnarReader, ColumnarWriter, DynamicColumn, MergeRowOrder, StackMergeOrder};

fn fst_stream<A: Automaton>(dict: &TermDictionary, aut: Option<A>, lo: &Bnd, hi: &Bnd) -> Result<Vec<(u64, Vec<u8>, u64)>, String>
where A::State: Clone {
    let r = catch_unwind(AssertUnwindSafe(|| -> std::io::Result<Vec<(u64, Vec<u8>, u64)>> {
        let mut out = vec![];
        macro_rules! drive {
            ($b:expr) => {{
                let mut b = $b;
                b = match lo {
                    Bnd::U => b,
                    Bnd::I(k) => b.ge(k),
                    Bnd::E(k) => b.gt(k),
                };
                b = match hi {
                    Bnd::U => b,
                    Bnd::I(k) => b.le(k),
                    Bnd::E(k) => b.lt(k),
                };
                let mut s = b.into_stream()?;
                while s.advance() {
                    out.push((s.term_ord(), s.key().to_vec(), s.value().postings_range.start as u64));
                }
            }};
        }
        match aut {
            Some(a) => drive!(dict.search(a)),
            None => drive!(dict.range()),
        }
        Ok(out)
    }));
    match r {
        Ok(Ok(v)) => Ok(v),
        Ok(Err(e)) => Err(format!("io:{e}")),
        Err(_) => Err("panic".into()),
    }
}

/// the default build's term dictionary: the FST is a parameter; only the ordered-map oracle
/// (BTreeMap here + Lean spec) is checked through the public API
pub fn fst_termdict(ctx: &mut Ctx, rng: &mut Rng) {
    let (profile, mut keys) = gen_keys(rng, false);
    keys.truncate(600);
    let mut infos: Vec<TermInfo> = vec![];
    let (mut p, mut q) = (0usize, 0usize);
    for _ in 0..keys.len() {
        let pl = *rng.pick(&[1usize, 2, 10, 300, 70_000]);
        let ql = *rng.pick(&[0usize, 1, 5, 1000]);
        infos.push(TermInfo { doc_freq: 1 + rng.below(1000) as u32, postings_range: p..p + pl, positions_range: q..q + ql });
        p += pl;
        q += ql;
    }
    let case = json!({"kind": "fst", "keys": keys_field(&keys), "profile": profile});
    let built = catch_unwind(AssertUnwindSafe(|| -> std::io::Result<Vec<u8>> {
        let mut b = TermDictionaryBuilder::create(Vec::new())?;
        for (k, ti) in keys.iter().zip(infos.iter()) {
            b.insert(k, ti)?;
        }
        b.finish()
    }));
    let bytes = match built {
        Ok(Ok(b)) => b,
        _ => {
            ctx.report.violation("oracle", "C15:fst-sorted-keys-rejected", "TermDictionaryBuilder rejected strictly increasing keys".into(), case);
            return;
        }
    };
    let dict = match TermDictionary::open(tantivy::directory::FileSlice::from(bytes)) {
        Ok(d) => d,
        Err(_) => {
            ctx.report.violation("oracle", "C15:fst-open-failed", "TermDictionary::open failed".into(), case);
            return;
        }
    };
    ctx.report.count("fst:dictionaries");
    // out-of-order insertion must be refused
    if keys.len() >= 2 {
        let mut bad = keys.clone();
        let i = rng.usize_below(bad.len() - 1);
        if rng.chance(1, 2) {
            bad.swap(i, i + 1);
        } else {
            bad[i + 1] = bad[i].clone();
        }
        let r = catch_unwind(AssertUnwindSafe(|| -> bool {
            let mut b = TermDictionaryBuilder::create(Vec::new()).unwrap();
            for (k, ti) in bad.iter().zip(infos.iter()) {
                if b.insert(k, ti).is_err() {
                    return false;
                }
            }
            b.finish().is_ok()
        }));
        ctx.report.case(&format!("fst-ins|{}", fnv_keys(&bad)), true);
        if matches!(r, Ok(true)) {
            ctx.report.violation("oracle", "C15:fst-out-of-order-accepted", format!("fst TermDictionaryBuilder accepted out-of-order / duplicate key at {}", i + 1), json!({"kind":"fst","keys":keys_field(&bad)}));
        }
    }
    let vals: Vec<u64> = infos.iter().map(|t| t.postings_range.start as u64).collect();
    let ops: Vec<String> = gen_ops(rng, &keys, &[], 30).into_iter().filter(|o| {
        let k = o.split(':').next().unwrap();
        matches!(k, "get" | "ord" | "o2t" | "aut") || (k == "rng" && o.ends_with(":n"))
    }).collect();
    // Lean spec answers (the block model half is ignored here)
    let mut tables = vec![];
    let lean_ops: Vec<String> = ops.iter().map(|op| {
        let parts: Vec<&str> = op.split(':').collect();
        if parts[0] != "aut" {
            return op.clone();
        }
        match AutSpec::parse(parts[1]) {
            Some(AutSpec::Prefix(p)) => format!("aut:p{}:{}:{}", hex(&p), parts[2], parts[3]),
            Some(s) => {
                let t: Option<String> = c15_with_aut!(&s, a, explore(&a, 400), None);
                match t {
                    Some(t) => {
                        tables.push(t);
                        format!("aut:t{}:{}:{}", tables.len() - 1, parts[2], parts[3])
                    }
                    None => "skip".into(),
                }
            }
            None => "skip".into(),
        }
    }).collect();
    let resp = ctx.model.ask(&format!("C15 run 4000 {} {} {} {}", keys_field(&keys), nats_field(&vals), if tables.is_empty() { "_".into() } else { tables.join("|") }, lean_ops.join(";")));
    let answers: Vec<&str> = resp.split(';').collect();
    if answers.len() != ops.len() {
        ctx.report.violation("model", "C15:driver-protocol", "fst: answer count".into(), case);
        return;
    }
    let oracle: BTreeMap<Vec<u8>, &TermInfo> = keys.iter().cloned().zip(infos.iter()).collect();
    let sorted: Vec<(&Vec<u8>, &&TermInfo)> = oracle.iter().collect();
    for (op, ans) in ops.iter().zip(answers.iter()) {
        let spec = ans.split('~').next().unwrap_or("");
        let parts: Vec<&str> = op.split(':').collect();
        ctx.report.case(&format!("fst|{}|{}", fnv_keys(&keys), op), keys.len() >= 2);
        ctx.report.count(&format!("fst-op:{}", parts[0]));
        let mut cj = case.clone();
        cj["op"] = json!(op);
        match parts[0] {
            "get" => {
                let k = unhex(parts[1]).unwrap();
                let real = dict.get(&k).ok().flatten();
                let want = oracle.get(&k).map(|t| (*t).clone());
                if real != want || show_opt_v(real.as_ref().map(|t| t.postings_range.start as u64)) != spec {
                    ctx.report.violation("oracle", "C15:fst-get-wrong", format!("TermDictionary::get({}) = {:?}, expected {:?} / Lean spec {spec}", hex(&k), real, want), cj);
                }
            }
            "ord" => {
                let k = unhex(parts[1]).unwrap();
                let real = dict.term_ord(&k).ok().flatten();
                let shown = real.map(|v| v.to_string()).unwrap_or("none".into());
                if real != sorted.iter().position(|e| *e.0 == k).map(|i| i as u64) || shown != spec {
                    ctx.report.violation("oracle", "C15:fst-term-ord-wrong", format!("term_ord = {shown}, Lean spec {spec}"), cj);
                }
            }
            "o2t" => {
                let o: u64 = parts[1].parse().unwrap();
                let mut buf = vec![];
                let found = catch_unwind(AssertUnwindSafe(|| dict.ord_to_term(o, &mut buf)));
                let shown = match &found {
                    Ok(Ok(true)) => format!("k{}", hex(&buf)),
                    Ok(Ok(false)) => "none".into(),
                    _ => "panic".into(),
                };
                if shown != spec {
                    ctx.report.violation("oracle", "C15:fst-ord-to-term-wrong", format!("ord_to_term({o}) = {shown}, Lean spec {spec}"), cj);
                } else if (o as usize) < keys.len() {
                    let ti = catch_unwind(AssertUnwindSafe(|| dict.get(&buf).ok().flatten()));
                    if ti.ok().flatten().as_ref() != Some(*sorted[o as usize].1) {
                        ctx.report.violation("oracle", "C15:fst-term-info-wrong", format!("term_info_from_ord({o}) differs from what was inserted"), cj);
                    }
                }
            }
            "rng" | "aut" => {
                let (lo, hi, aspec) = if parts[0] == "rng" { (Bnd::parse(parts[1]), Bnd::parse(parts[2]), None) } else { (Bnd::parse(parts[2]), Bnd::parse(parts[3]), AutSpec::parse(parts[1])) };
                let (real, acc): (Result<Vec<(u64, Vec<u8>, u64)>, String>, Vec<bool>) = match &aspec {
                    None => (fst_stream::<PrefixAut>(&dict, None, &lo, &hi), vec![true; sorted.len()]),
                    Some(s) => {
                        let r = c15_with_aut!(s, a, {
                            let acc: Vec<bool> = sorted.iter().map(|e| accepts(&a, e.0)).collect();
                            Some((fst_stream(&dict, Some(a), &lo, &hi), acc))
                        }, None);
                        match r {
                            Some(x) => x,
                            None => continue,
                        }
                    }
                };
                let want: Vec<(u64, Vec<u8>, u64)> = sorted.iter().enumerate().filter(|(i, e)| acc[*i] && lo.lo_ok(e.0) && hi.hi_ok(e.0)).map(|(i, e)| (i as u64, e.0.clone(), e.1.postings_range.start as u64)).collect();
                let want_d = digest(&want);
                match real {
                    Ok(real) => {
                        let d = digest(&real);
                        if real != want || (spec != "skip" && d != spec) {
                            ctx.report.violation("oracle", "C15:fst-stream-wrong", format!("fst stream digest {d}, sorted map {want_d}, Lean spec {spec}"), cj);
                        }
                    }
                    Err(e) => ctx.report.violation("oracle", "C15:fst-stream-panics", format!("fst stream failed: {e}"), cj),
                }
            }
            _ => {}
        }
    }
}

fn bytes_column(reader: &ColumnarReader, name: &str) -> Option<tantivy_columnar::BytesColumn> {
    for h in reader.read_columns(name).ok()? {
        match h.open().ok()? {
            DynamicColumn::Bytes(b) => return Some(b),
            DynamicColumn::Str(s) => return Some((*s).clone()),
            _ => {}
        }
    }
    None
}

/// rows of a bytes column as terms (through ordinals and the dictionary)
fn column_rows(col: &tantivy_columnar::BytesColumn, num_docs: u32) -> Option<Vec<Vec<Vec<u8>>>> {
    let mut rows = vec![];
    for d in 0..num_docs {
        let mut r = vec![];
        for o in col.term_ords(d) {
            let mut buf = vec![];
            if !col.ord_to_bytes(o, &mut buf).ok()? {
                return None;
            }
            r.push(buf);
        }
        rows.push(r);
    }
    Some(rows)
}

fn build_columnar(docs: &[Vec<Vec<u8>>]) -> Option<ColumnarReader> {
    let mut w = ColumnarWriter::default();
    for (d, vals) in docs.iter().enumerate() {
        for v in vals {
            w.record_bytes(d as u32, "c", v);
        }
    }
    let mut buf = vec![];
    w.serialize(docs.len() as u32, None, &mut buf).ok()?;
    ColumnarReader::open(buf).ok()
}

/// columnar dictionary (always an sstable) + the columnar term merger's ordinal remap
pub fn columnar(ctx: &mut Ctx, rng: &mut Rng) {
    let (profile, universe) = gen_keys(rng, false);
    let universe: Vec<Vec<u8>> = universe.into_iter().filter(|k| k.len() < 2000).take(1500).collect();
    if universe.is_empty() {
        return;
    }
    let nseg = 1 + rng.usize_below(3);
    let mut segs: Vec<Vec<Vec<Vec<u8>>>> = vec![];
    for _ in 0..nseg {
        let ndocs = 1 + rng.usize_below(if universe.len() > 500 { 2500 } else { 60 });
        let docs: Vec<Vec<Vec<u8>>> = (0..ndocs).map(|_| {
            let n = *rng.pick(&[0usize, 1, 1, 1, 2, 3]);
            let mut v: Vec<Vec<u8>> = (0..n).map(|_| universe[rng.usize_below(universe.len())].clone()).collect();
            v.sort();
            v.dedup();
            v
        }).collect();
        segs.push(docs);
    }
    let case = json!({"kind": "columnar", "profile": profile, "segments": segs.iter().map(|s| s.len()).collect::<Vec<_>>(), "universe": universe.len()});
    let res = catch_unwind(AssertUnwindSafe(|| -> Option<()> {
        let readers: Vec<ColumnarReader> = segs.iter().map(|s| build_columnar(s)).collect::<Option<Vec<_>>>()?;
        for (reader, docs) in readers.iter().zip(segs.iter()) {
            let used: std::collections::BTreeSet<Vec<u8>> = docs.iter().flatten().cloned().collect();
            if used.is_empty() {
                continue;
            }
            let col = bytes_column(reader, "c")?;
            let keys: Vec<Vec<u8>> = used.iter().cloned().collect();
            // the column's dictionary obeys the ordered-map spec and the block model (default block length)
            let layout = model_layout(ctx, 4000, &keys);
            let seps: Vec<Vec<u8>> = layout.iter().map(|b| b.2.clone()).collect();
            let mut ops = gen_ops(rng, &keys, &seps, 12);
            ops.retain(|o| !o.starts_with("val:"));
            let dc = DictCase { vk: "void".into(), block_len: None, vals: vec![(0, 0); keys.len()], keys, ops, profile: format!("columnar:{profile}") };
            check_ops(ctx, &void_codec(), &dc, col.dictionary());
            ctx.report.count("columnar:dictionaries");
            if column_rows(&col, docs.len() as u32).as_ref() != Some(docs) {
                ctx.report.violation("oracle", "C15:columnar-ordinals", "rows read back through term ordinals differ from what was recorded".into(), case.clone());
            }
        }
        // merge: dictionary = sorted union, rows keep their terms (old→new ordinal remap)
        let refs: Vec<&ColumnarReader> = readers.iter().collect();
        let mut out = vec![];
        tantivy_columnar::merge_columnar(&refs, &[], MergeRowOrder::Stack(StackMergeOrder::stack(&refs)), &mut out).ok()?;
        let merged = ColumnarReader::open(out).ok()?;
        let all_docs: Vec<Vec<Vec<u8>>> = segs.iter().flatten().cloned().collect();
        let used: Vec<Vec<u8>> = all_docs.iter().flatten().cloned().collect::<std::collections::BTreeSet<_>>().into_iter().collect();
        ctx.report.case(&format!("colmerge|{}|{}", nseg, fnv_keys(&used)), nseg >= 2);
        ctx.report.count(&format!("columnar-merge:segments-{nseg}"));
        if used.is_empty() {
            return Some(());
        }
        let col = bytes_column(&merged, "c")?;
        let items = real_stream::<VoidSSTable, PrefixAut>(col.dictionary(), &void_codec(), None, &Bnd::U, &Bnd::U, None).ok()?;
        let got: Vec<Vec<u8>> = items.iter().map(|e| e.1.clone()).collect();
        if got != used || items.iter().enumerate().any(|(i, e)| e.0 != i as u64) {
            ctx.report.violation("oracle", "C15:columnar-merge-dictionary", format!("merged column dictionary has {} terms, sorted union of used terms {}", got.len(), used.len()), case.clone());
        }
        if column_rows(&col, all_docs.len() as u32).as_ref() != Some(&all_docs) {
            ctx.report.violation("oracle", "C15:columnar-merge-ordinal-remap", "rows of the merged column do not keep their terms (old→new ordinal mapping wrong)".into(), case.clone());
        }
        Some(())
    }));
    match res {
        Ok(Some(())) => {}
        Ok(None) => ctx.report.violation("oracle", "C15:columnar-io", "columnar build / open / merge failed".into(), case),
        Err(_) => ctx.report.violation("oracle", "C15:columnar-panics", "columnar build / open / merge panicked".into(), case),
    }
}
